"""C10 -- pivoted Cholesky under-approximates greedily; its preconditioner is exact (DESIGN section 4, C10).

Part A   op.pivoted_cholesky(rank=k, error_tol, return_pivots=True) -> (L, pivots)
Part B   (K + D)._preconditioner() -> (closure, P, logdet)   [AddedDiagLinearOperator]

Notation.  u = unit round-off of the operator dtype, n = matrix size, A = the float64 matrix the operator denotes
(refmodel.dense of the very literals handed to the library), amax = max diag(A), R_m = A - L[:, :m] L[:, :m]^T
evaluated in float64 from the library's own L.

Tolerances (all derived, none fitted):
  TA   = C_A (n+2) u amax, C_A = 32.   Standard Cholesky error analysis (Higham, ASNA 2nd ed., Thm 10.3 / 10.14): every
         computed entry of column j obeys  a_{pi_j,i} = sum_{t<=j} l_t,pi_j l_t,i  up to gamma_{j+1} sum |l||l| <=
         (j+2) u sqrt(a_ii a_jj) <= (n+2) u amax, to which the rounding of row extraction of structured operators
         (an inner product of <= n terms) adds <= (n+2) u amax.  C_A = 32 leaves a factor >= 10.  Hence
           - rows/columns of R_m at the chosen pivots vanish to TA               (A.vanish, A.exact when r = n)
           - the library's running diagonal equals diag(R_m) to TA, so the chosen pivot is within 2 TA of the max
             (A.greedy) and its early-stop statistic equals ||diag R_m||_1 / amax to n TA / amax  (A.stop.*)
  PSD  lambda_min(R_m) >= -TA (1 + ||W_m||_2)^2 with W_m = A11^{-1} A12 computed in float64 for the pivots chosen:
         R_m is the exact Schur complement of A + E, |E| <= TA, and S(A+E) - S(A) = [-W^T I] E [-W; I] to first order
         (Higham Lemma 10.10); the same factor covers lambda_min(A) >= -n u amax of float32-rounded low-rank inputs.
  "healthy" steps.  A step whose exact residual pivot is <= FLOOR_CHK = 4 TA is decided by rounding noise; no
         invariant except finiteness can be demanded of it.  The generator keeps every step the library executes
         above FLOOR_GEN = 64 TA on a float64 reference run (see `_normalise`), i.e. it never asks a *single* matrix
         for more columns than its numerical rank unless the tolerance stops the loop first (implicit precondition
         of a Cholesky-type routine: the docstring says "positive definite").  A *batch* in which every member
         satisfies this precondition on its own, but whose members reach their numerical rank at different steps, is
         inside the quantifier ("batches whose members ... have different numerical rank") and is generated.
  Part B, M = L L^T + D (float64, L from an independent pivoted_cholesky call under the same settings),
         kappa' = ||M||_2 / min(D) >= cond(M):
           closure:  |C - M^{-1}| <= C_B (n+k) u kappa' / min(D), C_B = 32.  Householder QR of the stacked matrix
                     [L D^{-1/2}; I] is exact for a perturbation eps ||stack|| = eps sqrt(kappa'), eps = c (n+k) u; through
                     Woodbury the projector error is <= eps kappa' (because ||(I+BB^T)^{-1} B|| <= 1/2), scaled by
                     ||D^{-1}||.
           sym/pd :  follow from the same bound (Weyl):  |C - C^T| <= 2 T,  lambda_min(sym C) >= 1/||M||_2 - n T.
           logdet :  |ld - log|M|| <= C_B (n+k) u (k kappa' + n (1 + Lmax)), Lmax = max |log| of min D, max D, ||M||_2
                     (|d logdet G| <= k ||G^{-1} dG|| <= 2 k eps kappa' plus rounding of the <= n logarithms summed).
           operator: exact-structure bound of DESIGN 3 on |L||L|^T + D with inner dimension k.
"""
import math
import re
import warnings

import linear_operator
import torch
from hypothesis import strategies as st

from lov import exc as X
from lov import lit as LIT, recipe as R, refmodel, spd, state, tol
from lov.core import HarnessError, Violation

ID = "C10"
RULE = (
    "case = (PSD source: spectrum families with per-member spectra/ranks, exact grid Gram matrices with duplicated rows "
    "(ties, exact low rank), Kronecker (incl. identity factor: ties at every step), autocorrelation Toeplitz, RBF kernel "
    "on gridded points (fast decay), positive diagonal, interpolated W K W^T; wrapped as Dense / MinimalOp / Root / "
    "ConstantMul / Sum / PsdSum / AddedDiag / Kronecker / Toeplitz / Kernel / Diag / Interpolated; batch shapes; "
    "f32/f64; rank k in 1..n+1; error_tol in {None, 1e-1, 1e-8}).  Part B adds D (ConstantDiag / Diag / equal-entry "
    "Diag; batch same / sub / super; built by constructor, swapped constructor, add_jitter, add_diagonal, +) and the "
    "settings max_preconditioner_size, min_preconditioning_size, preconditioner_tolerance (incl. the 'off' cells).  "
    "Non-trivial: r < n, or a batch whose members chose different pivots, or non-constant D.  Distinct by hash of the case."
)
BUDGET = {"quick": 1200, "thorough": 2000}
ASSUMPTIONS = [
    "a single matrix is never asked for more columns than its numerical rank (residual pivot > 64*TA on a float64 "
    "reference run) unless the tolerance stops the loop first; the zero matrix (max diag = 0) is not generated",
    "operators whose _approx_diagonal() is documented as an approximation (Interpolated with >1 point per row) are "
    "checked for the structural invariants only (shapes, finiteness, permutation, rank <= k)",
    "growth factor ||W||_2 of complete pivoting enters the PSD tolerance explicitly (computed, not bounded a priori)",
]
C_A = 32.0
C_B = 32.0
FLOOR_CHK = 4.0  # x TA
FLOOR_GEN = 64.0  # x TA
TOLS = [None, 0.1, 1e-8]
F64 = torch.float64

T_BATCH = "batch_member_exhausted_early"
T_DBATCH = "noise_batch_exceeds_kernel_batch"

# triggers switched on by hand (tests); open entries of known_findings.json are added by _open_triggers()
FORCE_EXCLUDE = ()


def set_exclude(names):
    global FORCE_EXCLUDE
    FORCE_EXCLUDE = tuple(names)


def _open_triggers():
    from lov.findings import load

    out = set(FORCE_EXCLUDE)
    for e in load():
        if e.get("property") == ID and e.get("status", "open") == "open" and e.get("trigger"):
            out.add(e["trigger"])
    return out


# ------------------------------------------------------------------------------------------------------------------
# sources -> recipes (pure functions of the JSON case)
# ------------------------------------------------------------------------------------------------------------------
def _lit(t, dt):
    return LIT.lit(t.tolist(), dt)


def _gram(F):
    return F @ F.transpose(-1, -2)


def _grid_F(src):
    F = torch.tensor(src["F"], dtype=F64)
    for i, j in src.get("dup", []):
        F[..., j, :] = F[..., i, :]
    flat = F.reshape(-1, F.shape[-2], F.shape[-1])
    for b in range(flat.shape[0]):
        if float(flat[b].abs().max()) == 0.0:
            flat[b, 0, 0] = 1.0
    return flat.reshape(F.shape)


def _toeplitz_col(src):
    x = torch.tensor(src["x"], dtype=F64)  # (*batch, s)
    n, s = src["n"], x.shape[-1]
    c = torch.zeros(*x.shape[:-1], n, dtype=F64)
    for k in range(min(n, s)):
        c[..., k] = (x[..., : s - k] * x[..., k:]).sum(-1)
    c[..., 0] += src["delta"]
    c[..., 0] = torch.where(c[..., 0] <= 0, torch.ones_like(c[..., 0]), c[..., 0])
    return c


def k_recipe(src, dt):
    """Recipe of the PSD operator K described by `src` (values rounded to dtype `dt` by the literal)."""
    kind, wrap = src["kind"], src["wrap"]
    if kind == "spd":
        A, w, Q = spd.build(src["spec"])
        if wrap == "root":
            F = Q * w.clamp_min(0).sqrt().unsqueeze(-2)
            keep = int((w > 0).sum(-1).max())
            return {"op": "Root", "base": {"op": "Dense", "t": _lit(F[..., : max(keep, 1)], dt)}}
        base = {"op": "Minimal" if wrap == "minimal" else "Dense", "t": _lit(A, dt)}
        if wrap in ("dense", "minimal"):
            return base
        if wrap == "cmul":
            return {"op": "ConstantMul", "base": base, "c": LIT.lit(src["c"], dt)}
        if wrap in ("sum", "psdsum"):
            f = {"op": "Root", "base": {"op": "Dense", "t": LIT.lit(src["f"], dt)}}
            return {"op": "Sum" if wrap == "sum" else "PsdSum", "args": [base, f]}
        if wrap == "added":
            return {"op": "AddedDiag", "args": [base, {"op": "Diag", "d": LIT.lit(src["d"], dt)}]}
    if kind == "grid":
        F = _grid_F(src)
        if wrap == "root":
            return {"op": "Root", "base": {"op": "Dense", "t": _lit(F, dt)}}
        return {"op": "Minimal" if wrap == "minimal" else "Dense", "t": _lit(_gram(F), dt)}
    if kind == "kron":
        F1, F2 = torch.tensor(src["F1"], dtype=F64), _grid_F({"F": src["F2"]})
        B1 = torch.eye(F1.shape[-2], dtype=F64).expand(*F1.shape[:-2], -1, -1) if src.get("eye") else _gram(F1) + 0.25 * torch.eye(F1.shape[-2], dtype=F64)
        B2 = _gram(F2)
        if wrap == "kron":
            return {"op": "Kronecker", "args": [{"op": "Dense", "t": _lit(B1, dt)}, {"op": "Dense", "t": _lit(B2, dt)}]}
        return {"op": "Dense", "t": _lit(refmodel.kron(B1, B2), dt)}
    if kind == "toeplitz":
        c = _toeplitz_col(src)
        if wrap == "toeplitz":
            return {"op": "Toeplitz", "c": _lit(c, dt)}
        return {"op": "Dense", "t": _lit(refmodel.toeplitz(c), dt)}
    if kind == "kernel":
        x = LIT.lit(src["x"], dt)
        params = {"lengthscale": LIT.lit(src["ls"], dt), "outputscale": LIT.lit(src["os"], dt)}
        if wrap == "kernel":
            return {"op": "Kernel", "kernel": "rbf", "x1": x, "x2": dict(x), "params": params, "nonbatch": {"outputscale": 0}}
        vals = refmodel.kernel_dense("rbf", LIT.value(x, F64), LIT.value(x, F64), {k: LIT.value(v, F64) for k, v in params.items()})
        return {"op": "Dense", "t": _lit(vals, dt)}
    if kind == "diag":
        return {"op": "Diag", "d": LIT.lit(src["d"], dt)}
    if kind == "interp":
        A, _, _ = spd.build(src["spec"])
        idx, val = LIT.lit(src["idx"], "i64"), LIT.lit(src["val"], dt)
        return {"op": "Interpolated", "base": {"op": "Dense", "t": _lit(A, dt)}, "li": idx, "lv": val, "ri": dict(idx), "rv": dict(val)}
    raise HarnessError("unknown source %r/%r" % (kind, wrap))


def _approx_only(src):
    return src["kind"] == "interp" and len(src["idx"]) > 0 and _last_dim(src["idx"]) > 1


def _last_dim(v):
    while isinstance(v, list) and v and isinstance(v[0], list):
        v = v[0]
    return len(v)


def d_recipe(dsp, n, dt):
    if dsp["kind"] == "const":
        return {"op": "ConstantDiag", "c": LIT.lit(dsp["vals"], dt), "n": n}
    vals = torch.tensor(dsp["vals"], dtype=F64)
    if dsp["kind"] == "diag_equal":
        vals = vals[..., :1].expand(*vals.shape[:-1], n)
    if dsp["kind"] == "diag_near":
        # NEARLY constant per-element noise (relative spread < 1e-5, exactly representable in float32): still a per-element D
        k = (vals * 8.0).round() % 9
        vals = vals[..., :1].expand(*vals.shape[:-1], n) * (1.0 + k * 2.0**-20)
    if dsp["kind"] == "diag_tiny":
        # per-element noise of absolute size ~1e-9 (below any absolute closeness tolerance) that differs by large factors
        vals = vals * 2.0**-30
    return {"op": "Diag", "d": _lit(vals.contiguous(), dt)}


# ------------------------------------------------------------------------------------------------------------------
# float64 reference run (domain predicate only -- never compared with the library's output)
# ------------------------------------------------------------------------------------------------------------------
def _ta_rel(n, dt):
    return C_A * (n + 2) * tol.U[dt]


def _sim_member(A, kk, floor_abs):
    """Greedy pivoted Cholesky of one float64 matrix.  Returns (healthy, errs): `healthy` = number of leading steps
    whose residual pivot is > floor_abs (<= kk); errs[m] = ||diag R_m||_1 / amax for m = 0..healthy."""
    n = A.shape[-1]
    d = A.diagonal().clone()
    amax = float(d.max())
    Lc = []
    errs = [float(d.abs().sum()) / amax]
    healthy = 0
    for m in range(kk):
        p, i = torch.max(d, 0)
        if float(p) <= floor_abs:
            break
        col = A[:, i].clone()
        for c in Lc:
            col -= c * c[i]
        col = col / math.sqrt(float(p))
        Lc.append(col)
        d = d - col * col
        d[i] = 0.0  # a chosen pivot has an exactly-zero residual
        healthy += 1
        errs.append(float(d.abs().sum()) / amax)
    return healthy, errs


def _stop_step(errs_list, healthy_list, kk, tol_eff, slack):
    """Upper bound on the number of iterations the (batched) loop performs: it continues while max_i err_i > tol."""
    for m in range(1, kk + 1):
        worst = 0.0
        for errs, h in zip(errs_list, healthy_list):
            worst = max(worst, errs[min(m, h)])
        if worst <= tol_eff - slack:
            return m
    return kk


def _members(Aref):
    n = Aref.shape[-1]
    return Aref.reshape(-1, n, n)


def _domain(Aref, dt, k, tol_eff):
    """-> dict(alone=k' or None, batch=k' or None): the largest ranks that keep every executed step healthy when
    each member is run alone / when the batch is run together."""
    n = Aref.shape[-1]
    kk = min(k, n)
    ta = _ta_rel(n, dt)
    mem = _members(Aref)
    sims = []
    for b in range(mem.shape[0]):
        amax = float(mem[b].diagonal().max())
        sims.append(_sim_member(mem[b], kk, FLOOR_GEN * ta * amax))
    slack = n * ta
    alone = None
    for h, errs in sims:
        r_hi = _stop_step([errs], [h], kk, tol_eff, slack)
        if h < r_hi:
            alone = h if alone is None else min(alone, h)
    k_al = kk if alone is None else max(1, alone)
    hs = [min(h, k_al) for h, _ in sims]
    r_hi = _stop_step([e for _, e in sims], hs, k_al, tol_eff, slack)
    batch = None
    if any(h < r_hi for h in hs):
        batch = max(1, min(hs))
    return {"alone": alone if alone is None else max(1, alone), "batch": batch}


def _tol_eff(case):
    if case["part"] == "A":
        return 1e-3 if case["tol"] is None else case["tol"]
    pt = case["set"].get("preconditioner_tolerance")
    return 1e-3 if pt is None else pt


def _k_of(case):
    return case["k"] if case["part"] == "A" else case["set"]["max_preconditioner_size"]


def _set_k(case, k):
    if case["part"] == "A":
        case["k"] = k
    else:
        case["set"]["max_preconditioner_size"] = k


def _aref(case):
    return refmodel.dense(k_recipe(case["src"], case["dt"]))


def _batch_overrun(case):
    """TRIGGER: some batch member reaches its numerical rank (residual pivot <= 64 TA) at a step the batched loop
    still executes because another member has not met the tolerance yet."""
    if _approx_only(case["src"]) or _k_of(case) <= 0:
        return False
    A = _aref(case)
    if A.dim() < 3:
        return False
    dom = _domain(A, case["dt"], _k_of(case), _tol_eff(case))
    return dom["alone"] is None and dom["batch"] is not None


def _d_super(case):
    """TRIGGER: the batch shape of D is not contained in (does not broadcast *to*) the batch shape of K."""
    if case["part"] != "B":
        return False
    kb = tuple(_src_batch(case["src"]))
    db = tuple(case["D"]["batch"])
    try:
        return tuple(torch.broadcast_shapes(kb, db)) != kb
    except RuntimeError:
        return True


TRIGGERS = {T_BATCH: _batch_overrun, T_DBATCH: _d_super}


def _normalise(case, excluded):
    """Generator-side domain restriction (construction instead of rejection): clamp the rank so that no member is
    iterated past its numerical rank *on its own*; while finding T_BATCH is open also clamp batches."""
    case = dict(case)
    if _approx_only(case["src"]) or _k_of(case) <= 0:
        case["clamp"] = None
        return case
    dom = _domain(_aref(case), case["dt"], _k_of(case), _tol_eff(case))
    case["clamp"] = None
    if dom["alone"] is not None:
        case = _with_k(case, dom["alone"])
        case["clamp"] = "alone"
        dom = _domain(_aref(case), case["dt"], _k_of(case), _tol_eff(case))
    if dom["batch"] is not None and T_BATCH in excluded:
        case = _with_k(case, dom["batch"])
        case["clamp"] = "batch"
    return case


def _with_k(case, k):
    case = dict(case)
    if case["part"] == "B":
        case["set"] = dict(case["set"])
    _set_k(case, k)
    return case


# ------------------------------------------------------------------------------------------------------------------
# strategy
# ------------------------------------------------------------------------------------------------------------------
BATCHES = [(), (), (), (2,), (2,), (3,), (1,), (2, 1), (1, 2), (2, 2)]


def _ints(draw, shape, lo, hi, den):
    cnt = 1
    for s in shape:
        cnt *= s
    flat = draw(st.lists(st.integers(lo, hi), min_size=cnt, max_size=cnt))
    return _nest([x / den for x in flat], list(shape))


def _nest(flat, shape):
    if not shape:
        return flat[0]
    if len(shape) == 1:
        return list(flat[: shape[0]])
    step = 1
    for s in shape[1:]:
        step *= s
    return [_nest(flat[i * step : (i + 1) * step], shape[1:]) for i in range(shape[0])]


def _nest_fn(shape, f):
    if not shape:
        return f()
    return [_nest_fn(shape[1:], f) for _ in range(shape[0])]


def _src_batch(src):
    return src["batch"]


@st.composite
def _spd_spec(draw, n, batch, dt, pd_only=False, kmax=None):
    kappas = [1.0, 10.0, 1e2, 1e4, 1e6] + ([1e8, 1e10] if dt == "f64" else [])
    if kmax is not None:
        kappas = [x for x in kappas if x <= kmax]
    mixed = draw(st.booleans())

    def one():
        fam = draw(st.sampled_from(spd.FAMILIES))
        kap = draw(st.sampled_from(kappas))
        lmax = draw(st.sampled_from([1.0, 1.0, 4.0, 0.25, 100.0]))
        w = spd.spectrum(fam, n, kap, lmax)
        rank = None
        if not pd_only and n > 1 and draw(st.sampled_from([True, False, False])):
            rank = draw(st.integers(1, n - 1))
            w = w[:rank] + [0.0] * (n - rank)
        return w, [fam, kap, rank]

    if mixed:
        meta = []

        def f():
            w, m = one()
            meta.append(m)
            return w

        ws = _nest_fn(batch, f)
    else:
        w, m = one()
        meta = [m]
        ws = _nest_fn(batch, lambda: list(w))
    r = draw(st.integers(0, min(4, n)))
    vs = _ints(draw, tuple(batch) + (r, n), -8, 8, 4.0) if r > 0 else []
    return {"n": n, "batch": list(batch), "w": ws, "vs": vs}, meta


@st.composite
def sources(draw, dt, batch, part, max_n):
    kinds = ["kron", "interp", "spd", "spd", "spd", "spd", "grid", "grid", "toeplitz", "kernel", "kron", "diag"]
    if part == "B":
        kinds = ["spd", "spd", "spd", "grid", "toeplitz", "kernel"]
    kind = draw(st.sampled_from(kinds))
    n = draw(st.sampled_from([x for x in (5, 3, 8, 1, 2, 3, 4, 4, 5, 6, 6, 7, 8, 9, 10, 12, 14, 16) if x <= max_n]))
    src = {"kind": kind, "batch": list(batch)}
    if kind == "spd":
        wraps = ["added", "psdsum", "sum", "cmul", "root", "minimal", "dense", "dense"] if part == "A" else ["sum", "cmul", "root", "minimal", "dense", "dense"]
        src["wrap"] = draw(st.sampled_from(wraps))
        src["spec"], src["meta"] = draw(_spd_spec(n, batch, dt))
        if src["wrap"] == "cmul":
            cb = draw(st.sampled_from([(), tuple(batch)]))
            src["c"] = _ints(draw, cb, 1, 16, 4.0)
        if src["wrap"] in ("sum", "psdsum"):
            src["f"] = _ints(draw, tuple(batch) + (n, 1), -8, 8, 4.0)
        if src["wrap"] == "added":
            src["d"] = _ints(draw, tuple(batch) + (n,), 0, 8, 4.0)
    elif kind == "grid":
        src["wrap"] = draw(st.sampled_from(["dense", "root", "minimal"]))
        q = draw(st.integers(1, n))
        src["F"] = _ints(draw, tuple(batch) + (n, q), -8, 8, 4.0)
        nd = draw(st.integers(0, 2)) if n > 1 else 0
        src["dup"] = [sorted(draw(st.lists(st.integers(0, n - 1), min_size=2, max_size=2, unique=True))) for _ in range(nd)]
    elif kind == "kron":
        src["wrap"] = draw(st.sampled_from(["kron", "kron", "dense"]))
        p = draw(st.sampled_from([2, 3, 1, 4]))
        qn = draw(st.sampled_from([x for x in (2, 3, 1, 4) if x <= max(1, max_n // p)]))
        src["eye"] = draw(st.booleans())
        src["F1"] = _ints(draw, tuple(batch) + (p, draw(st.integers(1, p))), -4, 4, 2.0)
        src["F2"] = _ints(draw, tuple(batch) + (qn, draw(st.integers(1, qn))), -8, 8, 4.0)
    elif kind == "toeplitz":
        src["wrap"] = draw(st.sampled_from(["toeplitz", "toeplitz", "dense"]))
        src["n"] = n
        src["x"] = _ints(draw, tuple(batch) + (draw(st.integers(1, n)),), -8, 8, 4.0)
        src["delta"] = draw(st.sampled_from([0.0, 0.0, 0.25, 1.0]))
    elif kind == "kernel":
        src["wrap"] = draw(st.sampled_from(["kernel", "kernel", "dense"]))
        src["x"] = _ints(draw, tuple(batch) + (n, 1), -12, 12, 4.0)
        src["ls"] = _nest_fn(tuple(batch), lambda: [[draw(st.sampled_from([0.5, 1.0, 2.0, 4.0]))]])
        src["os"] = _nest_fn(tuple(batch), lambda: draw(st.sampled_from([0.5, 1.0, 2.0])))
    elif kind == "diag":
        src["wrap"] = "diag"
        src["d"] = _ints(draw, tuple(batch) + (n,), 1, 8, 2.0)
    elif kind == "interp":
        src["wrap"] = "interp"
        p = draw(st.integers(2, 5))
        j = draw(st.sampled_from([1, 1, 2]))
        bb = draw(st.sampled_from([(), tuple(batch)]))
        src["spec"], src["meta"] = draw(_spd_spec(p, bb, dt, pd_only=True, kmax=10.0))
        src["idx"] = _nest_fn(tuple(batch) + (n,), lambda: draw(st.lists(st.integers(0, p - 1), min_size=j, max_size=j, unique=True)))
        src["val"] = _ints(draw, tuple(batch) + (n, j), 2, 8, 4.0)
    return src


def _sub_batch(draw, batch):
    if not batch:
        return ()
    b = [1 if draw(st.booleans()) else x for x in batch]
    k = draw(st.integers(0, len(b)))
    return tuple(b[k:])


@st.composite
def cases(draw, tier):
    max_n = 12 if tier == "quick" else 16
    part = draw(st.sampled_from(["A", "A", "A", "B", "B"]))
    dt = draw(st.sampled_from(["f64", "f64", "f32"]))
    batch = draw(st.sampled_from(BATCHES))
    src = draw(sources(dt, batch, part, max_n))
    n = refmodel.shape(k_recipe(src, dt))[-1]
    case = {"part": part, "dt": dt, "src": src}
    if part == "A":
        case["k"] = draw(st.sampled_from([n + 1, n, 1] + list(range(1, n + 2))))
        case["tol"] = draw(st.sampled_from(TOLS))
        return case
    rel = draw(st.sampled_from(["sub", "super", "same", "same"]))
    if rel == "same":
        db = tuple(batch)
    elif rel == "sub":
        db = _sub_batch(draw, batch)
    else:
        db = draw(st.sampled_from([(2,) + tuple(batch), (3,) + tuple(batch)] + ([tuple(2 if x == 1 else x for x in batch)] if 1 in batch else [])))
    kind = draw(st.sampled_from(["const", "diag", "diag", "diag_equal", "diag_near", "diag_tiny"]))
    via = draw(st.sampled_from(["add_jitter", "add_diagonal", "plus", "swapped", "ctor", "ctor", "ctor"]))
    if via == "add_jitter":  # add_jitter takes one scalar
        kind, db = "const", ()
    scale = draw(st.sampled_from([1.0, 1.0, 0.125, 8.0]))
    shape = db + ((1,) if kind == "const" else (n,))
    vals = _ints(draw, shape, 1, 16, 8.0 / scale)
    case["D"] = {"kind": kind, "batch": list(db), "vals": vals, "via": via}
    off = draw(st.sampled_from([False] * 9 + [True]))
    sset = {
        "max_preconditioner_size": 0 if (off and draw(st.booleans())) else draw(st.sampled_from([n + 1, n] + list(range(1, n + 2)))),
        "min_preconditioning_size": draw(st.sampled_from([1, n, 0])),
    }
    if off and sset["max_preconditioner_size"] != 0:
        sset["min_preconditioning_size"] = n + 1
    pt = draw(st.sampled_from(TOLS))
    if pt is not None:
        sset["preconditioner_tolerance"] = pt
    case["set"] = sset
    if draw(st.integers(0, 2)) == 0:
        # a query on the SAME operator object that uses the preconditioner (iterative path) before it is inspected
        case["warm"] = draw(st.sampled_from(["logdet", "inv_quad_logdet", "solve", "logdet_twice"]))
    return case


def strategy(tier):
    excluded = _open_triggers()

    def fix(case):
        if T_DBATCH in excluded and _d_super(case):
            case = dict(case)
            D = dict(case["D"])
            kb = tuple(_src_batch(case["src"]))
            v = torch.tensor(D["vals"], dtype=F64)
            v = v.reshape(-1, v.shape[-1])[:1].reshape(v.shape[-1]).expand(*kb, v.shape[-1])
            D["vals"], D["batch"], D["norm"] = v.tolist(), list(kb), T_DBATCH
            case["D"] = D
        return _normalise(case, excluded)

    return cases(tier).map(fix)


# ------------------------------------------------------------------------------------------------------------------
# Part A oracle
# ------------------------------------------------------------------------------------------------------------------
def _fail(check, what, symptom, detail):
    raise Violation("%s|%s|%s|%s" % (ID, check, what, symptom), detail)


def check_pivchol(src, dt, k, tol_arg, tol_eff, Aref, L, piv, kk, labels, what="pivoted_cholesky"):
    """All Part-A invariants of one (L, pivots) result against the float64 matrix Aref.  Returns info dict."""
    n = Aref.shape[-1]
    bshape = tuple(Aref.shape[:-2])
    u = tol.U[dt]
    # -- structure ----------------------------------------------------------------------------------------------
    if not torch.is_tensor(L) or not torch.is_tensor(piv):
        _fail("A.shape", what, "type", "result types %s, %s" % (type(L).__name__, type(piv).__name__))
    r = L.shape[-1] if L.dim() >= 2 else -1
    if tuple(L.shape[:-1]) != bshape + (n,) or not (1 <= r <= kk):
        _fail("A.shape", what, "shape", "L has shape %s for A %s, rank=%d (need %s x r, 1 <= r <= %d)" % (tuple(L.shape), tuple(Aref.shape), k, bshape + (n,), kk))
    if tuple(piv.shape) != bshape + (n,):
        _fail("A.shape", what, "shape", "pivots have shape %s, expected %s" % (tuple(piv.shape), bshape + (n,)))
    if L.dtype != LIT.DT[dt] or piv.dtype != torch.int64:
        _fail("A.dtype", what, "dtype", "L dtype %s / pivots dtype %s for a %s operator" % (L.dtype, piv.dtype, dt))
    pv = piv.reshape(-1, n)
    srt = torch.sort(pv, -1)[0]
    if not torch.equal(srt, torch.arange(n).expand_as(srt)):
        _fail("A.perm", what, "value", "pivots are not a permutation of 0..%d per batch member: %s" % (n - 1, pv.tolist()))
    if not bool(torch.isfinite(L).all()):
        bad = [b for b in range(pv.shape[0]) if not bool(torch.isfinite(L.reshape(-1, n, r)[b]).all())]
        _fail("A.finite", what, "nan", "L (r=%d of k=%d, tol=%r) contains NaN/inf in batch members %s of %d" % (r, k, tol_arg, bad, pv.shape[0]))
    labels.append("r:" + ("n" if r == n else "k" if r == kk else "early"))
    if _approx_only(src):
        labels.append("oracle:structural")
        return {"r": r, "differ": False}
    # -- values, per member -------------------------------------------------------------------------------------
    A = _members(Aref)
    Lm = L.to(F64).reshape(-1, n, r)
    ta_rel = _ta_rel(n, dt)
    errs_r, errs_prev = [], []
    weak = False
    for b in range(A.shape[0]):
        Ab, Lb, pb = A[b], Lm[b], pv[b]
        amax = float(Ab.diagonal().max())
        if not amax > 0:
            raise HarnessError("generated matrix has max diag <= 0")
        TA = ta_rel * amax
        # frozen members (a finished member of a batch may stop receiving columns): trailing exactly-zero columns
        rb = r
        while rb > 1 and float(Lb[:, rb - 1].abs().max()) == 0.0:
            rb -= 1
        Rm = Ab.clone()
        l1_prev = float(Rm.diagonal().abs().sum())
        healthy = True
        e_hist = [l1_prev / amax]
        for m in range(rb):
            dres = Rm.diagonal()
            pval = float(dres[pb[m]])
            dmax = float(dres.max())
            if healthy and dmax <= FLOOR_CHK * TA:
                healthy = False  # decided by rounding noise from here on: only finiteness was demanded
                weak = True
            if healthy and pval < dmax - 2 * TA:
                _fail("A.greedy", what, "value", "member %d step %d: pivot %d has residual diagonal %.6g but the maximum is %.6g (tol %.3g); diag(R_m)=%s" % (b, m, int(pb[m]), pval, dmax, 2 * TA, dres.tolist()))
            col = Lb[:, m]
            Rm = Rm - torch.outer(col, col)
            if not healthy:
                e_hist.append(float(Rm.diagonal().abs().sum()) / amax)
                continue
            rows = Rm[pb[: m + 1], :]
            if float(rows.abs().max()) > TA:
                _fail("A.vanish", what, "value", "member %d: max |R_%d[pivot rows]| = %.3g > %.3g (amax=%.3g)" % (b, m + 1, float(rows.abs().max()), TA, amax))
            idx1 = pb[: m + 1]
            idx2 = pb[m + 1 :]
            g = 1.0
            if idx2.numel():
                W = torch.linalg.solve(Ab[idx1][:, idx1], Ab[idx1][:, idx2])
                g = (1.0 + float(torch.linalg.matrix_norm(W, 2))) ** 2
            lmin = float(torch.linalg.eigvalsh(0.5 * (Rm + Rm.T))[0])
            if not lmin >= -TA * g:
                _fail("A.psd", what, "value", "member %d: lambda_min(A - L_%d L_%d^T) = %.3g < -%.3g (growth %.3g)" % (b, m + 1, m + 1, lmin, TA * g, g))
            l1 = float(Rm.diagonal().abs().sum())
            if l1 > l1_prev + n * TA:
                _fail("A.trace", what, "value", "member %d: ||diag R_%d||_1 = %.6g > ||diag R_%d||_1 = %.6g" % (b, m + 1, l1, m, l1_prev))
            l1_prev = l1
            e_hist.append(l1 / amax)
        if healthy and rb == n and float(Rm.abs().max()) > TA:
            _fail("A.exact", what, "value", "member %d: r = n but max |A - L L^T| = %.3g > %.3g" % (b, float(Rm.abs().max()), TA))
        if rb < r:
            # a frozen member must have met the tolerance itself
            if e_hist[rb] > tol_eff + n * ta_rel:
                _fail("A.stop.early", what, "value", "member %d stopped receiving columns after %d with residual %.3g > tol %.3g" % (b, rb, e_hist[rb], tol_eff))
            e_hist += [e_hist[rb]] * (r - rb)
        errs_r.append(e_hist[r])
        errs_prev.append(e_hist[r - 1])
    slack = n * ta_rel
    if r < kk and max(errs_r) > tol_eff + slack:
        _fail("A.stop.early", what, "value", "stopped at r=%d < min(k,n)=%d although max_i ||diag R_r||_1/max diag A = %.3g > error_tol %.3g" % (r, kk, max(errs_r), tol_eff))
    if r >= 2 and not weak and max(errs_prev) < tol_eff - slack:
        _fail("A.stop.late", what, "value", "r=%d columns although after %d columns every member already had ||diag R||_1/max diag A = %.3g <= error_tol %.3g" % (r, r - 1, max(errs_prev), tol_eff))
    if weak:
        labels.append("oracle:weak_past_numerical_rank")
    differ = pv.shape[0] > 1 and any(not torch.equal(pv[0, :r], pv[b, :r]) for b in range(1, pv.shape[0]))
    return {"r": r, "differ": differ}


def _src_labels(case, Aref):
    src = case["src"]
    n = Aref.shape[-1]
    labels = ["part:" + case["part"], "dtype:" + case["dt"], "kind:" + src["kind"], "wrap:" + src["wrap"], "n:%d" % n, "batch:%s" % (tuple(src["batch"]),)]
    labels.append("clamp:%s" % case.get("clamp"))
    d = _members(Aref).diagonal(dim1=-1, dim2=-2)
    if n > 1 and bool(((d.max(-1, keepdim=True)[0] == d).sum(-1) > 1).any()):
        labels.append("tied_max_diag")
    if src["kind"] == "spd":
        ranks = {m[2] for m in src["meta"]}
        labels.append("rank:" + ("mixed" if len(ranks) > 1 else "full" if ranks == {None} else "low"))
        labels.append("kappa_max:%g" % max(m[1] for m in src["meta"]))
    if src["kind"] == "interp":
        labels.append("interp:%s" % ("approx" if _approx_only(src) else "exact_diag"))
    return labels


def _snapshot(ctx):
    return [t.detach().clone() for _, t in ctx.tensors]


def _unchanged(ctx, snap, check_name, what, detail):
    """The routine works in place on a copy of the diagonal ("we are not mutating any of the LinearOperator's
    entries", _pivoted_cholesky.py): the tensors the operator was built from must be bitwise unchanged."""
    for (l, t), old in zip(ctx.tensors, snap):
        if not torch.equal(t.detach(), old):
            _fail(check_name, what, "mutated", "%s changed a tensor the operator was built from: max |delta| = %.3g" % (detail, float((t.detach() - old).abs().max())))


def run_A(case):
    src, dt, k, tol_arg = case["src"], case["dt"], case["k"], case["tol"]
    r_k = k_recipe(src, dt)
    Aref = refmodel.dense(r_k)
    n = Aref.shape[-1]
    labels = _src_labels(case, Aref)
    labels += ["tol:%s" % tol_arg, "k:" + ("n+1" if k > n else "n" if k == n else "1" if k == 1 else "mid")]
    what = "pivoted_cholesky"
    ctx = R.BuildCtx()
    try:
        op = R.build(r_k, ctx)
    except Exception as e:
        raise HarnessError("building %s raised %r" % (R.class_path(r_k), e))
    snap = _snapshot(ctx)
    try:
        with state.linalg_log() as lines:
            out = op.pivoted_cholesky(k, error_tol=tol_arg, return_pivots=True)
    except Exception as e:
        _fail("A.exc", what, "exc:" + X.describe(e), "pivoted_cholesky(rank=%d, error_tol=%r) on %s %s raised %r" % (k, tol_arg, R.class_path(r_k), tuple(Aref.shape), e))
    _unchanged(ctx, snap, "A.mutated", what, "pivoted_cholesky(rank=%d) on %s" % (k, R.class_path(r_k)))
    if not (isinstance(out, tuple) and len(out) == 2):
        _fail("A.shape", what, "type", "return_pivots=True returned %s" % type(out).__name__)
    L, piv = out
    info = check_pivchol(src, dt, k, tol_arg, _tol_eff(case), Aref, L, piv, min(k, n), labels)
    # return_pivots=False must give the same factor (same deterministic computation)
    L2 = R.build(r_k).pivoted_cholesky(k, error_tol=tol_arg)
    if not (torch.is_tensor(L2) and L2.shape == L.shape and torch.equal(L2, L)):
        _fail("A.shape", what, "value", "pivoted_cholesky(return_pivots=False) differs from the factor returned with pivots")
    if "pivchol" not in state.algorithms(lines):
        labels.append("log:none")
    nontrivial = info["r"] < n or info["differ"]
    if info["differ"]:
        labels.append("batch_pivots_differ")
    return {"nontrivial": bool(nontrivial), "key": case, "labels": labels, "sample": {"part": "A", "class": R.class_path(r_k), "shape": list(Aref.shape), "k": k, "tol": tol_arg, "r": info["r"]}}


# ------------------------------------------------------------------------------------------------------------------
# Part B oracle
# ------------------------------------------------------------------------------------------------------------------
def _where(e):
    # both _init_cache_for_constant_diag and _init_cache_for_non_constant_diag are one code site (_init_cache) for bucketing
    return re.sub(r"_init_cache_for_\w+", "_init_cache", X.describe(e))


def _build_KD(case, r_k, r_d, ctx):
    from linear_operator import operators as O

    via = case["D"]["via"]
    K, D = R.build(r_k, ctx), R.build(r_d, ctx)
    if via == "swapped":
        return O.AddedDiagLinearOperator(D, K), via
    op = None
    if _d_super(case) and via in ("add_diagonal", "add_jitter"):
        via = "ctor"  # add_diagonal explicitly declines a diagonal with more batch dimensions than the operator
    if via == "plus":
        op = K + D
    elif via == "add_diagonal":
        op = K.add_diagonal(D._diag if r_d["op"] == "Diag" else D.diag_values)
    elif via == "add_jitter" and r_d["op"] == "ConstantDiag" and D.diag_values.numel() == 1:
        op = K.add_jitter(float(D.diag_values.reshape(-1)[0]))
    if op is not None and type(op) is O.AddedDiagLinearOperator:
        return op, via
    return O.AddedDiagLinearOperator(K, D), "ctor"


def run_B(case):
    from linear_operator.operators import LinearOperator

    src, dt, dsp, sset = case["src"], case["dt"], case["D"], case["set"]
    r_k = k_recipe(src, dt)
    Kref = refmodel.dense(r_k)
    n = Kref.shape[-1]
    r_d = d_recipe(dsp, n, dt)
    Dref = refmodel.dense(r_d)
    k = sset["max_preconditioner_size"]
    labels = _src_labels(case, Kref)
    labels += ["D:" + dsp["kind"], "ptol:%s" % sset.get("preconditioner_tolerance"), "Dbatch:%s" % ("super" if _d_super(case) else "same" if tuple(dsp["batch"]) == tuple(src["batch"]) else "sub")]
    if dsp.get("norm"):
        labels.append("excluded:" + dsp["norm"])
    what = "const" if dsp["kind"] in ("const", "diag_equal") else "diag"
    try:
        full_batch = tuple(torch.broadcast_shapes(tuple(Kref.shape[:-2]), tuple(Dref.shape[:-2])))
    except RuntimeError as e:
        raise HarnessError("generated K and D batch shapes do not broadcast: %r" % e)
    try:
        ctx = R.BuildCtx()
        op, via = _build_KD(case, r_k, r_d, ctx)
        snap = _snapshot(ctx)
    except Exception as e:
        _fail("B.exc", "build", "build:" + X.describe(e), "constructing K + D (%s, K batch %s, D batch %s) raised %r" % (dsp["via"], tuple(Kref.shape[:-2]), tuple(Dref.shape[:-2]), e))
    labels.append("via:" + via)
    should_be_on = k != 0 and n >= sset["min_preconditioning_size"]
    labels.append("precond:" + ("on" if should_be_on else "off"))
    with state.apply_settings(sset):
        # the factor the statement refers to: what pivoted_cholesky returns for K with this rank / tolerance
        Lref = pivref = None
        if should_be_on:
            try:
                Lref, pivref = R.build(r_k).pivoted_cholesky(rank=k, return_pivots=True)
            except Exception as e:
                _fail("A.exc", "pivoted_cholesky", "exc:" + X.describe(e), "pivoted_cholesky(rank=%d) on %s raised %r" % (k, R.class_path(r_k), e))
            infoA = check_pivchol(src, dt, k, None, _tol_eff(case), Kref, Lref, pivref, min(k, n), labels)
        if case.get("warm"):
            labels.append("warm:" + case["warm"])
            try:
                with warnings.catch_warnings(), linear_operator.settings.max_cholesky_size(0):
                    warnings.simplefilter("ignore")
                    ones = torch.ones(*full_batch, n, 1, dtype=LIT.DT[dt])
                    if case["warm"] == "solve":
                        op.solve(ones)
                    elif case["warm"] == "inv_quad_logdet":
                        op.inv_quad_logdet(ones, logdet=True)
                    else:
                        op.logdet()
                        if case["warm"] == "logdet_twice":
                            op.logdet()
            except Exception:
                labels.append("warm:raised")  # the warm-up query is judged by C04 / C05; the cache state it leaves is legal
        try:
            res = op._preconditioner()
        except Exception as e:
            _fail("B.exc", "precond", "exc:" + _where(e), "_preconditioner() of %s + %s (K batch %s, D batch %s, n=%d, k=%d) raised %r" % (R.class_path(r_k), r_d["op"], tuple(Kref.shape[:-2]), tuple(Dref.shape[:-2]), n, k, e))
        if not (isinstance(res, tuple) and len(res) == 3):
            _fail("B.shape", what, "type", "_preconditioner() returned %r" % (type(res).__name__,))
        _unchanged(ctx, snap, "B.mutated", what, "_preconditioner() of %s + %s" % (R.class_path(r_k), r_d["op"]))
        closure, P, ld = res
        if not should_be_on:
            if not (closure is None and P is None and ld is None):
                _fail("B.off", what, "value", "preconditioner returned although max_preconditioner_size=%d, min_preconditioning_size=%d, n=%d" % (k, sset["min_preconditioning_size"], n))
            return {"nontrivial": False, "key": case, "labels": labels, "sample": {"part": "B", "off": True}}
        if closure is None or P is None or ld is None:
            _fail("B.none", what, "value", "_preconditioner() returned None although n=%d >= min_preconditioning_size=%d, max size %d and the pivoted Cholesky factor is finite" % (n, sset["min_preconditioning_size"], k))
        dtype = LIT.DT[dt]
        eye = torch.eye(n, dtype=dtype).expand(*full_batch, n, n).contiguous()
        try:
            C = closure(eye)
            Pd = P.to_dense() if isinstance(P, LinearOperator) else None
            sp = op._solve_preconditioner()
            C2 = sp(eye) if sp is not None else None
        except Exception as e:
            _fail("B.exc", "apply", "exc:" + _where(e), "applying the preconditioner closure / densifying P raised %r" % (e,))
    if Pd is None:
        _fail("B.op", what, "type", "second return value is %s, not a LinearOperator" % type(P).__name__)
    if not torch.is_tensor(ld):
        _fail("B.logdet", what, "type", "log-determinant is %s" % type(ld).__name__)
    u = tol.U[dt]
    L64 = Lref.to(F64)
    r = L64.shape[-1]
    M = L64 @ L64.transpose(-1, -2) + Dref
    M = M.expand(*full_batch, n, n)
    if tuple(C.shape) != full_batch + (n, n) or tuple(Pd.shape) != full_batch + (n, n) or tuple(ld.shape) != full_batch:
        _fail("B.shape", what, "shape", "closure(I) %s, P %s, logdet %s for batch %s, n=%d" % (tuple(C.shape), tuple(Pd.shape), tuple(ld.shape), full_batch, n))
    if C.dtype != dtype or Pd.dtype != dtype or ld.dtype != dtype:
        _fail("B.shape", what, "dtype", "dtypes closure %s, P %s, logdet %s for a %s operator" % (C.dtype, Pd.dtype, ld.dtype, dt))
    for name, t in (("closure", C), ("operator", Pd), ("logdet", ld)):
        if not bool(torch.isfinite(t).all()):
            _fail("B." + ("op" if name == "operator" else name), what, "nan", "%s contains NaN/inf" % name)
    dvec = Dref.diagonal(dim1=-1, dim2=-2).expand(*full_batch, n)
    dmin = dvec.min(-1)[0]
    dmax = dvec.max(-1)[0]
    m2 = torch.linalg.matrix_norm(M, 2)
    kap = m2 / dmin
    Minv = torch.linalg.inv(M)
    T = C_B * (n + r) * u * kap / dmin  # per member
    C64 = C.to(F64)
    ex = ((C64 - Minv).abs().amax((-1, -2)) / T).max()
    if not float(ex) <= 1.0:
        _fail("B.closure", what, "value", "max |closure(I) - (L L^T + D)^-1| / tol = %.3g (tol %.3g, kappa' %.3g, n=%d, r=%d)" % (float(ex), float(T.max()), float(kap.max()), n, r))
    exs = ((C64 - C64.transpose(-1, -2)).abs().amax((-1, -2)) / (2 * T)).max()
    if not float(exs) <= 1.0:
        _fail("B.sym", what, "value", "closure matrix asymmetric: max |C - C^T| / tol = %.3g" % float(exs))
    lam = torch.linalg.eigvalsh(0.5 * (C64 + C64.transpose(-1, -2)))[..., 0]
    lower = 1.0 / m2 - n * T
    if not bool((lam >= lower).all()):
        _fail("B.pd", what, "value", "lambda_min(closure matrix) = %s below 1/||M||_2 - n tol = %s" % (lam.tolist(), lower.tolist()))
    labels.append("pd:" + ("strict" if bool((lower > 0).all()) else "within_tol"))
    if sp is None or C2 is None or not torch.equal(C2, C):
        _fail("B.solvepre", what, "value", "_solve_preconditioner() is not the pivoted-Cholesky closure")
    ldref = torch.linalg.slogdet(M)[1]
    lmax = torch.stack([dmin.log().abs(), dmax.log().abs(), m2.log().abs()]).max(0)[0]
    Tl = C_B * (n + r) * u * (r * kap + n * (1.0 + lmax))
    exl = ((ld.to(F64) - ldref).abs() / Tl).max()
    if not float(exl) <= 1.0:
        _fail("B.logdet", what, "value", "max |logdet - log|L L^T + D|| / tol = %.3g (lib %s, ref %s, tol %s)" % (float(exl), ld.tolist(), ldref.tolist(), Tl.tolist()))
    S = L64.abs() @ L64.abs().transpose(-1, -2) + Dref.abs()
    S = S.expand(*full_batch, n, n)
    ratio, idx = tol.worst_excess(Pd, M, tol.exact_bound(S + S.max() * 1e-3, dt, r, 2))
    if ratio > 1.0:
        _fail("B.op", what, "value", "returned operator differs from L L^T + D: max |lib-ref|/bound = %.3g at flat index %s" % (ratio, idx))
    labels.append("kappa':%s" % ("<1e2" if float(kap.max()) < 1e2 else "<1e4" if float(kap.max()) < 1e4 else ">=1e4"))
    nontrivial = r < n or infoA["differ"] or what == "diag"
    return {"nontrivial": bool(nontrivial), "key": case, "labels": labels, "sample": {"part": "B", "class": R.class_path(r_k), "K": list(Kref.shape), "D": [dsp["kind"], list(dsp["batch"])], "set": sset, "r": r}}


def check(case):
    if case["part"] == "A":
        return run_A(case)
    return run_B(case)


def gaps(labels):
    need = ["part:A", "part:B", "rank:mixed", "rank:low", "tied_max_diag", "batch_pivots_differ", "r:early", "r:n", "r:k", "D:const", "D:diag", "D:diag_equal", "Dbatch:sub", "precond:off", "interp:exact_diag", "interp:approx", "tol:None", "tol:0.1", "tol:1e-08", "k:n+1", "dtype:f32"]
    need += ["wrap:" + w for w in ("dense", "minimal", "root", "cmul", "sum", "psdsum", "added", "kron", "toeplitz", "kernel", "diag", "interp")]
    return sorted("never generated: " + x for x in need if not labels.get(x))
