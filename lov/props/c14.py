"""C14 -- copies, conversions and rebuilds denote the same matrix with the right dtype (DESIGN section 4, C14).

case = {recipe, opn, target, default, rg0, form, pd, vals}
  recipe   operator recipe (lov.gen); its floating dtype is the SOURCE dtype
  opn      clone | detach | to_dtype | to_tensor | to_device | type | double | float | cpu | evaluate_kernel | rebuild |
           requires_grad_
  target   "f32" | "f64" for the conversions (to_dtype, to_tensor, type, double, float), else None
  default  torch default dtype while the library runs ("f32" | "f64")
  rg0      the floating leaves require grad before the operation
  form     call form of to(): "pos" | "kw" | "both" (device and dtype)
  pd       the recipe was generated for the positive-definite domain (enables solve / logdet / cholesky / root / samples)
  vals     sequence of booleans passed to requires_grad_

Oracle (numbers = the enumeration in the task statement):
  source    the freshly built operator declares the dtype of its floating data and every battery query returns it
  (1)(2)(4) the result has the same *structure* as the source: same class at every node, same non-tensor constructor
            arguments (_kwargs) and flag attributes, same tensor shapes, integer / boolean tensors keep their dtype, floating
            tensors have the expected dtype
  (3)       result.to_dense() == dense reference (float64, independent of the library) within lov.tol.exact_bound evaluated
            in the precision the result computes in (= expected dtype); the generated leaf values are exactly representable
            in float32 (grid multiples of 1/8 or 1/64, power-of-two scalings), so a down-cast adds no leaf rounding beyond
            the u32 already in the bound
  (5)       result.dtype and the dtype of every tensor returned by the battery equals the expected dtype
  (6)       clone: no storage shared with the source
  (7)       requires_grad_: exactly the floating tensors carry the flag, op.requires_grad reflects it, returns self
  intact    a non-in-place operation leaves the source operator as it was (class, flags, dtypes, requires_grad)
"""
import copy
import os

import torch
from hypothesis import strategies as st

from lov import exc as X
from lov import gen, lit as L, recipe as R, refmodel, tol, userops
from lov.core import HarnessError, Violation
from lov.findings import load as load_findings

ID = "C14"
RULE = (
    "case = (operator recipe over the full class zoo incl. kwargs-carrying classes and an integer-parameter kernel, nesting<=3/4, "
    "batch kinds; source dtype f32/f64 x target dtype f32/f64 x torch default dtype f32/f64 x operation in {clone, detach, "
    "to(dtype) [positional / keyword / with device], to(tensor), to(device), type, double, float, cpu, evaluate_kernel, "
    "representation_tree()(*representation()), requires_grad_ sequences}; leaves with / without requires_grad). Non-trivial: "
    "operator dtype != torch default dtype, or a kwargs-carrying class, or an integer / boolean tensor argument. Distinct by "
    "(class path, shape, operation, call form, source, target, default dtype, rg0)."
)
BUDGET = {"quick": 2000, "thorough": 4000}
ASSUMPTIONS = [
    "cuda() / device moves other than to the CPU are not executable here",
    "half precision is outside the quantifier ({float32, float64})",
    "battery queries that already raise on the SOURCE operator are other properties' business (C01-C06) and are skipped for the result",
    "numerical failures (NotPSDError / NanError / LinAlgError) inside the PD battery are not dtype evidence and are only counted",
]

DTS = ("f64", "f32")
CONV = ("to_dtype", "to_tensor", "type", "double", "float")
OPS = [
    "to_dtype", "type", "clone", "detach", "rebuild", "to_tensor", "to_device", "double", "float", "cpu", "evaluate_kernel",
    "requires_grad_", "clone", "rebuild",
]  # fmt: skip
INPLACE = ("requires_grad_",)

# classes whose constructor carries non-tensor keyword arguments / flags
KW_CLASSES = {
    "Tri", "Chol", "KroneckerTri", "Cat", "BatchRepeat", "Kernel", "KeOps", "Permutation", "TransposePermutation", "Identity",
    "Zero", "ConstantDiag", "BlockDiag", "BlockInterleaved", "SumBatch",
}  # fmt: skip
INT_CLASSES = {"Interpolated", "Masked", "Permutation"}
KW_HEADS = ["TriT", "TriBase", "KroneckerTri", "Cat", "BatchRepeat", "Kernel", "Permutation", "TransposePermutation", "Identity",
            "Zero", "Interpolated", "Masked", "BlockDiag", "BlockInterleaved", "SumBatch", "ConstantDiag"]  # fmt: skip
# AddedDiagLinearOperator.evaluate_kernel (inherited by the Kronecker / low-rank variants) returns `linear_op + diag`: whatever
# class the sum produces (documented: "a new LinearOperator representing the same one"), so only value and dtype are compared
EVAL_KERNEL_FREE_CLASS = ("AddedDiag", "KroneckerAddedDiag", "LowRankRootAddedDiag")

FLAG_ATTRS = ("upper", "cat_dim", "batch_repeat", "diag_shape", "m", "sizes", "num_outputs_per_input", "num_nonbatch_dimensions")


# ------------------------------------------------------------------------------------------------
# a kernel with an INTEGER tensor parameter (active input dimensions), batch-aware, closure-free
# ------------------------------------------------------------------------------------------------
def gather_linear(x1, x2, variance, dims):
    """Linear kernel on the input columns listed in the integer tensor `dims` (..., k): (x1[dims] x2[dims]^T) * variance."""
    k = dims.shape[-1]
    i1 = dims.unsqueeze(-2).expand(*x1.shape[:-1], k)
    i2 = dims.unsqueeze(-2).expand(*x2.shape[:-1], k)
    return (x1.gather(-1, i1) @ x2.gather(-1, i2).mT) * variance


userops.KERNELS.setdefault("gather_linear", gather_linear)


def _is_intkernel(r):
    return r["op"] == "Kernel" and r.get("kernel") == "gather_linear"


def _dense(r, absolute=False):
    """Dense reference (float64).  Only the integer-parameter kernel (generated as a head only) is evaluated here."""
    if _is_intkernel(r):
        x1, x2 = L.value(r["x1"], torch.float64), L.value(r["x2"], torch.float64)
        var, dims = L.value(r["params"]["variance"], torch.float64), L.value(r["params"]["dims"])
        if absolute:
            x1, x2, var = x1.abs(), x2.abs(), var.abs()
        return torch.matmul(x1[..., dims], x2[..., dims].transpose(-1, -2)) * var
    return refmodel.dense_abs(r) if absolute else refmodel.dense(r)


@st.composite
def intkernel_recipes(draw):
    dt = draw(st.sampled_from(DTS))
    cfg = gen.Cfg(dt=dt)
    batch = draw(st.sampled_from(gen.BATCHES))
    m, n, D = draw(st.integers(1, 4)), draw(st.integers(1, 4)), draw(st.integers(1, 3))
    k = draw(st.integers(1, 3))
    x1 = gen.flit(draw, cfg, tuple(gen.sub_batch(draw, batch)) + (m, D), -16, 16, scale_ok=False)
    x2 = gen.flit(draw, cfg, tuple(gen.sub_batch(draw, batch)) + (n, D), -16, 16, scale_ok=False)
    var = gen.flit(draw, cfg, tuple(batch) + (1, 1), 1, 16, scale_ok=False)
    dims = L.lit(draw(st.lists(st.integers(0, D - 1), min_size=k, max_size=k)), "i64")
    return {"op": "Kernel", "kernel": "gather_linear", "x1": x1, "x2": x2, "params": {"variance": var, "dims": dims}, "nonbatch": {"dims": 1}}


# ------------------------------------------------------------------------------------------------
# known findings -> generator-side exclusions
# ------------------------------------------------------------------------------------------------
def _open_entries():
    return [e for e in load_findings() if e.get("status", "open") == "open"]


def _open_triggers():
    return {e.get("trigger") for e in _open_entries() if e.get("property") == ID}


def _exclusions():
    """Nodes removed from the alphabet: `exclude_nodes` of every open entry (any property: the defect would be inherited by
    the value oracle) and `exclude_nodes_c14` of this property's open entries."""
    ex = set()
    for e in _open_entries():
        ex.update(e.get("exclude_nodes", []))
        if e.get("property") == ID:
            ex.update(e.get("exclude_nodes_c14", []))
    return tuple(sorted(ex))


def _avoid(case, trig):
    """Normalise the operation of a case that an open C14 trigger matches (the node itself stays in the alphabet).  Every
    rewrite maps to a neighbouring cell that the finding does not cover; the witness keeps covering the original."""
    for name in sorted(t for t in trig if t):
        fn = TRIGGERS.get(name)
        rewrite = REWRITES.get(name)
        if fn is None or rewrite is None:
            continue
        if fn(case):
            case = rewrite(case)
    return case


# ------------------------------------------------------------------------------------------------
# strategy
# ------------------------------------------------------------------------------------------------
MODES = ["head", "head", "head", "pd", "pd", "pd_head", "kw", "kw", "kw", "chol", "intkernel", "opkernel", "any", "psd"]


def _head_recipe(draw, name, doms, max_depth, ex):
    """gen.head_first_recipes for a GIVEN head class: sizes / batch / domain are drawn until the class accepts them
    (bounded number of attempts, then the generic generator).  Returns (recipe, domain it was generated for)."""
    dt = draw(st.sampled_from(DTS))
    if name in ("Permutation", "TransposePermutation") and False:
        dt = "f32"
    cfg = gen.Cfg(dt=dt, exclude=ex)
    for _ in range(6):
        if name == "TransposePermutation":
            batch, n = (), draw(st.sampled_from([1, 4, 4, 9]))
            m = n
        else:
            batch = draw(st.sampled_from(gen.BATCHES if name != "BatchRepeat" else gen.BATCHES[3:]))
            n = draw(st.integers(1, cfg.max_dim))
            m = n if draw(st.integers(0, 2)) else draw(st.integers(1, cfg.max_dim))
        depth = draw(st.integers(2, max(2, max_depth)))
        for dm in doms:
            mm = m if dm == "any" else n
            if name in gen._applicable(cfg, dm, mm, n, batch, depth):
                return gen.call_maker(name, draw, cfg, dm, mm, n, batch, depth), dm
    return gen.gen(draw, cfg, doms[0], n, n, batch, depth), doms[0]


def _wrap_perm(draw, r):
    """Optionally nest a float-free permutation recipe under a float32 parent (the only dtype its constructor composes with)."""
    shp = refmodel.shape(r)
    if len(shp) != 2 or draw(st.integers(0, 2)) == 0:
        return r
    n = shp[-1]
    cfg = gen.Cfg(dt="f32")
    kind = draw(st.sampled_from(["Sum", "Matmul", "ConstantMul", "Kronecker"]))
    if kind == "Sum":
        return {"op": "Sum", "args": [{"op": "Dense", "t": gen.flit(draw, cfg, (n, n))}, r]}
    if kind == "Matmul":
        k = draw(st.integers(1, 3))
        return {"op": "Matmul", "args": [{"op": "Dense", "t": gen.flit(draw, cfg, (k, n))}, r]}
    if kind == "ConstantMul":
        return {"op": "ConstantMul", "base": r, "c": gen.flit(draw, cfg, (), -24, 24, scale_ok=False)}
    return {"op": "Kronecker", "args": [{"op": "Dense", "t": gen.flit(draw, cfg, (2, 1))}, r]}


@st.composite
def cases(draw, tier):
    max_depth = 3 if tier == "quick" else 4
    ex = _exclusions()
    mode = draw(st.sampled_from(MODES))
    pd = False
    if mode == "head":
        names = sorted(nm for nm in gen.PREDS if nm not in ex)
        r, dm = _head_recipe(draw, draw(st.sampled_from(names)), draw(st.permutations(["any", "psd", "pd"])), max_depth, ex)
        pd = dm == "pd"
    elif mode == "pd":
        r = draw(gen.recipes("pd", max_depth=max_depth, dts=DTS, exclude=ex))
        pd = True
    elif mode == "pd_head":
        r = draw(gen.head_first_recipes("pd", max_depth=max_depth, dts=DTS, exclude=ex))
        pd = True
    elif mode == "kw":
        heads = [h for h in KW_HEADS if h not in ex]
        r, dm = _head_recipe(draw, draw(st.sampled_from(heads)), ["any", "psd", "pd"], max_depth, ex)
        pd = dm == "pd"
        if r["op"] in ("Permutation", "TransposePermutation") and "Permutation.nested" not in ex:
            r = _wrap_perm(draw, r)
            pd = False
    elif mode == "chol":
        # the orientation flag must survive every copy: the open C01 finding about upper=True concerns matmul / indexing,
        # not to_dense, the flags or the dtypes, so the HEAD may carry upper=True here (never a nested node)
        dom = draw(st.sampled_from(["pd", "psd"]))
        own = {nm for e in _open_entries() if e.get("property") == ID for nm in e.get("exclude_nodes_c14", [])}
        exc = tuple(x for x in ex if x != "Chol.upper" or x in own)
        r = draw(gen.recipes(dom, max_depth=2, dts=DTS, exclude=exc, head="Chol"))
        pd = dom == "pd"
    elif mode == "intkernel" and "Kernel.intparam" not in ex:
        r = draw(intkernel_recipes())
    elif mode == "opkernel" and "Kernel.op_param" not in ex and "Kernel.multitask" not in ex:
        # a kernel operator holding a SUB-OPERATOR as a keyword argument (LinearOperator-valued hyperparameter): the
        # flatten / rebuild round trip must restore it as an operator under the same keyword
        cfg_k = gen.Cfg(dt=draw(st.sampled_from(DTS)), exclude=ex)
        r = None
        for _ in range(8):
            mk_, nk_ = draw(st.sampled_from([2, 4])), draw(st.sampled_from([2, 4]))
            cand = gen._kernel(draw, cfg_k, "any", mk_, nk_, draw(st.sampled_from(gen.BATCHES[:6])), "Kernel")
            if cand.get("kernel") == "multitask":
                cand["op_param"] = "task_root"
                r = cand
                break
        if r is None:
            r = draw(gen.recipes("any", max_depth=max_depth, dts=DTS, exclude=ex))
    else:
        r = draw(gen.recipes("psd" if mode == "psd" else "any", max_depth=max_depth, dts=DTS, exclude=ex))
    opn = draw(st.sampled_from(OPS))
    case = {"recipe": r, "opn": opn, "default": draw(st.sampled_from(DTS)), "pd": pd, "target": None}
    if opn in ("to_dtype", "to_tensor", "type"):
        case["target"] = draw(st.sampled_from(DTS))
    elif opn == "double":
        case["target"] = "f64"
    elif opn == "float":
        case["target"] = "f32"
    if opn in ("to_dtype", "to_device"):
        case["form"] = draw(st.sampled_from(["pos", "kw", "both"] if opn == "to_dtype" else ["pos", "kw"]))
    if opn == "requires_grad_":
        case["rg0"] = False
        case["vals"] = draw(st.sampled_from([[True], [True, False], [False], [False, True], [True, True]]))
    else:
        case["rg0"] = draw(st.sampled_from([False, False, True]))
    return _avoid(case, _open_triggers())


def strategy(tier):
    return cases(tier)


# ------------------------------------------------------------------------------------------------
# structure of an operator (class, flags, non-tensor kwargs, tensor dtypes / shapes), recursively
# ------------------------------------------------------------------------------------------------
def _norm(v):
    if isinstance(v, dict):
        return {"dict": sorted((str(k), _norm(x)) for k, x in v.items())}
    if isinstance(v, torch.Size) or isinstance(v, (list, tuple)):
        return [_norm(x) for x in v]
    if isinstance(v, torch.device):
        return "device:" + v.type
    if v is None or isinstance(v, (bool, int, float, str)):
        return v
    if isinstance(v, torch.dtype):
        return v
    if callable(v):
        return "callable:%s" % getattr(v, "__qualname__", repr(v))
    return repr(v)


def _item(v):
    from linear_operator.operators import LinearOperator

    if torch.is_tensor(v):
        return {"t": True, "dtype": v.dtype, "shape": list(v.shape), "rg": bool(v.requires_grad)}
    if isinstance(v, LinearOperator):
        return _struct(v)
    return {"v": _norm(v)}


def _struct(op):
    try:
        dt = op.dtype
    except Exception as e:  # the dtype property itself is broken
        dt = "EXC:" + type(e).__name__
    out = {"cls": type(op).__name__, "dtype": dt, "args": [_item(a) for a in op._args], "kw": {}, "flags": {}}
    try:
        out["shape"] = list(op.shape)
    except Exception as e:
        out["shape"] = "EXC:" + type(e).__name__
    for k, v in sorted(op._kwargs.items()):
        out["kw"][k] = _item(v)
    for nm in FLAG_ATTRS:
        if nm in op.__dict__:
            out["flags"][nm] = _norm(op.__dict__[nm])
    return out


def _has_float(s):
    """Does the (sub-)operator carry floating data (floating tensors, or a class with an explicit dtype field)?"""
    if s.get("t"):
        return s["dtype"].is_floating_point
    if "cls" not in s:
        return False
    if s["cls"] in ("IdentityLinearOperator", "ZeroLinearOperator"):
        return True
    return any(_has_float(a) for a in s["args"]) or any(_has_float(a) for a in s["kw"].values())


def _dev_eq(a, b):
    # the device is not part of the property; None and cpu denote the same placement here
    na = "device:cpu" if a is None else a
    nb = "device:cpu" if b is None else b
    return na == nb


def _cmp(a, b, path, dmap, out, check_class=True, strict=False):
    """Compare source structure `a` with result structure `b`; dmap maps a source floating dtype to the expected one."""
    if a.get("t"):
        if not b.get("t"):
            out.append(("arg-kind", "%s: tensor became %r" % (path, b)))
            return
        if a["shape"] != b["shape"]:
            out.append(("arg-shape", "%s: tensor shape %s -> %s" % (path, a["shape"], b["shape"])))
        if a["dtype"].is_floating_point:
            if b["dtype"] != dmap(a["dtype"]):
                out.append(("leaf-dtype", "%s: floating tensor %s -> %s, expected %s" % (path, a["dtype"], b["dtype"], dmap(a["dtype"]))))
        elif b["dtype"] != a["dtype"]:
            out.append(("int-dtype", "%s: %s tensor became %s" % (path, a["dtype"], b["dtype"])))
        return
    if "cls" in a:
        if "cls" not in b:
            out.append(("arg-kind", "%s: operator %s became %r" % (path, a["cls"], b)))
            return
        if check_class and a["cls"] != b["cls"]:
            out.append(("class", "%s: class %s -> %s" % (path, a["cls"], b["cls"])))
            return
        if a["shape"] != b["shape"]:
            out.append(("shape", "%s: operator shape %s -> %s" % (path, a["shape"], b["shape"])))
        if strict and a["dtype"] != b["dtype"]:
            out.append(("dtype.attr", "%s (%s): .dtype %s -> %s" % (path, a["cls"], a["dtype"], b["dtype"])))
        elif _has_float(a) and isinstance(a["dtype"], torch.dtype) and a["dtype"].is_floating_point:
            if b["dtype"] != dmap(a["dtype"]):
                out.append(("dtype.attr", "%s (%s): .dtype %s -> %s, expected %s" % (path, a["cls"], a["dtype"], b["dtype"], dmap(a["dtype"]))))
        if len(a["args"]) != len(b["args"]):
            out.append(("arity", "%s: %d positional args -> %d" % (path, len(a["args"]), len(b["args"]))))
        elif a["cls"] == "MulLinearOperator" and len(a["args"]) == 2:
            # the constructor orders the two (commuting) factors by the size of their root decompositions, measured before
            # the roots are taken: re-constructing from the stored roots may swap them.  The elementwise product is
            # symmetric in its factors, so the operands are compared as an unordered pair.
            best = None
            for perm in ((0, 1), (1, 0)):
                trial = []
                for i, j in enumerate(perm):
                    _cmp(a["args"][i], b["args"][j], "%s[%d]" % (path, i), dmap, trial, strict=strict)
                if best is None or len(trial) < len(best):
                    best = trial
            out.extend(best)
        else:
            for i, (x, y) in enumerate(zip(a["args"], b["args"])):
                _cmp(x, y, "%s[%d]" % (path, i), dmap, out, strict=strict)
        if sorted(a["kw"]) != sorted(b["kw"]):
            out.append(("kwargs-names", "%s: kwargs %s -> %s" % (path, sorted(a["kw"]), sorted(b["kw"]))))
        else:
            for k in sorted(a["kw"]):
                _cmp(a["kw"][k], b["kw"][k], "%s.%s" % (path, k), dmap, out, strict=strict)
        for nm in sorted(set(a["flags"]) | set(b["flags"])):
            if a["flags"].get(nm, "<absent>") != b["flags"].get(nm, "<absent>"):
                out.append(("flag:" + nm, "%s: attribute %s %r -> %r" % (path, nm, a["flags"].get(nm, "<absent>"), b["flags"].get(nm, "<absent>"))))
        return
    # plain python value
    if "v" not in b:
        out.append(("arg-kind", "%s: value %r became %r" % (path, a["v"], b)))
        return
    va, vb = a["v"], b["v"]
    key = path.rsplit(".", 1)[-1]
    if isinstance(va, torch.dtype) and va.is_floating_point:
        if vb != dmap(va):
            out.append(("kwargs:" + key, "%s: dtype argument %s -> %s, expected %s" % (path, va, vb, dmap(va))))
    elif key in ("device", "output_device"):
        if not _dev_eq(va, vb):
            out.append(("kwargs:" + key, "%s: %r -> %r" % (path, va, vb)))
    elif va != vb:
        out.append(("kwargs:" + key, "%s: non-tensor argument %r -> %r" % (path, va, vb)))


# ------------------------------------------------------------------------------------------------
# the battery of queries whose result dtype is observed
# ------------------------------------------------------------------------------------------------
def _rhs(n, dtype):
    return ((torch.arange(n * 2) % 5) - 2).to(dtype).reshape(n, 2)


def _q_getitem(o, x):
    res = o[..., 0, :]
    return res if torch.is_tensor(res) else res.to_dense()


GENERIC_Q = [
    ("to_dense", lambda o, x: o.to_dense()),
    ("matmul", lambda o, x: o @ x),
    ("getitem", _q_getitem),
]
SQUARE_Q = [("diagonal", lambda o, x: o.diagonal())]
PD_Q = [
    ("solve", lambda o, x: o.solve(x)),
    ("logdet", lambda o, x: o.logdet()),
    ("cholesky", lambda o, x: o.cholesky().to_dense()),
    ("root", lambda o, x: o.root_decomposition().root.to_dense()),
    ("samples", lambda o, x: o.zero_mean_mvn_samples(1)),
]


def _numerical(e):
    from linear_operator.utils.errors import NanError, NotPSDError

    return isinstance(e, (NotPSDError, NanError)) or type(e).__name__ in ("_LinAlgError", "LinAlgError")


def _battery(o, shape, pd, dtype, only=None):
    """name -> ("ok", tensor dtype) | ("exc", exception)."""
    qs = list(GENERIC_Q)
    if shape[-1] == shape[-2]:
        qs += SQUARE_Q
        if pd:
            qs += PD_Q
    out = {}
    for name, fn in qs:
        if only is not None and name != only:
            continue
        x = _rhs(shape[-1], dtype)
        try:
            res = fn(o, x)
            out[name] = ("ok", res.dtype if torch.is_tensor(res) else "not-a-tensor:%s" % type(res).__name__)
        except Exception as e:  # noqa: BLE001 - classified by the caller
            out[name] = ("exc", e)
    return out


# ------------------------------------------------------------------------------------------------
# the check
# ------------------------------------------------------------------------------------------------
def _prep(case):
    r = copy.deepcopy(case["recipe"])
    if case.get("rg0"):
        for l in R.float_literals(r):
            l["rg"] = True
    return r


def _reverse_kernel_params(r):
    """Copy of the recipe with the keyword tensors of every Kernel node listed in reverse order (None if nothing changes)."""
    r2 = copy.deepcopy(r)
    changed = False
    for n in R.walk(r2):
        if n["op"] == "Kernel" and len(n.get("params", {})) >= 2:
            n["params"] = dict(reversed(list(n["params"].items())))
            changed = True
    return r2 if changed else None


def _recipe_has_float(r):
    return bool(R.float_literals(r)) or any(n["op"] in ("Identity", "Zero") for n in R.walk(r))


def _apply(op, case):
    opn, tgt = case["opn"], case.get("target")
    T = L.DT[tgt] if tgt else None
    cpu = torch.device("cpu")
    if opn == "clone":
        return op.clone()
    if opn == "detach":
        return op.detach()
    if opn == "to_dtype":
        form = case.get("form", "pos")
        if form == "kw":
            return op.to(dtype=T)
        if form == "both":
            return op.to(cpu, T)
        return op.to(T)
    if opn == "to_tensor":
        return op.to(torch.zeros(1, dtype=T))
    if opn == "to_device":
        return op.to(device=cpu) if case.get("form") == "kw" else op.to(cpu)
    if opn == "type":
        return op.type(T)
    if opn == "double":
        return op.double()
    if opn == "float":
        return op.float()
    if opn == "cpu":
        return op.cpu()
    if opn == "evaluate_kernel":
        return op.evaluate_kernel()
    if opn == "rebuild":
        return op.representation_tree()(*op.representation())
    raise HarnessError("unknown operation %r" % opn)


def _value_bound(r, dtname, ref, mag, src_name=None):
    """C01's densify tolerance (DESIGN section 3, exact-structure results) in the precision `dtname`."""
    depth = R.depth(r)
    extra = 1.0
    if any(n["op"] == "Toeplitz" for n in R.walk(r)):
        extra = 4.0 + max(1.0, float(torch.log2(torch.tensor(float(max(ref.shape[-2:]))))))
    S = mag
    if S.numel():
        S = S + S.abs().max() * 1e-3
    nmul = sum(1 for n in R.walk(r) if n["op"] == "Mul")
    if nmul and S.numel():
        # elementwise products are defined through root decompositions (Cholesky with the documented jitter of the dtype
        # the roots were computed in - for a converted copy possibly the coarser source dtype); (A + eI) o (B + eI) - A o B
        # = e (diag A + diag B) + e^2: the jitter of one operand is scaled by the magnitude of the OTHER, per Mul level
        S = torch.full_like(S, float(S.max())) * tol.root_slack(dtname, ref.shape[-1])
        J = max(tol.JITTER_MAX[dtname], tol.JITTER_MAX[src_name or dtname])
        M = max(float(refmodel.dense_abs(n).max()) for n in R.walk(r) if n.get("op") not in (None, "Tensor"))
        return tol.exact_bound(S, dtname, 1, depth, extra) + 16.0 * J * (1.0 + float(mag.max())) * (1.0 + M) ** nmul
    return tol.exact_bound(S, dtname, 1, depth, extra)


def _run(case):
    from linear_operator.operators import LinearOperator

    r = _prep(case)
    opn, default, tgt = case["opn"], case["default"], case.get("target")
    head = r["op"]
    src = R.dtype_of(r)
    conv = opn in CONV
    labels = []
    try:
        ref = _dense(r)
        mag = _dense(r, absolute=True)
    except Exception as e:
        raise HarnessError("reference model raised %r for %s" % (e, R.class_path(r)))
    shape = tuple(ref.shape)
    where = "%s src=%s tgt=%s default=%s rg0=%s form=%s :: %s" % (opn, src, tgt, default, case.get("rg0"), case.get("form"), R.class_path(r))

    def fail(stage, sub, symptom, detail):
        raise Violation("C14|%s|%s|%s|%s" % (stage, sub, head, symptom), "%s :: %s" % (detail, where))

    torch.set_default_dtype(L.DT[default])
    try:
        op = R.build(r)
    except Exception as e:
        # a constructor refusing a valid recipe is C01's verdict ("build:" signatures there); a copy of nothing cannot be judged
        return {"nontrivial": False, "key": "source_build_raises", "labels": ["source_build_raises", "source_build_raises:%s:%s" % (head, X.describe(e))]}
    has_float = _recipe_has_float(r)

    # ---- the source operator itself: declared dtype and battery under the case's default dtype -------------------
    try:
        declared = op.dtype
    except Exception as e:
        fail("source", "dtype.attr", "exc:" + X.describe(e), ".dtype raised %r" % (e,))
    src_dt = L.DT[src] if has_float else declared
    if not isinstance(declared, torch.dtype) or declared != src_dt:
        fail("source", "dtype.attr", "dtype", "operator built from %s data declares dtype %r" % (src_dt, declared))
    bat0 = _battery(op, shape, case.get("pd"), src_dt)
    for q, (st_, val) in sorted(bat0.items()):
        if st_ == "exc":
            labels.append("battery_src_raises:" + q)
            if L.DT[default] != src_dt and not _numerical(val):
                # does the query fail only because torch's default dtype differs from the operator's?  (a tensor allocated
                # without dtype= meeting the operator's data)  Same recipe, same query, default dtype := operator dtype.
                torch.set_default_dtype(src_dt)
                try:
                    alt = _battery(R.build(r), shape, case.get("pd"), src_dt, only=q)[q]
                finally:
                    torch.set_default_dtype(L.DT[default])
                if alt[0] == "ok":
                    fail("source", "battery:" + q, "exc-default-dependent:" + X.describe(val), "%s raises %r under default dtype %s but works under default dtype %s" % (q, val, default, src_dt))
        elif val != src_dt:
            fail("source", "battery:" + q, "dtype", "%s of a %s operator returned %s under default dtype %s" % (q, src_dt, val, default))
    if bat0["to_dense"][0] == "exc":
        # densifying the source fails: C01's business; nothing to compare a copy against
        return {"nontrivial": False, "key": "source_to_dense_raises", "labels": ["source_to_dense_raises", "head:" + head]}
    s0 = _struct(op)
    reps0 = [t for t in op.representation()]
    ptr0 = {t.untyped_storage().data_ptr() for t in reps0 if t.numel()}

    # ---- requires_grad_ (in place) ----------------------------------------------------------------------------------
    if opn == "requires_grad_":
        nfloat = sum(1 for t in reps0 if t.dtype.is_floating_point)
        for val in case["vals"]:
            try:
                ret = op.requires_grad_(val)
            except Exception as e:
                fail(opn, "call", "exc:" + X.describe(e), "requires_grad_(%s) raised %r" % (val, e))
            if ret is not op:
                fail(opn, "return", "identity", "requires_grad_ must return self, returned %r" % (type(ret).__name__,))
            reps = list(op.representation())
            for i, t in enumerate(reps):
                want = bool(val) and t.dtype.is_floating_point
                if bool(t.requires_grad) != want:
                    fail(opn, "propagate", "flag", "after requires_grad_(%s): representation()[%d] (%s) has requires_grad=%s" % (val, i, t.dtype, t.requires_grad))
            try:
                got = op.requires_grad
            except Exception as e:
                fail(opn, "attr", "exc:" + X.describe(e), ".requires_grad raised %r" % (e,))
            if bool(got) != (bool(val) and nfloat > 0):
                fail(opn, "attr", "flag", "after requires_grad_(%s) with %d floating tensors: op.requires_grad=%s" % (val, nfloat, got))
        s1 = _struct(op)
        bad = []
        _cmp(s0, s1, "op", lambda d: d, bad)
        if bad:
            fail(opn, "structure", bad[0][0], "; ".join(d for _, d in bad[:4]))
        res, E = op, src_dt
    else:
        # ---- the operation ------------------------------------------------------------------------------------------
        try:
            res = _apply(op, case)
        except HarnessError:
            raise
        except Exception as e:
            if X.is_declined(e, None) and False:
                pass
            fail(opn, "call", "exc:" + X.describe(e), "raised %r" % (e,))
        if not isinstance(res, LinearOperator):
            fail(opn, "class", "type", "returned %s, not a LinearOperator" % type(res).__name__)
        try:
            rdt = res.dtype
        except Exception as e:
            fail(opn, "dtype.attr", "exc:" + X.describe(e), "result.dtype raised %r" % (e,))
        if has_float:
            E = L.DT[tgt] if conv else src_dt
        else:
            E = rdt  # no floating data: the class's own declared dtype is the reference point
        if not isinstance(rdt, torch.dtype) or not rdt.is_floating_point:
            fail(opn, "dtype.attr", "dtype", "result declares dtype %r" % (rdt,))
        if rdt != E:
            fail(opn, "dtype.attr", "dtype", "result.dtype is %s, expected %s" % (rdt, E))

        # (1) (2) (4): structure
        target_dt = L.DT[tgt] if conv else None
        dmap = (lambda d: target_dt) if conv else (lambda d: d)
        s1 = _struct(res)
        free = opn == "evaluate_kernel" and head in EVAL_KERNEL_FREE_CLASS
        if not free:
            bad = []
            _cmp(s0, s1, "op", dmap, bad)
            if bad:
                fail(opn, "structure", bad[0][0], "; ".join(d for _, d in bad[:4]))
        # flattening is a deterministic function of the NAMED arguments ("Sorting is necessary so that the flattening in the
        # representation tree is deterministic", LinearOperator.__init__): the same operator constructed with its keyword
        # tensors given in another order flattens identically, so either instance's tree rebuilds from either's tensors
        if opn in ("rebuild", "evaluate_kernel") and not free:
            r2 = _reverse_kernel_params(r)
            if r2 is not None:
                try:
                    op2 = R.build(r2)
                    rep_a, rep_b = list(op.representation()), list(op2.representation())
                    same = len(rep_a) == len(rep_b) and all(x.shape == y.shape and x.dtype == y.dtype and torch.equal(x.detach(), y.detach()) for x, y in zip(rep_a, rep_b))
                    cross = op.representation_tree()(*rep_b).to_dense().detach() if same else None
                except Exception as e:
                    fail(opn, "kwarg_order", "exc:" + X.describe(e), "rebuilding from the tensors of the same operator constructed with reversed keyword order raised %r" % (e,))
                if not same:
                    fail(opn, "kwarg_order", "order", "representation() depends on the order in which keyword tensors were passed: %s vs %s" % ([tuple(t.shape) for t in rep_a], [tuple(t.shape) for t in rep_b]))
                if cross.numel():
                    ratio, idx = tol.worst_excess(cross, ref, _value_bound(r, L.RDT[src_dt], ref, mag))
                    if ratio > 1.0 and bat0["to_dense"][0] == "ok":
                        fail(opn, "kwarg_order", "value", "tree(A)(*representation(B)) differs from the reference, ratio %.3g" % ratio)
                labels.append("kwarg_order_checked")
        # intact: the source operator is what it was
        s0b = _struct(op)
        if s0b != s0:
            bad = []
            _cmp(s0, s0b, "source", lambda d: d, bad, strict=True)
            fail(opn, "source_intact", bad[0][0] if bad else "requires_grad", "the source operator changed: %s" % ("; ".join(d for _, d in bad[:4]) or "requires_grad flags"))
        # (6) clone shares no storage
        if opn == "clone":
            reps1 = list(res.representation())
            shared = [i for i, t in enumerate(reps1) if t.numel() and t.untyped_storage().data_ptr() in ptr0]
            if shared:
                fail(opn, "storage", "shared", "representation() tensors %s of the clone live in the source's storage" % shared)
            if len(reps1) != len(reps0):
                fail(opn, "storage", "arity", "clone has %d representation tensors, source %d" % (len(reps1), len(reps0)))
        if opn == "detach":
            for i, t in enumerate(res.representation()):
                if t.requires_grad:
                    fail(opn, "detached", "flag", "representation()[%d] of the detached operator requires grad" % i)

    # ---- (3) value and (5) dtypes of everything the result returns ---------------------------------------------------
    Ename = L.RDT[E]
    bat1 = _battery(res, shape, case.get("pd"), E)
    for q, (st_, val) in sorted(bat1.items()):
        if bat0[q][0] == "exc":
            continue
        if st_ == "exc":
            if _numerical(val):
                labels.append("battery_numerical:" + q)
                continue
            fail(opn, "battery:" + q, "exc:" + X.describe(val), "%s works on the source but raises %r on the result" % (q, val))
        if val != E:
            fail(opn, "battery:" + q, "dtype", "%s of the result returned %s, expected %s (default dtype %s)" % (q, val, E, default))
        labels.append("battery_ok:" + q)
    # the source's own densification against the reference (C01's verdict): when the SOURCE already disagrees, the reference
    # cannot arbitrate the copy; everything else above / below is still checked
    d0 = op.to_dense().detach()
    src_ok = tuple(d0.shape) == shape
    if src_ok and d0.numel():
        r0, _ = tol.worst_excess(d0, ref, _value_bound(r, L.RDT[src_dt], ref, mag))
        src_ok = r0 <= 1.0
    if not src_ok:
        labels.append("source_dense_mismatch")
        labels.append("source_dense_mismatch:" + head)
    else:
        dense = res.to_dense().detach()
        if tuple(dense.shape) != shape:
            fail(opn, "value", "shape", "result densifies to shape %s, reference %s" % (tuple(dense.shape), shape))
        if dense.numel():
            bound = _value_bound(r, Ename, ref, mag, src_name=L.RDT[src_dt])
            ratio, idx = tol.worst_excess(dense, ref, bound)
            if ratio > 1.0:
                fail(opn, "value", "value", "max |result-ref|/bound = %.3g at flat %s (result=%r ref=%r; source/ref ratio %.3g)" % (ratio, idx, dense.reshape(-1)[idx].item(), ref.reshape(-1)[idx].item(), r0))

    classes = set(R.classes(r))
    has_int = bool(classes & INT_CLASSES) or _is_intkernel(r)
    kwc = bool(classes & KW_CLASSES)
    dt_ne = E != L.DT[default] or src_dt != L.DT[default]
    labels += ["head:" + head, "op:" + opn, "src:" + src, "tgt:%s" % tgt, "default:" + default, "depth:%d" % R.depth(r), "batch:%d" % (len(shape) - 2),
               "rg0:%s" % bool(case.get("rg0")), "pd:%s" % bool(case.get("pd"))]  # fmt: skip
    if case.get("form"):
        labels.append("form:%s:%s" % (opn, case["form"]))
    if dt_ne:
        labels.append("nt:dtype_ne_default")
    if kwc:
        labels.append("nt:kwargs_class")
    if has_int:
        labels.append("nt:int_or_bool_tensor_arg")
    if _is_intkernel(r):
        labels.append("class:Kernel.intparam")
    if head == "Chol" and r.get("upper"):
        labels.append("class:Chol.upper")
    if not has_float:
        labels.append("no_floating_data")
    labels += ["class:" + c for c in sorted(classes)]
    return {
        "nontrivial": bool(dt_ne or kwc or has_int),
        "key": {"cp": R.class_path(r, 4), "shape": list(shape), "opn": opn, "form": case.get("form"), "src": src, "tgt": tgt, "default": default,
                "rg0": bool(case.get("rg0")), "vals": case.get("vals")},  # fmt: skip
        "labels": labels,
        "sample": {"recipe": R.class_path(r, 4), "shape": list(shape), "opn": opn, "src": src, "tgt": tgt, "default": default, "rg0": bool(case.get("rg0"))},
    }


def _sig_kind(sig):
    f = sig.split("|")
    return (f[1], f[2], f[4]) if len(f) >= 5 else tuple(f)


def _blame(case, parent):
    """Smallest proper sub-recipe (bottom-up) that fails the SAME sub-check with the same symptom under the same operation /
    dtypes, or None (DESIGN 1.6.5).  A child failing differently is a different root cause and does not explain the parent."""
    from lov import state

    for sub in R.proper_subrecipes(case["recipe"]):
        sc = dict(case, recipe=sub, pd=False)
        state.reset(seed_obj=sc)
        try:
            _run(sc)
        except Violation as v:
            if _sig_kind(v.sig) == _sig_kind(parent.sig):
                v.case = sc
                return v
        except HarnessError:
            return None
    return None


def check(case):
    try:
        return _run(case)
    except Violation as v:
        if R.children(case["recipe"]) and not os.environ.get("LOV_C14_NOBLAME"):
            b = _blame(case, v)
            if b is not None:
                raise b
        raise v


# ------------------------------------------------------------------------------------------------
# triggers (predicates over the generated case) and generator-side rewrites for open findings
# ------------------------------------------------------------------------------------------------
def _has(name):
    def f(case):
        return any(n["op"] == name for n in R.walk(case["recipe"]))

    return f


def _has_any(*names):
    def f(case):
        return any(n["op"] in names for n in R.walk(case["recipe"]))

    return f


def _chol_upper(case):
    return any(n["op"] == "Chol" and n.get("upper") for n in R.walk(case["recipe"]))


def _to_device_on_override(case):
    return case["opn"] == "to_device" and _has_any("Interpolated", "Masked", "Identity")(case)


def _set_op(opn, **extra):
    def f(case):
        c = dict(case, opn=opn)
        c.pop("form", None)
        c.update(extra)
        return c

    return f


def _int_nodes(case):
    r = case["recipe"]
    return [(n is r) for n in R.walk(r) if n["op"] == "Permutation" or _is_intkernel(n)]


def _to_on_int_args(case):
    """A dtype conversion that reaches, through LinearOperator.to(), a class that holds integer tensors and inherits the
    base-class to(): to(dtype) / to(tensor) on the class itself, or ANY conversion of a parent (type() converts
    sub-operators by calling their to())."""
    heads = _int_nodes(case)
    if not heads or case["opn"] not in CONV:
        return False
    if case["opn"] in ("to_dtype", "to_tensor"):
        return True
    return not all(heads)  # a nested holder


def _retarget_type(case):
    # the class itself: type() is the neighbouring conversion that skips integer tensors; a nested holder: no conversion at all
    nested = not all(_int_nodes(case))
    c = dict(case, opn="clone" if nested else "type")
    if nested:
        c["target"] = None
    c.pop("form", None)
    return c


def _convert_f64_over_permutation(case):
    """A conversion to float64 of a composite that holds a permutation operator (their dtype is hard-wired to float32)."""
    r = case["recipe"]
    return case["opn"] in CONV and case.get("target") == "f64" and any(n["op"] in ("Permutation", "TransposePermutation") and n is not r for n in R.walk(r))


def _retarget_f32(case):
    c = dict(case, opn="type", target="f32")
    c.pop("form", None)
    return c


def _tperm_type(case):
    return case["opn"] in ("type", "double", "float") and case["recipe"]["op"] == "TransposePermutation"


def _krontri_upper(case):
    return any(n["op"] == "KroneckerTri" and n.get("upper") for n in R.walk(case["recipe"]))


TRIGGERS = {
    "chol_upper": _chol_upper,
    "to_device_on_to_override": _to_device_on_override,
    "has_Zero": _has_any("Zero"),
    "to_on_int_args": _to_on_int_args,
    "krontri_upper": _krontri_upper,
    "convert_f64_over_permutation": _convert_f64_over_permutation,
    "tperm_type": _tperm_type,
}
# trigger -> rewrite applied by the generator while a finding naming the trigger is open (node exclusions are carried by the
# entries themselves: "exclude_nodes_c14")
REWRITES = {
    "to_device_on_to_override": _set_op("cpu"),
    "to_on_int_args": _retarget_type,
    "convert_f64_over_permutation": _retarget_f32,
    "tperm_type": _set_op("to_dtype", form="pos"),
}


def gaps(labels):
    heads = {k.split(":", 1)[1] for k in labels if k.startswith("class:")}
    allc = {n if n not in ("TriT", "TriBase") else "Tri" for n in gen.PREDS} | {"Kernel.intparam", "Chol.upper"}
    ex = set(_exclusions())
    out = sorted("class never generated: " + c + (" (removed from the alphabet by an open finding; covered by its witness)" if c in ex else "") for c in allc - heads)
    for o in sorted(set(OPS)):
        if "op:" + o not in labels:
            out.append("operation never generated: " + o)
    return out
