"""C01 -- every operator acts exactly as the dense matrix it represents (DESIGN section 4, C01)."""
import torch
from hypothesis import strategies as st

from lov import exc as X
from lov import gen, lit as L, recipe as R, refmodel, state, tol
from lov.core import HarnessError, Violation

ID = "C01"
RULE = (
    "case = (operator recipe over the full class zoo, nesting<=3/4, batch kinds, f32/f64; an operation from "
    "{matmul, matmul-method, rmatmul (tensor @ op, 1-D and matrix), t_matmul, t_dense, dense, shape-attributes}; "
    "a generated right-hand side kind). Non-trivial: operator is not a bare Dense AND (nesting depth>=2 OR non-empty "
    "batch OR rhs batch != operator batch OR rectangular OR 1x1). Distinct by hash of (recipe structure+values, "
    "rhs shape, operation)."
)
BUDGET = {"quick": 1800, "thorough": 5000}
ASSUMPTIONS = [
    "a 1-D right-hand side against a *batched* operator is generated only as its own labelled cell (rhs_kind=vector_batched)",
    "CUDA / multi-device paths are not executable here",
]

OPS = ["matmul", "matmul", "matmul_method", "rmatmul", "rmatmul_vec", "t_matmul", "t_dense", "dense", "shape"]

# nodes removed from the *nesting* alphabet while the corresponding finding is open (DESIGN 1.6.5)
EXCLUDE = ()


def set_exclude(names):
    global EXCLUDE
    EXCLUDE = tuple(names)


@st.composite
def cases(draw, tier):
    max_depth = 3 if tier == "quick" else 4
    strat = gen.head_first_recipes("any", max_depth=max_depth, exclude=_exclusions()) if draw(st.integers(0, 2)) else gen.recipes(
        draw(st.sampled_from(["any", "any", "psd", "pd"])), max_depth=max_depth, exclude=_exclusions()
    )
    r = draw(strat)
    opn = draw(st.sampled_from(OPS))
    case = {"recipe": r, "opn": opn}
    if draw(st.integers(0, 4)) == 0:
        cell = draw(st.sampled_from(FLAG_CELLS))
        if cell.get("trace_mode") and any(n["op"] == "Mul" for n in R.walk(r)):
            # trace_mode documents that data-dependent checks are skipped: psd_safe_cholesky then returns the factor of a
            # non-PD matrix unchecked, so root-defined (Mul) nodes over singular operands are outside its contract
            cell = {"memory_efficient": True}
        case["settings"] = cell
    if opn in ("matmul", "matmul_method", "t_matmul", "rmatmul", "rmatmul_vec"):
        shp = refmodel.shape(r)
        dt = R.dtype_of(r)
        if opn in ("t_matmul", "rmatmul", "rmatmul_vec"):
            shp = shp[:-2] + (shp[-1], shp[-2])  # the operand multiplies the transpose / from the left
        if opn == "rmatmul_vec":
            case["rhs_kind"] = "vector"
            case["rhs"] = draw(gen.rhs_for(shp[-2:], dt).filter(lambda kv: kv[0] == "vector"))[1] if False else gen.flit(draw, gen.Cfg(dt=dt), (shp[-1],), -16, 16)
        else:
            kind, rl = draw(gen.rhs_for(shp, dt, allow_vector=True))
            case["rhs_kind"] = kind
            case["rhs"] = rl
    return case


def strategy(tier):
    return cases(tier)


def _exclusions():
    from lov.findings import load

    ex = set(EXCLUDE)
    for e in load():
        if e.get("status", "open") == "open":
            for nm in e.get("exclude_nodes", []):
                ex.add(nm)
    return tuple(sorted(ex))


def _inner(r):
    return refmodel.shape(r)[-1]


def _expected_dtype(op_obj, r):
    lits = R.float_literals(r)
    if lits or any(n["op"] in ("Identity", "Zero") for n in R.walk(r)):
        return L.DT[R.dtype_of(r)]
    return op_obj.dtype


def run_op(r, opn, rhs_lit):
    """Execute one operation on the library object and the reference; raise Violation on mismatch."""
    ref = refmodel.dense(r)
    mag = refmodel.dense_abs(r)
    head = r["op"]
    depth = R.depth(r)
    dtname = R.dtype_of(r)

    def fail(symptom, detail):
        raise Violation("C01|%s|%s|%s" % (opn, head, symptom), detail)

    try:
        op = R.build(r)
    except Exception as e:  # constructor refused arguments the generator believes valid
        fail("build:" + X.describe(e), "constructor raised %r for %s" % (e, R.class_path(r)))

    try:
        if opn == "shape":
            exp = tuple(ref.shape)
            got = {
                "shape": tuple(op.shape),
                "size()": tuple(op.size()),
                "dim": op.dim(),
                "ndimension": op.ndimension(),
                "batch_shape": tuple(op.batch_shape),
                "matrix_shape": tuple(op.matrix_shape),
                "numel": op.numel(),
                "is_square": bool(op.is_square),
                "sizes_i": tuple(op.size(i) for i in range(-len(exp), len(exp))),
            }
            want = {
                "shape": exp,
                "size()": exp,
                "dim": len(exp),
                "ndimension": len(exp),
                "batch_shape": exp[:-2],
                "matrix_shape": exp[-2:],
                "numel": int(torch.Size(exp).numel()),
                "is_square": exp[-1] == exp[-2],
                "sizes_i": tuple(exp[i] for i in range(-len(exp), len(exp))),
            }
            if got != want:
                fail("shape", "attributes %r != %r for %s" % (got, want, R.class_path(r)))
            return
        if opn == "dense":
            res = op.to_dense()
            expect = ref
            S = mag
            inner = 1
        elif opn == "t_dense":
            res = op.mT.to_dense()
            expect = ref.transpose(-1, -2)
            S = mag.transpose(-1, -2)
            inner = 1
        else:
            x = L.materialise(rhs_lit)
            x64 = L.value(rhs_lit, torch.float64)
            if opn == "matmul":
                res = op @ x
                expect = torch.matmul(ref, x64)
                S = torch.matmul(mag, x64.abs())
            elif opn == "matmul_method":
                res = op.matmul(x)
                expect = torch.matmul(ref, x64)
                S = torch.matmul(mag, x64.abs())
            elif opn == "t_matmul":
                res = op.mT @ x
                expect = torch.matmul(ref.transpose(-1, -2), x64)
                S = torch.matmul(mag.transpose(-1, -2), x64.abs())
            elif opn in ("rmatmul", "rmatmul_vec"):
                # the generated operand has the shape of a right operand of op^T; use its transpose on the left
                if x.dim() == 1:
                    y, y64 = x, x64
                else:
                    y, y64 = x.mT, x64.transpose(-1, -2)
                res = y @ op
                expect = torch.matmul(y64, ref)
                S = torch.matmul(y64.abs(), mag)
            else:
                raise HarnessError("unknown op %s" % opn)
            inner = ref.shape[-1] if opn in ("matmul", "matmul_method") else ref.shape[-2]
    except Violation:
        raise
    except HarnessError:
        raise
    except Exception as e:
        fail("exc:" + X.describe(e), "%s raised %r for %s" % (opn, e, R.class_path(r)))

    if not torch.is_tensor(res):
        # the property speaks of value and shape only: a lazy (operator) result is densified and compared
        from linear_operator.operators import LinearOperator

        if not isinstance(res, LinearOperator):
            fail("type", "result is %s, neither Tensor nor LinearOperator" % type(res).__name__)
        try:
            res = res.to_dense()
        except Exception as e:
            fail("exc:" + X.describe(e), "densifying the lazy result of %s raised %r for %s" % (opn, e, R.class_path(r)))
    if tuple(res.shape) != tuple(expect.shape):
        fail("shape", "result shape %s != torch shape %s for %s" % (tuple(res.shape), tuple(expect.shape), R.class_path(r)))
    want_dt = _expected_dtype(op, r) if opn in ("dense", "t_dense") else L.DT[rhs_lit["dt"]]
    if res.dtype != want_dt:
        fail("dtype", "result dtype %s != %s for %s" % (res.dtype, want_dt, R.class_path(r)))
    extra = 1.0
    if any(n["op"] == "Toeplitz" for n in R.walk(r)):
        extra = 4.0 + max(1.0, float(torch.log2(torch.tensor(float(max(ref.shape[-2:]))))))
    if S.numel():
        S = S + S.abs().max() * 1e-3
    if any(n["op"] == "Mul" for n in R.walk(r)) and S.numel():
        # elementwise products are *defined* through root decompositions of both operands (Cholesky with the
        # documented jitter, or symeig): normwise factorization tolerance, not the exact-structure one
        S = torch.full_like(S, float(S.max())) * tol.root_slack(dtname, ref.shape[-1])
        bound = tol.exact_bound(S, dtname, inner, depth, extra) + 16.0 * tol.JITTER_MAX[dtname] * (1.0 + float(mag.max())) * (1.0 + (float(L.value(rhs_lit).abs().max()) if rhs_lit else 0.0))
    else:
        bound = tol.exact_bound(S, dtname, inner, depth, extra)
    ratio, idx = tol.worst_excess(res, expect, bound) if res.numel() else (0.0, None)
    if ratio > 1.0:
        fail(
            "value",
            "max |lib-ref|/bound = %.3g at flat index %s (lib=%s ref=%s) for %s"
            % (ratio, idx, res.reshape(-1)[idx].item(), expect.reshape(-1)[idx].item(), R.class_path(r)),
        )


def _blame(r, opn):
    """Smallest failing proper sub-recipe (bottom-up) under the densify / matmul checks, or None."""
    for sub in R.proper_subrecipes(r):
        shp = refmodel.shape(sub)
        dt = R.dtype_of(sub)
        for o in ("dense", "shape", "t_dense", "matmul", "t_matmul"):
            rhs = None
            if o in ("matmul", "t_matmul"):
                k = shp[-1] if o == "matmul" else shp[-2]
                rhs = L.lit([[float((3 * i + 5 * j) % 7 - 3) / 2.0 for j in range(2)] for i in range(k)], dt)
            try:
                run_op(sub, o, rhs)
            except Violation as v:
                return sub, o, rhs, v
            except HarnessError:
                return None
    return None


FLAG_CELLS = [{"trace_mode": True}, {"memory_efficient": True}, {"debug": False}, {"trace_mode": True, "debug": False}]


def check(case):
    """The value and shape of an operator do not depend on feature flags: optionally under a few of them."""
    cell = case.get("settings") or {}
    with state.apply_settings(cell):
        info = _check_under_settings(case)
    if info and cell:
        info["labels"] = list(info.get("labels", [])) + ["settings:" + ",".join(sorted(cell))]
    return info


def _check_under_settings(case):
    r, opn = case["recipe"], case["opn"]
    try:
        run_op(r, opn, case.get("rhs"))
    except Violation as v:
        b = _blame(r, opn) if R.children(r) else None
        if b is not None:
            sub, o, rhs, v2 = b
            v2.case = {"recipe": sub, "opn": o}
            if rhs is not None:
                v2.case.update({"rhs": rhs, "rhs_kind": "matrix"})
            raise v2
        raise v
    shp = refmodel.shape(r)
    depth = R.depth(r)
    rhs_shape = L.shape_of(case["rhs"]) if case.get("rhs") else None
    nontrivial = r["op"] != "Dense" and (
        depth >= 2
        or len(shp) > 2
        or shp[-1] != shp[-2]
        or shp[-2:] == (1, 1)
        or (rhs_shape is not None and len(rhs_shape) >= 2 and tuple(rhs_shape[:-2]) != tuple(shp[:-2]))
    )
    rk = case.get("rhs_kind", "-")
    if rk == "vector" and len(shp) > 2:
        rk = "vector_batched"
    labels = ["head:" + r["op"], "op:" + opn, "depth:%d" % depth, "rhs:" + rk, "dtype:" + R.dtype_of(r), "batch:%d" % (len(shp) - 2)]
    labels += ["class:" + c for c in R.classes(r)]
    return {
        "nontrivial": nontrivial,
        "key": {"r": r, "rhs_shape": rhs_shape, "opn": opn},
        "labels": labels,
        "sample": {"recipe": r, "opn": opn, "rhs_shape": rhs_shape},
    }


def gaps(labels):
    heads = {k.split(":", 1)[1] for k in labels if k.startswith("class:")}
    allc = {n if n not in ("TriT", "TriBase") else "Tri" for n in gen.PREDS}
    return sorted("class never generated: " + c for c in allc - heads)


def _has_chol_upper(case):
    return any(n["op"] == "Chol" and n.get("upper") for n in R.walk(case["recipe"]))


def _transposeperm_batched(case):
    """a TransposePermutation node inside a recipe whose dense value has batch dimensions"""
    from lov import refmodel

    if not any(n["op"] == "TransposePermutation" for n in R.walk(case["recipe"])):
        return False
    try:
        return refmodel.dense(case["recipe"]).dim() > 2
    except Exception:
        return False


TRIGGERS = {"chol_upper": _has_chol_upper, "transposeperm_batched": _transposeperm_batched}
