"""C06 -- every factorization returned really factorizes the operator (DESIGN section 4, C06).

Code under test (public entry points only): `op.cholesky(upper)`, `torch.linalg.cholesky(op[, upper=True])`,
`op.root_decomposition(method)`, `op.root_inv_decomposition(initial_vectors, test_vectors, method)`, `op.eigh()`,
`torch.linalg.eigh(op)`, `op.eigvalsh()`, `torch.linalg.eigvalsh(op)`, `op.svd()`, `torch.linalg.svd(op)`,
`op.diagonalization(method)` -- on PSD / PD operators of every class of the recipe zoo (structured overrides of
`_cholesky`, `_symeig`, `_svd`, `_root_decomposition`, `_root_inv_decomposition`, `root_decomposition`,
`root_inv_decomposition`, `diagonalization` and the generic implementations), under settings cells that put the size on
both sides of `max_cholesky_size` (by lowering it) and `max_root_decomposition_size` on both sides of n.

Oracle: the dense float64 reference `A = refmodel.dense(recipe)` (independent of the library), its eigenvalues `w_ref`,
`nrm = max |w_ref|`, `lmin = min w_ref`, `kappa = nrm / lmin` -- per batch member.  `u` = unit round-off of the operator
dtype, `n` the matrix size, `D` the recipe depth.  All norms of differences are max-abs over the entries of a member.

    E  = C_DIRECT * D * n * u * nrm      C_DIRECT = 1024   (backward error of a direct factorization, DESIGN 3)
         (* gamma for recipes containing SumKronecker / KroneckerAddedDiag, whose structured paths factor through a *part* of the
         operator [K2^{-1/2} K1 K2^{-T/2} + I, D^{-1/2} K D^{-1/2} + I] and therefore amplify relative errors by the condition of
         that part: gamma = largest norm of any symmetric PSD node / smallest positive lambda_min of any such node)
    O  = C_DIRECT * D * n * u            (orthonormality)
    JS = (sum of the jitters announced by NumericalWarning "added jitter of X" while the operator was constructed and
          while the operation ran) * (1 + mu)^(D-1),   mu = max(1, largest |entry| of any node of the recipe):
         the documented psd_safe_cholesky jitter, amplified by at most the magnitudes of the enclosing structure.
         JS = 0 when no such warning was emitted.
    LS = sum over the Lanczos runs recorded during the call of  (J + 16 k B + 128 k n' u) * nrm   (k, n' of that run;
         J = tridiagonal_jitter, times k while finding F-C09-diag-jitter is open; B = max(1e-5, 4 n' u |T| / beta_min) is the
         orthogonality level lanczos_tridiag promises, see lov/props/c09.py).  LS = 0 when no Lanczos run happened.

    cholesky(upper=False/True), torch.linalg.cholesky:
        shape, dtype; tri : the densified factor has an exactly zero strict upper (lower) triangle;
        recon: |L L^T - A| (|R^T R - A|) <= E + JS.   A NotPSDError is accepted iff the member is numerically singular
        (lmin <= 64 n u nrm D): the documented outcome of psd_safe_cholesky when the jitter does not help.
    root_decomposition(method):  R = result.root densified, shape (*batch, n, k), dtype, finite;
        direct methods (cholesky [incl. the documented fall-back to symeig with a NumericalWarning], symeig, svd,
        diagonalization/None when no Lanczos run was logged):  |R R^T - A| <= E + JS
        Lanczos (method lanczos / None / diagonalization with a recorded lanczos_tridiag run, all runs "regular"):
            every run reached k = n' (Krylov space = whole space):  |R R^T - A| <= E + JS + LS
            otherwise, with P an orthonormal basis of span(R) (eigenvectors of R R^T above thr * top, thr = 1e-3 / 1e-7
            for f32 / f64):  |R R^T - P (P^T A P) P^T| <= E + JS + LS + (thr + 4u/thr) nrm   (orthogonal compression)
        pivoted_cholesky: lambda_min(A - R R^T) >= -(E + JS) (under-approximation),
            |R R^T - A| <= E + JS when k = n, tr(A - R R^T) <= (1e-3 + 64 n u) * n * max diag A when it stopped with
            k < min(size, n) (its documented stopping rule, preconditioner_tolerance = 1e-3 on the normalised residual).
    root_inv_decomposition(method) -- PD operators only:  R as above;
        (kappa is replaced by max(kappa, gamma) for nested recipes: structured inverses multiply the inverses of parts)
        direct: |A R R^T - I| <= C_DIRECT D n u kappa + JS / lmin   (skipped, labelled, when that
        exceeds 0.05 or lmin <= 2e-7 -- the documented clamp of inverse eigenvalues at 1e-7)
        Lanczos run recorded (lanczos, None above the threshold, pinverse of a Lanczos root), all runs regular:
        |R^T A R - I_k| <= 2 kappa (LS/nrm + C_DIRECT D n u) (skipped when that exceeds 0.05); equivalent to
        R R^T = A^-1 when k = n and to R R^T = (compression)^+ otherwise.
    eigh / torch.linalg.eigh / diagonalization (symeig): w (*batch, n), Q (*batch, n, n); orth: |Q^T Q - I| <= O;
        recon: |Q diag(w) Q^T - A| <= E + JS; sign: w >= -E (documented clamp at 0); eigenvalues may be unsorted.
    diagonalization (Lanczos run recorded): w (*batch, k), Q (*batch, n, k); columns that are exactly zero (Ritz pairs
        dropped by lanczos_tridiag_to_diag) are allowed for numerically singular members only; orth on the others
        <= O + 2 B; recon as for Lanczos roots.
    eigvalsh / torch.linalg.eigvalsh: sorted(w) = w_ref within E + JS; w >= -E.
    svd / torch.linalg.svd (returns V^T): U, V (*batch, n, n), S (*batch, n); orth on U and V <= O; sign: S >= 0
        (-E); recon |U diag(S) V^T - A| <= E + JS.

Lanczos runs are recorded by wrapping the module attribute `linear_operator.utils.lanczos.lanczos_tridiag` (the
consumers look it up at call time).  A run is *regular* when its T is finite and 4 n' u (|T| / beta_min)^2 <= 1/2
(beta_min = smallest returned off-diagonal); for a non-regular run lanczos_tridiag itself promises nothing (C09's
assumption) and only the absence of an exception is checked.  Failures that coincide with the condition of an *open*
C09 / C10 finding (max_iter = 1, leading unit batch dimension, break-down members, exhausted pivoted-Cholesky batch
member) are attributed to that entry (label `attributed:<id>`), never re-reported; the generator avoids the cheap ones
by construction while they are open.

Exceptions: a NotPSDError "after repeatedly adding jitter" is accepted for numerically singular members; an exception
counts as the library *declining* the operation only if it has the form of an explicit "not supported" (lov.exc) AND is
raised by / names this factorization (e.g. "Cannot run Cholesky with KeOps"); everything else is a violation `exc:<Type>@<where>`.

Generator-side exclusions (DESIGN 1.6.4), all pure functions of the JSON case applied by `normalise`: for every *open* entry of
known_findings.json whose trigger is in TRIGGERS (this property's own findings) the triggering feature is replaced (method ->
a direct one, svd -> eigh, probes -> one column); for open entries of other properties whose condition a C06 case can reach
(C09 max_iter = 1 / leading unit batch / jitter on all entries, C10 exhausted batch member, C02 batched constants inside the
batched KroneckerAddedDiag root, C15 Triangular(<structured>).inverse() inside CholLinearOperator.root_inv_decomposition) the
cheap ones are avoided likewise.  With no open entry everything is generated.  Every avoidance is labelled `avoided:<name>`.

Violation signature: "C06|<operation:method>|<sub-check>|<head class>|<symptom>", sub-check in {recon, orth, tri, sign,
shape, dtype, finite, exc}.  Before a failure is reported the same case is re-run on every proper sub-recipe that
is itself a symmetric PSD (PD for inverse roots) operator; the smallest failing one gets the blame.
"""
import contextlib
import re
import warnings
from unittest import mock

import torch
from hypothesis import strategies as st

from lov import exc as X
from lov import gen, lit as L, recipe as R, refmodel, spd, state, tol
from lov.core import HarnessError, Violation
from lov.findings import load as load_findings

ID = "C06"
RULE = (
    "case = (PSD / PD operator recipe: head class drawn from the 27 classes that can denote a PSD matrix (per-class quota, classes with a factorization override twice), nesting <= 3 (4 thorough), "
    "n in 1..6, batch kinds, f32/f64; or a Dense/Minimal leaf with a prescribed spectrum [uniform / clusters / geometric / "
    "outlier / repeated, kappa up to 1e6, rank deficient]) x operation in {cholesky(upper F/T), torch.linalg.cholesky, "
    "root_decomposition(method in None/cholesky/symeig/svd/lanczos/pivoted_cholesky/diagonalization), "
    "root_inv_decomposition(method in None/cholesky/symeig/svd/lanczos[initial_vectors,test_vectors]/diagonalization/pinverse; "
    "PD only), eigh, torch.linalg.eigh, eigvalsh, torch.linalg.eigvalsh, svd, torch.linalg.svd, diagonalization(None/symeig/"
    "lanczos)} x settings cell {max_cholesky_size in 0/n-1/n/default, max_root_decomposition_size in n-2/n/n+2/default, "
    "fast_computations.covar_root_decomposition on/off/default}. Non-trivial: the head class has a factorization override, or "
    "method is not the default, or the size is above the (lowered) max_cholesky_size -- and at least one value oracle was in "
    "force. Distinct by hash of the whole case."
)
BUDGET = {"quick": 2000, "thorough": 4000}
ASSUMPTIONS = [
    "inverse roots are requested for positive definite operators only and value-checked only while C n u kappa <= 0.05 and lambda_min > 2e-7 (documented clamp)",
    "Lanczos-based results are value-checked only when every recorded lanczos_tridiag run is regular (4 n u (|T|/beta_min)^2 <= 1/2), as in C09",
    "initial_vectors have non-zero columns, the operator's dtype and batch shape; test_vectors are supplied whenever more than one initial vector is",
    "jitter is accounted only when the library announced it with a NumericalWarning (its size is parsed from the message)",
    "eigh / eigvalsh with an externally injected 'symeig' cache entry (returning (evals, None)) are not generated",
    "ZeroLinearOperator (declares itself not positive definite) and triangular classes are not PSD operands",
    "KroneckerProductAddedDiagLinearOperator with a Kronecker-structured diagonal containing zeros is not sent down its `_root_decomposition` / `_root_inv_decomposition` (they form D^{-1/2}: the diagonal is a positive noise term by construction of the class)",
    "method='pivoted_cholesky' is not requested for operators with an all-zero batch member (normalised residual 0/0; pivoted_cholesky documents a positive definite argument)",
]
WALL_GUARD = {"quick": 600, "thorough": 3000}
SHRINK_BUDGET = {"quick": 250, "thorough": 1200}

F64 = torch.float64
C_DIRECT = tol.C_DIRECT
U = {"f32": 2.0**-24, "f64": 2.0**-53}
THR = {"f32": 1e-3, "f64": 1e-7}
INV_MAX = 0.05

# head classes that can denote a PSD matrix; the ones with a factorization override listed twice (quota)
OVERRIDE_HEADS = [
    "Diag", "ConstantDiag", "Identity", "Kronecker", "KroneckerDiag", "KroneckerAddedDiag", "SumKronecker", "AddedDiag",
    "ConstantMul", "BlockDiag", "BlockInterleaved", "BatchRepeat", "Chol", "Root", "LowRankRoot", "Mul",
]
BASE_CHOLESKY_HEADS = ("Dense", "Minimal", "Toeplitz", "Sum", "PsdSum", "Masked", "Interpolated", "Kernel", "SumBatch")  # no _cholesky override
GENERIC_HEADS = [
    "Dense", "Minimal", "Toeplitz", "Kernel", "KeOps", "LowRankRootAddedDiag", "Sum", "PsdSum", "SumBatch", "Interpolated", "Interpolated", "Masked",
]
HEADS = OVERRIDE_HEADS * 2 + GENERIC_HEADS

OPS = (
    ["cholesky"] * 3 + ["tl_cholesky"] * 2 + ["root"] * 9 + ["root_inv"] * 8 + ["eigh"] * 2 + ["tl_eigh"] + ["eigvalsh"]
    + ["tl_eigvalsh"] + ["svd"] * 3 + ["tl_svd"] * 2 + ["diag"] * 4
)
ROOT_METHODS = [None, None, "cholesky", "symeig", "svd", "lanczos", "lanczos", "pivoted_cholesky", "diagonalization"]
ROOT_INV_METHODS = [None, None, "cholesky", "symeig", "svd", "lanczos", "lanczos", "diagonalization", "pinverse"]
DIAG_METHODS = [None, "symeig", "lanczos", "lanczos"]

_RATIO = {}  # largest observed error / bound per sub-check and dtype (evidence only)
_PENDING = []


def _rec(name, dtn, ratio):
    _PENDING.append(("%s/%s" % (name, dtn), float(ratio)))


# ------------------------------------------------------------------------------------------------
# known findings -> generator-side exclusion
# ------------------------------------------------------------------------------------------------
_ENTRIES = None


def _open_entries():
    """Open entries of known_findings.json, read once per process (the file is read-only at run time)."""
    global _ENTRIES
    if _ENTRIES is None:
        import time

        last = None
        for _ in range(5):
            try:
                _ENTRIES = [e for e in load_findings() if e.get("status", "open") == "open"]
                break
            except ValueError as e:  # the lead may be rewriting the file at this very moment
                last = e
                time.sleep(0.5)
        else:
            raise HarnessError("known_findings.json unreadable: %r" % (last,))
    return _ENTRIES


def _open_triggers(prop=None):
    return {e.get("trigger") for e in _open_entries() if e.get("trigger") and (prop is None or e.get("property") == prop)}


def _open_ids():
    return {e.get("id") for e in _open_entries()}


def _exclusions():
    # KeOps declares "Cannot run Cholesky with KeOps" for the Cholesky-based paths; it stays in (declines are counted)
    ex = set()
    for e in _open_entries():
        ex.update(e.get("exclude_nodes", []))
        if e.get("property") == ID:
            ex.update(e.get("exclude_nodes_c06", []))
    return tuple(sorted(ex))


# ------------------------------------------------------------------------------------------------
# case helpers
# ------------------------------------------------------------------------------------------------
def _n(case):
    return refmodel.shape(case["recipe"])[-1]


def _batch(case):
    return tuple(refmodel.shape(case["recipe"])[:-2])


def _numel(shape):
    p = 1
    for s in shape:
        p *= s
    return p


def _mcs(case):
    return case.get("settings", {}).get("max_cholesky_size")


def _above(case):
    m = _mcs(case)
    return m is not None and _n(case) > m


def _fast_off(case):
    return case.get("settings", {}).get("fast.covar_root_decomposition") is False


def _lz_possible(case):
    """Could a Lanczos run happen for this case (judged from the case alone; nested nodes count through their size)?"""
    opn, method = case["op"], case.get("method")
    if opn in ("root", "root_inv"):
        if method == "lanczos":
            return True
        if method in (None, "diagonalization", "pinverse"):
            return _above(case)
        return False
    if opn == "diag":
        return method == "lanczos" or (method is None and _above(case))
    return False


def _node_shapes(r):
    return [refmodel.shape(nd) for nd in R.walk(r) if nd["op"] != "Tensor"]


def _mrds_eff(case):
    v = case.get("settings", {}).get("max_root_decomposition_size")
    return 100 if v is None else int(v)


# ------------------------------------------------------------------------------------------------
# triggers of C06's own findings (predicates over the generated case)
# ------------------------------------------------------------------------------------------------
def _nodes(case, name):
    return [nd for nd in R.walk(case["recipe"]) if nd["op"] == name]


def _kpad_diag(nd):
    return next(a for a in nd["args"] if a["op"] in ("Diag", "ConstantDiag", "Identity", "KroneckerDiag"))


def _lit_not_all_one(l):
    return bool((L.value(l, F64) != 1.0).any())


def _kpad_kron_diag_nonunit(nd):
    """KroneckerAddedDiag whose diagonal is Kronecker-structured and not the identity."""
    d = _kpad_diag(nd)
    if d["op"] != "KroneckerDiag":
        return False
    for a in d["args"]:
        if a["op"] == "ConstantDiag" and _lit_not_all_one(a["c"]):
            return True
        if a["op"] == "Diag" and _lit_not_all_one(a["d"]):
            return True
    return False


def _kpad_singular_kron_diag(nd):
    d = _kpad_diag(nd)
    if d["op"] != "KroneckerDiag":
        return False
    return bool((refmodel.dense(d).diagonal(dim1=-2, dim2=-1) <= 0).any())


def _kpad_const_batched_diag_factor(nd):
    d = _kpad_diag(nd)
    if d["op"] != "KroneckerDiag" or not all(a["op"] == "ConstantDiag" for a in d["args"]) or len(refmodel.shape(nd)) <= 2:
        return False
    k = next(a for a in nd["args"] if a is not d)
    return k["op"] == "Kronecker" and any(gen.is_diag_instance(f) for f in k["args"])


def _chol_of_structured_tri(nd):
    b = nd["base"]
    while b["op"] == "Tri" and "base" in b:
        inner = b["base"]
        if inner["op"] not in ("Dense", "Tri", "KroneckerTri") and not gen.is_diag_instance(inner):
            return True
        b = inner
    return False


def _reaches_private_root(case):
    """root / root_inv call that ends in a class's `_root_decomposition` / `_root_inv_decomposition`."""
    opn, m = case["op"], case.get("method")
    if opn not in ("root", "root_inv"):
        return False
    if m == "lanczos":
        return True
    if m is None or (m == "pinverse" and opn == "root_inv"):
        return _above(case) and not _fast_off(case)
    return False


def _t_kpad_root(case):
    if not _reaches_private_root(case):
        return False
    if case["op"] != "root_inv" or case.get("method") == "pinverse":
        return False
    return any(_kpad_kron_diag_nonunit(nd) for nd in _nodes(case, "KroneckerAddedDiag"))


PROBE_BLIND = ("Diag", "ConstantDiag", "Identity", "KroneckerDiag", "KroneckerAddedDiag", "SumKronecker", "BatchRepeat")


def _t_probes_structured(case):
    """several initial_vectors handed to a class whose `_root_inv_decomposition` override returns one root (no probe dimension)"""
    if case["op"] != "root_inv" or case.get("method") != "lanczos" or not case.get("init"):
        return False
    if L.shape_of(case["init"])[-1] < 2:
        return False
    r = case["recipe"]
    return r["op"] in PROBE_BLIND or gen.is_diag_instance(r)


def _krylov_deficient(r):
    """Reference eigenvalues of some member (nearly) repeat: a Lanczos run may stop before the full size."""
    ref = _reference(r)
    w, nrm = ref["w"], ref["nrm"]
    if w.shape[-1] < 2:
        return False
    gap = (w[..., 1:] - w[..., :-1]).amin(-1)
    thr = 1e-2 if R.dtype_of(r) == "f32" else 1e-5
    return bool((gap <= thr * nrm).any())


def _rect_own_root(b):
    """`_root_decomposition` of the built operator returns a stored rectangular root (RootLinearOperator family)."""
    if b["op"] in ("Root", "LowRankRoot"):
        shp = refmodel.shape(b["base"])
        return shp[-1] != shp[-2]
    if b["op"] in ("BatchRepeat", "BlockDiag", "BlockInterleaved"):
        return _rect_own_root(b["base"])
    return False


SUMKRON_PAIRED = ("Dense", "Minimal", "Toeplitz", "Sum", "PsdSum", "Masked", "SumBatch", "Mul", "Kernel", "KeOps", "Interpolated", "AddedDiag", "LowRankRootAddedDiag", "Chol")


def _t_sumkron_root(case):
    """SumKronecker._root_decomposition multiplies root_decomposition() of the second summand's factors with an inner matrix
    built from their root_inv_decomposition(): consistent only when both come from the same factorization (generic classes:
    same Cholesky factor / same cached Lanczos run; diagonal classes; Chol) -- not for classes that return a stored or
    separately computed root."""
    if case["op"] != "root" or not _reaches_private_root(case):
        return False
    m = _mcs(case)
    for nd in _nodes(case, "SumKronecker"):
        for f in nd["args"][1]["args"]:
            if gen.is_diag_instance(f):
                continue
            if f["op"] in ("Root", "LowRankRoot"):
                return True
            if f["op"] not in SUMKRON_PAIRED and m is not None and refmodel.shape(f)[-1] > m and refmodel.shape(f)[-1] > 1:
                return True
    return False


def _t_block_root(case):
    """Block operators wrap the (n x k) Lanczos root of their base in their own class, which needs square blocks: broken when
    k < n (truncation / early stop) and when probe vectors of the whole operator are passed on to the blocks."""
    if case["op"] not in ("root", "root_inv") or not _lz_possible(case):
        return False
    r = case["recipe"]
    for nd in R.walk(r):
        if nd["op"] in ("BlockDiag", "BlockInterleaved") and not gen.is_diag_instance(nd):
            p = refmodel.shape(nd["base"])[-1]
            if _mrds_eff(case) < p or _krylov_deficient(nd["base"]) or case.get("init") or _rect_own_root(nd["base"]):
                return True
    return False


def _is_svd_path(case):
    return case["op"] in ("svd", "tl_svd") or (case["op"] in ("root", "root_inv") and case.get("method") == "svd")


def _singular_recipe(r):
    ref = _reference(r)
    u = U[R.dtype_of(r)]
    return bool((ref["lmin"] <= 64.0 * ref["n"] * u * ref["nrm"] * ref["depth"]).any())


def _const_diag_summand(nd):
    """(constant diagonal, other summand) of an AddedDiag-like node whose `_symeig` / `_svd` shift the spectrum of the other, else None"""
    if nd["op"] not in ("AddedDiag", "LowRankRootAddedDiag", "KroneckerAddedDiag"):
        return None
    d = next((a for a in nd["args"] if a["op"] in ("ConstantDiag", "Identity")), None)
    if d is None:
        return None
    return d, next(a for a in nd["args"] if a is not d)


def _t_svd_singular(case):
    """svd-based result of a numerically singular PSD operator -- or of K + c I whose `_svd` shifts the singular values of a
    singular K (AddedDiag / LowRankRootAddedDiag / KroneckerAddedDiag with a constant diagonal)."""
    if not _is_svd_path(case):
        return False
    if case.get("dom") != "pd" and _singular_recipe(case["recipe"]):
        return True
    for nd in R.walk(case["recipe"]):
        cs = _const_diag_summand(nd)
        if cs is not None and _singular_recipe(cs[1]):
            return True
    return False


def _diag_evecs(r, kind, case):
    """Does the operation reach a node whose eigenvector operator is a DiagLinearOperator (which is then multiplied by a
    row / column of eigenvalues)?  kind = "svd" (op.svd()) or "root" (root / inverse root with an eigen-method)."""
    if gen.is_diag_instance(r):
        return True
    op = r["op"]
    if op == "BatchRepeat":
        return _diag_evecs(r["base"], kind, case)
    if kind == "root":
        if op == "ConstantMul" and case["op"] == "root":
            return _diag_evecs(r["base"], kind, case)
        if op == "Kronecker" and case["op"] == "root" and _mcs(case) is not None and refmodel.shape(r)[-1] > _mcs(case):
            return any(_diag_evecs(a, kind, case) for a in r["args"])
        if op == "BlockDiag":  # _symeig wraps the eigenvectors of the blocks in BlockDiag(...), folded to a diagonal operator
            return _diag_evecs(r["base"], kind, case)
        return False
    if op == "Kronecker":
        return any(_diag_evecs(a, kind, case) for a in r["args"])
    if op == "BlockDiag":
        return _diag_evecs(r["base"], kind, case)
    cs = _const_diag_summand(r)
    if cs is not None:
        return _diag_evecs(cs[1], kind, case)
    return False


def _t_diag_evecs(case):
    """svd of a *batched* diagonal-class operator (DiagLinearOperator._svd multiplies its eigenvector operator by a column of
    signs; unbatched positive definite ones come out right by luck, singular ones fall under svd_of_singular_psd)."""
    opn, m = case["op"], case.get("method")
    r = case["recipe"]
    if len(refmodel.shape(r)) <= 2:
        return False
    if opn in ("root", "root_inv") and m == "svd":
        if refmodel.shape(r)[-1] == 1:
            return False  # 1 x 1: answered before the method is looked at
        return _diag_evecs(r, "svd", case) or _diag_evecs(r, "root", case)
    if opn in ("svd", "tl_svd"):
        return _diag_evecs(r, "svd", case)
    return False


def _has_kron_above(case):
    m = _mcs(case)
    if m is None:
        return False
    return any(nd["op"] == "Kronecker" and refmodel.shape(nd)[-1] > m for nd in R.walk(case["recipe"]))


def _t_kron_root_inv_method(case):
    return case["op"] == "root_inv" and case.get("method") in ("cholesky", "symeig", "svd", "diagonalization", "pinverse") and _has_kron_above(case)


TRIGGERS = {
    "kpad_kron_diag_root": _t_kpad_root,
    "root_inv_probes_structured": _t_probes_structured,
    "block_root_nonsquare": _t_block_root,
    "sumkron_root_mismatched_factor_roots": _t_sumkron_root,
    "svd_of_singular_psd": _t_svd_singular,
    "diag_evecs_times_row": _t_diag_evecs,
    "kron_root_inv_method_ignored": _t_kron_root_inv_method,
}


# ------------------------------------------------------------------------------------------------
# strategy
# ------------------------------------------------------------------------------------------------
def _spd_recipe(draw):
    spec = draw(spd.specs(max_n=6, min_n=2, batches=((), (), (2,), (3,), (2, 2)), psd=True, max_reflectors=3))
    A, w, _ = spd.build(spec)
    dt = draw(st.sampled_from(["f64", "f64", "f32"]))
    A = A.to(L.DT[dt]).to(F64)  # the value the library will see
    A = 0.5 * (A + A.transpose(-1, -2))
    node = draw(st.sampled_from(["Dense", "Dense", "Minimal"]))
    dom = "psd" if ("rank" in spec or spec["kappa"] * 6 * U[dt] > 1e-3) else "pd"
    return {"op": node, "t": L.lit(A.tolist(), dt)}, dom


MEMBER_SCALE_HEADS = ("Dense", "Minimal", "Diag", "Toeplitz")
MEMBER_SCALE_EXP = {"f32": [0, -12, -22, -26, -30, 24], "f64": [0, -30, -48, -54, -60, 50]}


def _scale_members(v, nb, ks):
    """Multiply batch member i (row-major over the first nb dimensions of the nested list) by 2**ks[i]."""
    it = iter(ks)

    def mul(x, f):
        return [mul(y, f) for y in x] if isinstance(x, list) else x * f

    def rec(x, d):
        if d == nb:
            return mul(x, 2.0 ** next(it))
        return [rec(y, d + 1) for y in x]

    return rec(v, 0)


def _vectors(draw, batch, n, m, dt):
    vals = gen.grid(draw, tuple(batch) + (n, m), -16, 16)

    def fix(mat):  # no zero column
        for j in range(m):
            if all(mat[i][j] == 0.0 for i in range(n)):
                mat[j % n][j] = 1.0
        return mat

    return L.lit(gen._apply_mats(vals, len(batch), fix), dt)


KRON_HEADS = ("Kronecker", "KroneckerDiag", "KroneckerAddedDiag", "SumKronecker")


PSD_ONLY_HEADS = ("Interpolated", "LowRankRoot", "Kernel", "KeOps")  # classes the generator cannot make positive definite


@st.composite
def _recipe(draw, hd, dom, max_depth, ex):
    """Head class first (quota per class), then a size / batch / depth the class accepts; built with gen's makers."""
    dt = draw(st.sampled_from(["f64", "f64", "f32"]))
    cfg = gen.Cfg(dt=dt, max_dim=6, exclude=ex)
    if hd in KRON_HEADS:
        n = draw(st.sampled_from([4, 4, 6]))
    else:
        n = draw(st.sampled_from([1, 2, 2, 3, 3, 4, 4, 5, 6]))
    batch = draw(st.sampled_from(gen.BATCHES))
    if hd == "BatchRepeat" and not batch:
        batch = draw(st.sampled_from([(2,), (3,), (2, 1), (1, 3), (2, 3)]))
    depth = draw(st.integers(2, max(2, max_depth)))
    if cfg.ok(hd) and hd in gen._applicable(cfg, dom, n, n, batch, depth):
        return gen.call_maker(hd, draw, cfg, dom, n, n, batch, depth)
    return gen.gen(draw, cfg, dom, n, n, batch, depth)


@st.composite
def cases(draw, tier):
    max_depth = 3 if tier == "quick" else 4
    opn = draw(st.sampled_from(OPS))
    dom = "pd" if opn == "root_inv" else draw(st.sampled_from(["psd", "pd", "pd"]))
    ex = _exclusions()
    src = draw(st.integers(0, 9))
    if src == 0:
        r, dom2 = _spd_recipe(draw)
        if opn == "root_inv" and dom2 != "pd":
            opn = "root"
        dom = dom2
    elif src <= 7:
        hd = draw(st.sampled_from(HEADS))
        if hd in PSD_ONLY_HEADS:
            if opn == "root_inv":
                opn = "root"
            dom = "psd"
        r = draw(_recipe(hd, dom, max_depth, ex))
    else:
        r = draw(gen.recipes(dom, max_depth=max_depth, exclude=ex))
    shp = refmodel.shape(r)
    n, batch = shp[-1], tuple(shp[:-2])
    case = {"recipe": r, "dom": dom, "op": opn}
    if opn in ("cholesky", "tl_cholesky"):
        case["upper"] = draw(st.booleans())
    if opn == "root":
        case["method"] = draw(st.sampled_from(ROOT_METHODS))
    elif opn == "root_inv":
        case["method"] = draw(st.sampled_from(ROOT_INV_METHODS))
    elif opn == "diag":
        case["method"] = draw(st.sampled_from(DIAG_METHODS))
    cell = {}
    mcs = draw(st.sampled_from(["default", "default", 0, "n-1", "n"]))
    if mcs != "default":
        cell["max_cholesky_size"] = {"n-1": max(0, n - 1), "n": n}.get(mcs, mcs)
    mr = draw(st.sampled_from(["default", "default", "n-2", "n", "n+2"]))
    if mr != "default":
        cell["max_root_decomposition_size"] = max(1, {"n-2": n - 2, "n": n, "n+2": n + 2}[mr])
    fast = draw(st.sampled_from([None, None, None, True, False]))
    if fast is not None:
        cell["fast.covar_root_decomposition"] = fast
    tj = draw(st.sampled_from([None, None, None, None, 0.0, 1e-3]))
    if tj is not None:
        cell["tridiagonal_jitter"] = tj
    case["settings"] = cell
    if opn in EXACT_EIG_OPS and draw(st.integers(0, 2)) == 0:
        # an earlier factorization query on the SAME operator object (fills its caches).  Only in front of the exact
        # eigen / singular value queries: their contract does not depend on which method an earlier call selected.
        case["warm"] = draw(st.sampled_from(WARM))
    if (
        _numel(batch) >= 2
        and r["op"] in MEMBER_SCALE_HEADS
        and (opn in EXACT_EIG_OPS or (opn in ("root", "root_inv") and case.get("method") in ("symeig", "svd")))
        and draw(st.integers(0, 1)) == 0
    ):
        # batch members of very different magnitude (exact power-of-two factors): the direct eigen / singular value methods
        # are scale-free per member, and every bound below is per member
        key = {"Dense": "t", "Minimal": "t", "Diag": "d", "Toeplitz": "c"}[r["op"]]
        l = r[key]
        if "exp" not in l:
            ks = [0] + [draw(st.sampled_from(MEMBER_SCALE_EXP[R.dtype_of(r)])) for _ in range(_numel(batch) - 1)]
            l["lit"] = _scale_members(l["lit"], len(batch), ks)
            case["member_scale"] = ks
    if opn == "root_inv" and case.get("method") == "lanczos":
        m = draw(st.sampled_from([0, 0, 1, 2, 3]))
        if m:
            dt = R.dtype_of(r)
            case["init"] = _vectors(draw, batch, n, m, dt)
            if m > 1 or draw(st.booleans()):
                case["test"] = _vectors(draw, batch, n, m, dt)
    return normalise(case)


def normalise(case):
    """Generator-side avoidance (by construction) of the triggers of open findings; pure function of the case."""
    case = dict(case)
    case["settings"] = dict(case.get("settings", {}))
    avoided = []
    opened = _open_triggers()
    r = case["recipe"]
    shp = refmodel.shape(r)
    n, batch = shp[-1], tuple(shp[:-2])
    if _lz_possible(case):
        shapes = _node_shapes(r)
        if "max_iter_1" in opened:
            if case["settings"].get("max_root_decomposition_size") == 1:
                case["settings"]["max_root_decomposition_size"] = 2
                avoided.append("max_iter_1")
            if any(s[-1] == 1 or s[-2] == 1 for s in shapes) and not (n == 1 and case["op"] in ("root", "root_inv")):
                # a 1 x 1 (sub-)operator would be handed to lanczos_tridiag: use the direct method instead
                case = _direct(case)
                avoided.append("max_iter_1")
        if "leading_unit_batch_consumer" in opened and _lz_possible(case):
            ninit = L.shape_of(case["init"])[-1] if case.get("init") else 1
            if any(len(s) >= 3 and s[0] == 1 and (len(s) >= 4 or ninit > 1) for s in shapes):
                case = _direct(case)
                avoided.append("leading_unit_batch_consumer")
        if "diag_jitter_all_entries" in opened and _lz_possible(case) and case["op"] == "diag":
            if case["settings"].get("tridiagonal_jitter") != 0.0:
                case["settings"]["tridiagonal_jitter"] = 0.0
                avoided.append("diag_jitter_all_entries")
    if case["op"] == "root" and case.get("method") == "pivoted_cholesky":
        if "batch_member_exhausted_early" in opened and _numel(batch) > 1 and case.get("dom") != "pd":
            case["method"] = "symeig"
            avoided.append("batch_member_exhausted_early")
        elif bool((_reference(r)["nrm"] <= 0).any()):
            # an all-zero member: the normalised residual the routine stops on is 0/0 (its docstring asks for a
            # positive definite operator; low rank is its purpose, the zero matrix is outside it)
            case["method"] = "symeig"
            avoided.append("pivoted_cholesky_zero_member")
    ids = _open_ids()
    if "F-C02-batched-constants" in ids and _reaches_private_root(case) and any(_kpad_const_batched_diag_factor(nd) for nd in _nodes(case, "KroneckerAddedDiag")):
        # C02's open finding (ConstantDiag * batch of constants raises) is what the batched constant-Kronecker path runs
        # into when a Kronecker factor is diagonal (its eigenvector operator is a ConstantDiag)
        case = _direct(case)
        avoided.append("F-C02-batched-constants")
    if "F-C15-tri-structured-solve" in ids and case["op"] == "root_inv" and any(_chol_of_structured_tri(nd) for nd in _nodes(case, "Chol")):
        # CholLinearOperator.root_inv_decomposition inverts its factor: Triangular(<structured operator>).inverse() is C15's
        # open finding (generic solve of the wrapped operator assumes a symmetric positive definite matrix)
        case["op"] = "root"
        case.pop("init", None)
        case.pop("test", None)
        if case.get("method") == "pinverse":
            case["method"] = None
        avoided.append("F-C15-tri-structured-solve")
    if _reaches_private_root(case) and any(_kpad_singular_kron_diag(nd) for nd in _nodes(case, "KroneckerAddedDiag")):
        # precondition of the class: its Kronecker-diagonal paths form D^{-1/2} (comments in the source; the diagonal is a
        # noise term in every caller), so a diagonal with zero entries is outside the domain of these paths
        case = _direct(case)
        avoided.append("kpad_singular_diagonal(precondition)")
    for name in sorted(TRIGGERS):
        if name in opened and TRIGGERS[name](case):
            case = _avoid_own(case, name)
            avoided.append(name)
    if avoided:
        case["avoided"] = sorted(set(avoided))
    return case


def _direct(case):
    case = dict(case)
    case.pop("init", None)
    case.pop("test", None)
    if case["op"] in ("root", "root_inv", "diag"):
        case["method"] = "symeig"
    return case


def _avoid_own(case, name):
    case = dict(case)
    if name in ("kpad_kron_diag_root", "block_root_nonsquare", "sumkron_root_mismatched_factor_roots"):
        case.pop("init", None)
        case.pop("test", None)
        case["method"] = "symeig"
    elif name == "root_inv_probes_structured":
        case["init"] = _first_column(case["init"])
        if case.get("test"):
            case["test"] = _first_column(case["test"])
    elif name == "svd_of_singular_psd":
        if case["op"] in ("root", "root_inv"):
            case["method"] = "symeig"
        else:
            case["op"] = "eigh" if case["op"] == "svd" else "tl_eigh"
    elif name == "diag_evecs_times_row":
        if case["op"] in ("root", "root_inv"):
            case["method"] = "cholesky"
        else:
            case["op"] = "eigh" if case["op"] == "svd" else "tl_eigh"
    elif name == "kron_root_inv_method_ignored":
        case["method"] = None
    return case


def _first_column(l):
    v = L.value(l)
    return L.lit(v[..., :1].tolist(), l["dt"])


def strategy(tier):
    return cases(tier)


# ------------------------------------------------------------------------------------------------
# reference quantities
# ------------------------------------------------------------------------------------------------
_REF_CACHE = {}


def _reference(r):
    key = id(r)
    hit = _REF_CACHE.get(key)
    if hit is not None and hit["r"] is r:
        return hit
    try:
        A = refmodel.dense(r).to(F64)
    except Exception as e:  # pragma: no cover
        raise HarnessError("reference model raised %r" % (e,))
    if A.shape[-1] != A.shape[-2]:
        raise HarnessError("non-square PSD recipe")
    A = 0.5 * (A + A.transpose(-1, -2))
    w = torch.linalg.eigvalsh(A)
    nrm = w.abs().amax(-1)
    lmin = w.amin(-1)
    mu = 1.0
    for nd in R.walk(r):
        if nd["op"] == "Tensor":
            continue
        try:
            mu = max(mu, float(refmodel.dense_abs(nd).abs().max())) if refmodel.dense_abs(nd).numel() else mu
        except Exception:
            pass
    for l in R.float_literals(r):
        v = L.value(l, F64)
        if v.numel():
            mu = max(mu, float(v.abs().max()))
    # amplification of relative errors by structured paths that invert / symmetrise with a *part* of the operator
    # (SumKronecker: K2^{-1/2} K1 K2^{-T/2} + I; KroneckerAddedDiag: D^{-1/2} K D^{-1/2} + I; Kronecker: factor inverses):
    # gamma = (largest norm of any symmetric PSD node) / (smallest positive lambda_min of any such node) >= kappa(A)
    top = float(nrm.max()) if nrm.numel() else 0.0
    lows = [float(lmin.min())] if lmin.numel() and float(lmin.min()) > 0 else []
    for nd in R.walk(r):
        if nd is r or nd["op"] == "Tensor":
            continue
        try:
            M = refmodel.dense(nd).to(F64)
        except Exception:
            continue
        if M.dim() < 2 or M.shape[-1] != M.shape[-2] or not M.numel():
            continue
        if float((M - M.transpose(-1, -2)).abs().max()) > 1e-12 * (1.0 + float(M.abs().max())):
            continue
        wn = torch.linalg.eigvalsh(0.5 * (M + M.transpose(-1, -2)))
        if float(wn.min()) < -1e-10 * (1.0 + float(wn.abs().max())):
            continue
        top = max(top, float(wn.abs().max()))
        if float(wn.min()) > 0:
            lows.append(float(wn.min()))
    gamma = max(1.0, top / min(lows)) if lows else 1.0  # (numerically singular nodes are not inverted by any path)
    out = {"r": r, "A": A, "w": w, "nrm": nrm, "lmin": lmin, "n": A.shape[-1], "batch": tuple(A.shape[:-2]), "mu": mu, "depth": R.depth(r), "gamma": gamma}
    if len(_REF_CACHE) > 32:
        _REF_CACHE.clear()
    _REF_CACHE[key] = out
    return out


# ------------------------------------------------------------------------------------------------
# observing the library
# ------------------------------------------------------------------------------------------------
_JIT_RE = re.compile(r"added jitter of ([0-9.eE+-]+)")


def _jitter_sum(wlist):
    """Sum over psd_safe_cholesky invocations of the largest jitter they announced."""
    tot, cur = 0.0, 0.0
    for w in wlist:
        m = _JIT_RE.search(str(w.message))
        if not m:
            continue
        v = float(m.group(1))
        if v <= cur:  # a new invocation starts again at the smallest jitter
            tot += cur
        cur = v
    return tot + cur


@contextlib.contextmanager
def _record_lanczos(calls):
    import linear_operator.utils.lanczos as LZ

    orig = LZ.lanczos_tridiag

    def wrapper(matmul_closure, max_iter, dtype, device, matrix_shape, batch_shape=torch.Size(), init_vecs=None, num_init_vecs=1, tol=1e-5):
        rec = {
            "max_iter": int(max_iter),
            "n": int(matrix_shape[-1]),
            "batch": tuple(batch_shape),
            "ncols": int(init_vecs.shape[-1]) if init_vecs is not None else int(num_init_vecs),
            "done": False,
        }
        calls.append(rec)
        q, t = orig(matmul_closure, max_iter, dtype=dtype, device=device, matrix_shape=matrix_shape, batch_shape=batch_shape, init_vecs=init_vecs, num_init_vecs=num_init_vecs, tol=tol)
        rec["done"] = True
        rec["t"] = t.detach().clone()
        rec["dtype"] = t.dtype
        return q, t

    with mock.patch.object(LZ, "lanczos_tridiag", wrapper):
        yield


def _classify_runs(calls):
    """-> dict(regular, full, slack_rel (sum of relative Lanczos slacks), B (largest orthogonality level), nan)."""
    out = {"regular": True, "full": True, "slack_rel": 0.0, "B": 0.0, "unfinished": False, "max_iter_1": False, "unit_batch": False, "multi": False}
    opened = _open_triggers("C09")
    for c in calls:
        n = c["n"]
        if min(c["max_iter"], n) == 1:
            out["max_iter_1"] = True
        b = c["batch"]
        if len(b) >= 1 and b[0] == 1 and (len(b) >= 2 or c["ncols"] > 1):
            out["unit_batch"] = True
        if _numel(b) * c["ncols"] > 1:
            out["multi"] = True
        if not c["done"]:
            out["unfinished"] = True
            out["regular"] = False
            continue
        T = c["t"].to(F64)
        k = T.shape[-1]
        u = 2.0**-24 if c["dtype"] == torch.float32 else 2.0**-53
        if k < n:
            out["full"] = False
        if not bool(torch.isfinite(T).all()):
            out["regular"] = False
            continue
        Tn = T.abs().sum(-1).amax(-1)  # inf-norm >= spectral norm
        Bc = 1e-5
        if k > 1:
            beta = torch.diagonal(T, offset=1, dim1=-2, dim2=-1).abs().amin(-1)
            ratio = Tn / beta.clamp_min(1e-300)
            if bool((4.0 * n * u * ratio * ratio > 0.5).any()) or bool((beta <= 0).any()):
                out["regular"] = False
                continue
            Bc = max(Bc, float((4.0 * n * u * ratio).max()))
        jit = float(state.settings.tridiagonal_jitter.value())
        if "diag_jitter_all_entries" in opened:
            jit = jit * k
        out["slack_rel"] += jit + 16.0 * k * Bc + 128.0 * k * n * u
        out["B"] = max(out["B"], Bc)
    return out


def _to_dense64(x):
    from linear_operator.operators import LinearOperator

    if isinstance(x, LinearOperator):
        x = x.to_dense()
    if not torch.is_tensor(x):
        raise TypeError("result component is %s, neither Tensor nor LinearOperator" % type(x).__name__)
    return x.detach(), x.detach().to(F64)


# ------------------------------------------------------------------------------------------------
# the check
# ------------------------------------------------------------------------------------------------
def _opname(case):
    opn = case["op"]
    if opn in ("cholesky", "tl_cholesky"):
        return "%s:%s" % (opn, "upper" if case.get("upper") else "lower")
    if opn in ("root", "root_inv", "diag"):
        return "%s:%s" % (opn, case.get("method") or "default")
    return opn


EXACT_EIG_OPS = ("eigh", "tl_eigh", "eigvalsh", "tl_eigvalsh", "svd", "tl_svd")
WARM = ["eigh", "svd", "eigvalsh", "diag:symeig", "root:symeig", "root_inv:symeig", "diag", "cholesky", "to_dense"]


def _warm(op, kind):
    if kind == "eigh":
        op.eigh()
    elif kind == "eigvalsh":
        op.eigvalsh()
    elif kind == "svd":
        op.svd()
    elif kind == "diag:symeig":
        op.diagonalization(method="symeig")
    elif kind == "diag":
        op.diagonalization()
    elif kind == "root:symeig":
        op.root_decomposition(method="symeig")
    elif kind == "root_inv:symeig":
        op.root_inv_decomposition(method="symeig")
    elif kind == "cholesky":
        op.cholesky()
    else:
        op.to_dense()


def _call(op, case):
    opn = case["op"]
    m = case.get("method")
    if opn == "cholesky":
        return op.cholesky(upper=bool(case.get("upper")))
    if opn == "tl_cholesky":
        return torch.linalg.cholesky(op, upper=True) if case.get("upper") else torch.linalg.cholesky(op)
    if opn == "root":
        return op.root_decomposition(method=m) if m is not None else op.root_decomposition()
    if opn == "root_inv":
        kw = {}
        if case.get("init") is not None:
            kw["initial_vectors"] = L.materialise(case["init"])
        if case.get("test") is not None:
            kw["test_vectors"] = L.materialise(case["test"])
        if m is not None:
            kw["method"] = m
        return op.root_inv_decomposition(**kw)
    if opn == "eigh":
        return op.eigh()
    if opn == "tl_eigh":
        return torch.linalg.eigh(op)
    if opn == "eigvalsh":
        return op.eigvalsh()
    if opn == "tl_eigvalsh":
        return torch.linalg.eigvalsh(op)
    if opn == "svd":
        return op.svd()
    if opn == "tl_svd":
        return torch.linalg.svd(op)
    if opn == "diag":
        return op.diagonalization(method=m) if m is not None else op.diagonalization()
    raise HarnessError("unknown operation %r" % opn)


def _attribute(kind, case, runs, res_nan=False):
    """Id of an open finding of another property whose condition holds for what was observed, or None."""
    ids = _open_ids()
    if runs is not None:
        if runs["max_iter_1"] and "F-C09-max-iter-1" in ids and kind in ("exc", "shape"):
            return "F-C09-max-iter-1"
        if runs["unit_batch"] and "F-C09-leading-unit-batch" in ids and kind in ("shape", "exc"):
            return "F-C09-leading-unit-batch"
        if not runs["regular"]:
            if runs["multi"] and "F-C09-mixed-breakdown-batch" in ids:
                return "F-C09-mixed-breakdown-batch"
            if "F-C09-first-step-breakdown" in ids:
                return "F-C09-first-step-breakdown"
    if case["op"] == "root" and case.get("method") == "pivoted_cholesky" and res_nan and _numel(_batch(case)) > 1:
        if "F-C10-batch-exhausted-member" in ids:
            return "F-C10-batch-exhausted-member"
    return None


# an exception counts as the library *declining the operation* only if it has the form of an explicit "not supported"
# (lov.exc.is_declined) AND is about this factorization: raised by one of its own methods or naming it
_DECLINE = {
    "cholesky": (("cholesky", "_cholesky"), r"cholesky"),
    "root": (("root_decomposition", "_root_decomposition", "cholesky", "_cholesky"), r"root.decomposition|cholesky"),
    "root_inv": (("root_inv_decomposition", "_root_inv_decomposition", "cholesky", "_cholesky"), r"root|cholesky"),
    "eigh": (("eigh", "eigvalsh", "_symeig", "diagonalization"), r"symeig|eigh|eigenval|diagonaliz"),
    "svd": (("svd", "_svd", "_torch_linalg_svd", "_symeig"), r"svd|symeig"),
}
_DECLINE_OF = {"tl_cholesky": "cholesky", "tl_eigh": "eigh", "eigvalsh": "eigh", "tl_eigvalsh": "eigh", "diag": "eigh", "tl_svd": "svd"}


def _declined(err, opn):
    import traceback

    if not X.is_declined(err, None):
        return False
    frames, kw = _DECLINE[_DECLINE_OF.get(opn, opn)]
    tb = traceback.extract_tb(err.__traceback__)
    return bool(tb and tb[-1].name in frames) or bool(re.search(kw, str(err), re.I))


class _Skip(Exception):
    def __init__(self, label):
        self.label = label


def run_case(case):
    r = case["recipe"]
    ref = _reference(r)
    A, w_ref, nrm, lmin = ref["A"], ref["w"], ref["nrm"], ref["lmin"]
    n, batch, depth = ref["n"], ref["batch"], ref["depth"]
    dtn = R.dtype_of(r)
    dt = L.DT[dtn]
    u = U[dtn]
    head = r["op"]
    opname = _opname(case)
    labels = ["warm:" + str(case.get("warm", "none")), "op:" + opname, "head:" + head, "dtype:" + dtn, "dom:" + case.get("dom", "?"), "n:%d" % n, "batch:%d" % len(batch), "depth:%d" % depth]
    labels += ["class:" + c for c in R.classes(r)]
    for a in case.get("avoided", ()):
        labels.append("avoided:" + a)
    cell = case.get("settings", {})
    mcs = cell.get("max_cholesky_size")
    labels.append("cell:mcs=%s" % ("default" if mcs is None else ("0" if mcs == 0 else ("n" if mcs == n else ("n-1" if mcs == n - 1 else "other")))))
    mr = cell.get("max_root_decomposition_size")
    labels.append("cell:mrds=%s" % ("default" if mr is None else ("<n" if mr < n else ("n" if mr == n else ">n"))))
    labels.append("cell:fast=%s" % cell.get("fast.covar_root_decomposition", "default"))

    def fail(sub, symptom, detail):
        raise Violation("C06|%s|%s|%s|%s" % (opname, sub, head, symptom), "%s  [%s, n=%d, batch=%s, dtype=%s, settings=%s]" % (detail, R.class_path(r), n, list(batch), dtn, cell))

    # ---- construct (jitter announced while constructing, e.g. by MulLinearOperator's roots, is accounted) ----
    with warnings.catch_warnings(record=True) as wbuild:
        warnings.simplefilter("always")
        try:
            op = R._build(r, None)
        except Exception as e:
            fail("exc", "build:" + X.describe(e), "constructor raised %r" % (e,))
    jit = _jitter_sum(wbuild)

    # ---- run ----
    calls = []
    err = None
    res = None
    hook_size = None
    if case.get("warm"):
        with warnings.catch_warnings():
            warnings.simplefilter("ignore")
            with state.apply_settings(cell):
                try:
                    with torch.no_grad():
                        _warm(op, case["warm"])
                except Exception:
                    pass  # the warm-up query is judged by its own cases; a half-filled cache is still a legal history
    with warnings.catch_warnings(record=True) as wrun:
        warnings.simplefilter("always")
        with state.linalg_log() as lines, _record_lanczos(calls), state.apply_settings(cell):
            try:
                hook_size = op._root_decomposition_size()  # documented hook: the rank bound the class asks for
                res = _call(op, case)
                # results may be lazy: densify inside the settings cell (nothing here may re-dispatch on size)
                if isinstance(res, (tuple, list)):
                    parts = [(_to_dense64(x) if x is not None else None) for x in res]
                else:
                    parts = [_to_dense64(res.root if case["op"] in ("root", "root_inv") else res)]
            except Exception as e:  # noqa: BLE001
                err = e
            runs = _classify_runs(calls) if calls else None
    jit_build = jit  # announced while the operator was constructed (nested root decompositions): part of every member's matrix
    jit += _jitter_sum(wrun)
    algs = state.algorithms(lines)
    for a in algs:
        labels.append("alg:" + a)
    if not algs:
        labels.append("alg:none")
    fellback = any("Using symeig method" in str(w.message) for w in wrun)
    if fellback:
        labels.append("fallback:symeig")
    if jit > 0:
        labels.append("jitter:announced")
    lanczos_ran = bool(calls)
    if lanczos_ran:
        labels.append("lanczos:%s" % ("irregular" if not runs["regular"] else ("full" if runs["full"] else "truncated")))

    mu = ref["mu"]
    JS = 1.001 * jit * (1.0 + mu) ** max(0, depth - 1)  # (1.001: the jitter itself is rounded in the operator dtype)
    # structured paths that factor through a part of the operator amplify relative errors by gamma (see _reference)
    amp_classes = any(nd["op"] in ("SumKronecker", "KroneckerAddedDiag") for nd in R.walk(r))
    gamma = ref["gamma"]
    amp = min(gamma, 1.0 / (C_DIRECT * n * u)) if amp_classes else 1.0
    E = C_DIRECT * depth * n * u * nrm * amp  # (*batch,)
    O = C_DIRECT * depth * n * u
    singular = lmin <= 64.0 * n * u * nrm * depth + JS  # numerically singular members

    def result(nontrivial_ok=True, extra=()):
        labels.extend(extra)
        override = head in OVERRIDE_HEADS
        nondefault = case.get("method") is not None or case["op"] in ("tl_cholesky", "tl_eigh", "tl_eigvalsh", "tl_svd") or bool(case.get("upper"))
        above = mcs is not None and n > mcs
        nt = bool(nontrivial_ok and (override or nondefault or above))
        return {
            "nontrivial": nt,
            "key": case,
            "labels": labels,
            "sample": {"recipe": r, "op": opname, "settings": cell, "algorithms": algs},
        }

    # ---- exceptions ----
    if err is not None:
        from linear_operator.utils.errors import NotPSDError

        att = _attribute("exc", case, runs)
        if att:
            return result(False, ["attributed:" + att])
        if isinstance(err, NotPSDError) and "not positive definite after repeatedly adding jitter" in str(err):
            if bool(singular.any()):
                return result(False, ["outcome:notpsd-accepted"])
            fail("exc", "exc:" + X.describe(err), "NotPSDError for a well-conditioned operator (lambda_min/nrm >= %.3g): %s" % (float((lmin / nrm.clamp_min(1e-300)).min()), err))
        if _declined(err, case["op"]):
            return result(False, ["outcome:declined", "declined:%s:%s" % (head, case["op"])])
        fail("exc", "exc:" + X.describe(err), "%s raised %r" % (opname, err))

    # ---- helpers on results ----
    def expect_shape(name, t, shape):
        if tuple(t.shape) != tuple(shape):
            att = _attribute("shape", case, runs)
            if att:
                raise _Skip("attributed:" + att)
            fail("shape", "shape", "%s has shape %s, expected %s" % (name, tuple(t.shape), tuple(shape)))

    def expect_dtype(name, t):
        if t.dtype != dt:
            fail("dtype", "dtype", "%s has dtype %s, operator dtype %s" % (name, t.dtype, dt))

    def expect_finite(name, t):
        if not bool(torch.isfinite(t).all()):
            att = _attribute("finite", case, runs, res_nan=True)
            if att:
                raise _Skip("attributed:" + att)
            fail("finite", "nan", "%s contains non-finite entries" % name)

    def within(sub, what, got, want, bound, symptom="value"):
        """got, want (*batch, a, b); bound (*batch,) or float."""
        d = (got - want).abs()
        d = d.amax((-1, -2)) if d.dim() >= 2 else d
        bnd = torch.as_tensor(bound, dtype=F64).expand_as(d) + tol.TINY
        ratio = d / bnd
        worst = float(ratio.max()) if ratio.numel() else 0.0
        _rec(sub + ":" + case["op"], dtn, worst)
        if worst > 1.0 or worst != worst:
            i = int(torch.argmax(ratio.reshape(-1))) if ratio.numel() else 0
            fail(sub, symptom, "%s: max-abs error %.3g > bound %.3g (ratio %.3g, batch member %d, lambda in [%.3g, %.3g])" % (what, float(d.reshape(-1)[i]), float(bnd.reshape(-1)[i]), worst, i, float(lmin.reshape(-1)[min(i, lmin.numel() - 1)]) if lmin.numel() else 0.0, float(nrm.reshape(-1)[min(i, nrm.numel() - 1)]) if nrm.numel() else 0.0))

    eye = torch.eye(n, dtype=F64)
    mT = lambda t: t.transpose(-1, -2)  # noqa: E731

    def lanczos_recon(G, what):
        """G = R R^T (or Q diag(w) Q^T) of a Lanczos-based result, all runs regular."""
        LS = runs["slack_rel"] * nrm
        if head == "SumKronecker" and runs["slack_rel"] > 0:
            # K1 + K2 is factorised through the INVERSE roots W_i of K2's factors C_i (W_i W_i^T = C_i^{-1}, _sum_formulation):
            # a Lanczos inverse root carries the tridiagonal jitter j, i.e. W_i W_i^T = (C_i + j I)^{-1}, a relative change of
            # j / lambda_min(C_i) in C_i^{-1} that enters the product twice (W ... W^T) - not the additive j of a root of A itself
            jcur = case["settings"].get("tridiagonal_jitter")
            jcur = 1e-3 if jcur is None else float(jcur)
            for fac in r["args"][1]["args"]:
                try:
                    lm = float(torch.linalg.eigvalsh(refmodel.dense(fac).to(F64)).min())
                except Exception:
                    lm = 0.0
                if lm > 0:
                    LS = LS + 2.0 * jcur / lm * nrm
        if runs["full"]:
            within("recon", what + " = A (all Krylov spaces complete)", G, A, E + JS + LS)
            return
        thr = THR[dtn]
        ev, V = torch.linalg.eigh(0.5 * (G + mT(G)))
        top = ev.amax(-1, keepdim=True)
        keep = (ev > thr * top) & (top > 0)
        Pm = V * keep.unsqueeze(-2).to(F64)
        P = Pm @ mT(Pm)
        within("recon", what + " = P (P^T A P) P^T, P = basis of span (orthogonal compression)", G, P @ A @ P, E + JS + LS + (thr + 4.0 * u / thr) * nrm)

    try:
        opn = case["op"]
        value_checked = True
        # ------------------------------------------------------------------ cholesky
        if opn in ("cholesky", "tl_cholesky"):
            upper = bool(case.get("upper"))
            Fr, F = parts[0]
            expect_shape("factor", Fr, batch + (n, n))
            expect_dtype("factor", Fr)
            expect_finite("factor", Fr)
            off = torch.tril(F, -1) if upper else torch.triu(F, 1)
            if bool((off != 0).any()):
                fail("tri", "value", "the %s factor has non-zero entries (max %.3g) in its strict %s triangle" % ("upper" if upper else "lower", float(off.abs().max()), "lower" if upper else "upper"))
            G = mT(F) @ F if upper else F @ mT(F)
            JSm = JS
            if head in BASE_CHOLESKY_HEADS and torch.is_tensor(lmin) and lmin.numel() > 1 and JS > 0:
                # one batched psd_safe_cholesky of the dense matrix: jitter goes ONLY to the members whose factorization
                # failed; a member that is comfortably positive definite is factorized exactly, whatever its siblings need
                comfortable = (lmin >= 1e4 * n * u * nrm * depth) & (lmin > 0)
                JS_build = 1.001 * jit_build * (1.0 + mu) ** max(0, depth - 1)
                JSm = torch.where(comfortable, torch.full_like(lmin, float(JS_build)), torch.full_like(lmin, float(JS)))
            within("recon", "R^T R = A" if upper else "L L^T = A", G, A, E + JSm)
        # ------------------------------------------------------------------ roots
        elif opn == "root":
            Rr, Rm = parts[0]
            if Rr.dim() < 2 or tuple(Rr.shape[:-1]) != batch + (n,):
                expect_shape("root", Rr, batch + (n, "k"))
            expect_dtype("root", Rr)
            expect_finite("root", Rr)
            k = Rm.shape[-1]
            G = Rm @ mT(Rm)
            method = case.get("method")
            if method == "pivoted_cholesky":
                # (no bound on k is asserted: structured classes multiply the ranks of their parts -- a Kronecker product of
                #  rank-2 pivoted factors has 4 columns -- and RootLinearOperator returns its own root)
                size = min(int(hook_size), n)
                resid = A - G
                lam = torch.linalg.eigvalsh(0.5 * (resid + mT(resid))).amin(-1)
                bnd = E + JS + tol.TINY
                ratio = float(((-lam) / bnd).max())
                _rec("recon:pivchol_psd", dtn, ratio)
                if ratio > 1.0:
                    fail("recon", "value", "A - R R^T is not PSD: lambda_min = %.3g < -%.3g" % (float(lam.min()), float(bnd.max())))
                if k == n:
                    within("recon", "R R^T = A at full rank", G, A, E + JS)
                elif k < size:
                    tr = torch.diagonal(resid, dim1=-2, dim2=-1).sum(-1)
                    dmax = torch.diagonal(A, dim1=-2, dim2=-1).amax(-1)
                    bt = (1e-3 + 64.0 * n * u) * n * dmax + E + JS + tol.TINY
                    ratio = float((tr / bt).max())
                    _rec("recon:pivchol_stop", dtn, ratio)
                    if ratio > 1.0:
                        fail("recon", "value", "stopped at rank %d < %d with residual trace %.3g > %.3g" % (k, size, float(tr.max()), float(bt.max())))
            elif lanczos_ran and method in (None, "lanczos", "diagonalization"):
                if not runs["regular"]:
                    value_checked = False
                    labels.append("skip:lanczos-irregular")
                else:
                    lanczos_recon(G, "R R^T")
            else:
                within("recon", "R R^T = A", G, A, E + JS)
        elif opn == "root_inv":
            Rr, Rm = parts[0]
            if Rr.dim() < 2 or tuple(Rr.shape[:-1]) != batch + (n,):
                expect_shape("inverse root", Rr, batch + (n, "k"))
            expect_dtype("inverse root", Rr)
            expect_finite("inverse root", Rr)
            k = Rm.shape[-1]
            kappa = nrm / lmin.clamp_min(1e-300)
            if depth > 1:
                kappa = torch.maximum(kappa, torch.full_like(kappa, min(gamma, 1e300)))
            method = case.get("method")
            if bool((lmin <= 2e-7).any()):
                value_checked = False
                labels.append("skip:inverse-clamp")
            elif lanczos_ran and method in (None, "lanczos", "diagonalization", "pinverse"):
                if not runs["regular"]:
                    value_checked = False
                    labels.append("skip:lanczos-irregular")
                else:
                    bnd = 2.0 * kappa * (runs["slack_rel"] + C_DIRECT * depth * n * u) + JS / lmin
                    if float(bnd.max()) > INV_MAX:
                        value_checked = False
                        labels.append("skip:inverse-illcond")
                    else:
                        within("recon", "R^T A R = I_k (Lanczos inverse root)", mT(Rm) @ A @ Rm, torch.eye(k, dtype=F64).expand(*batch, k, k), bnd)
            else:
                bnd = C_DIRECT * depth * n * u * kappa * (amp if amp_classes else 1.0) + JS / lmin
                if float(bnd.max()) > INV_MAX:
                    value_checked = False
                    labels.append("skip:inverse-illcond")
                else:
                    within("recon", "A (R R^T) = I", A @ (Rm @ mT(Rm)), eye.expand(*batch, n, n), bnd)
        # ------------------------------------------------------------------ eigen-decompositions
        elif opn in ("eigh", "tl_eigh", "diag"):
            if len(parts) != 2 or parts[0] is None or parts[1] is None:
                fail("shape", "type", "expected (eigenvalues, eigenvectors), got %r" % ([None if p is None else tuple(p[0].shape) for p in parts],))
            (wr, wv), (Qr, Q) = parts
            lz = opn == "diag" and lanczos_ran
            if lz:
                if Qr.dim() < 2 or tuple(Qr.shape[:-1]) != batch + (n,):
                    expect_shape("eigenvectors", Qr, batch + (n, "k"))
                expect_shape("eigenvalues", wr, batch + (Qr.shape[-1],))
            else:
                expect_shape("eigenvectors", Qr, batch + (n, n))
                expect_shape("eigenvalues", wr, batch + (n,))
            expect_dtype("eigenvalues", wr)
            expect_dtype("eigenvectors", Qr)
            expect_finite("eigenvalues", wr)
            expect_finite("eigenvectors", Qr)
            k = Q.shape[-1]
            G = (Q * wv.unsqueeze(-2)) @ mT(Q)
            QtQ = mT(Q) @ Q
            Ik = torch.eye(k, dtype=F64).expand(*batch, k, k)
            if lz:
                if not runs["regular"]:
                    value_checked = False
                    labels.append("skip:lanczos-irregular")
                else:
                    zero_col = (Q == 0).all(-2)  # (*batch, k)
                    if bool(zero_col.any()):
                        labels.append("lanczos:dropped-ritz-pair")
                        bad = zero_col & ~singular.unsqueeze(-1)
                        if bool(bad.any()):
                            fail("orth", "value", "eigenvector columns are exactly zero for a member that is not numerically singular")
                    target = Ik * (~zero_col).to(F64).unsqueeze(-1)
                    within("orth", "Q^T Q = I on the kept Ritz vectors", QtQ, target, O + 2.0 * runs["B"])
                    lanczos_recon(G, "Q diag(w) Q^T")
            else:
                within("orth", "Q^T Q = I", QtQ, Ik, O)
                within("recon", "Q diag(w) Q^T = A", G, A, E + JS)
                neg = (-wv).amax(-1)
                if bool((neg > E + JS + tol.TINY).any()):
                    fail("sign", "value", "negative eigenvalue %.3g of a PSD operator (documented clamp at 0)" % float(-neg.max()))
        elif opn in ("eigvalsh", "tl_eigvalsh"):
            if len(parts) != 1:
                fail("shape", "type", "expected a tensor of eigenvalues, got a %d-tuple" % len(parts))
            wr, wv = parts[0]
            expect_shape("eigenvalues", wr, batch + (n,))
            expect_dtype("eigenvalues", wr)
            expect_finite("eigenvalues", wr)
            ws = torch.sort(wv, dim=-1)[0]
            within("recon", "sorted eigenvalues = reference eigenvalues", ws.unsqueeze(-1), w_ref.clamp_min(0.0).unsqueeze(-1), E + JS)
            neg = (-wv).amax(-1)
            if bool((neg > E + JS + tol.TINY).any()):
                fail("sign", "value", "negative eigenvalue %.3g of a PSD operator (documented clamp at 0)" % float(-neg.max()))
        # ------------------------------------------------------------------ svd
        elif opn in ("svd", "tl_svd"):
            if len(parts) != 3 or any(p is None for p in parts):
                fail("shape", "type", "expected (U, S, V), got %d components" % len(parts))
            (Ur, Um), (Sr, S), (Vr, Vm) = parts
            if opn == "tl_svd":
                Vr, Vm = mT(Vr), mT(Vm)  # torch.linalg.svd returns V^T
            expect_shape("U", Ur, batch + (n, n))
            expect_shape("S", Sr, batch + (n,))
            expect_shape("V", Vr, batch + (n, n))
            for nm, t in (("U", Ur), ("S", Sr), ("V", Vr)):
                expect_dtype(nm, t)
                expect_finite(nm, t)
            In = eye.expand(*batch, n, n)
            within("orth", "U^T U = I", mT(Um) @ Um, In, O)
            within("orth", "V^T V = I", mT(Vm) @ Vm, In, O)
            neg = (-S).amax(-1)
            if bool((neg > E + JS + tol.TINY).any()):
                fail("sign", "value", "negative singular value %.3g" % float(-neg.max()))
            within("recon", "U diag(S) V^T = A", (Um * S.unsqueeze(-2)) @ mT(Vm), A, E + JS)
        else:
            raise HarnessError("unknown operation %r" % opn)
    except _Skip as s:
        return result(False, [s.label])
    if not value_checked:
        return result(False)
    return result(True, ["outcome:checked"])


# ------------------------------------------------------------------------------------------------
# compositional blame
# ------------------------------------------------------------------------------------------------
def _psd_subrecipes(case):
    out = []
    need_pd = case["op"] == "root_inv"
    for sub in R.proper_subrecipes(case["recipe"]):
        try:
            A = refmodel.dense(sub).to(F64)
        except Exception:
            continue
        if A.dim() < 2 or A.shape[-1] != A.shape[-2] or A.numel() == 0:
            continue
        if float((A - A.transpose(-1, -2)).abs().max()) > 1e-12 * (1.0 + float(A.abs().max())):
            continue
        w = torch.linalg.eigvalsh(0.5 * (A + A.transpose(-1, -2)))
        nrm = float(w.abs().max())
        if float(w.min()) < -1e-10 * (1.0 + nrm):
            continue
        if need_pd and float(w.min()) <= 1e-3 * nrm:
            continue
        if sub["op"] in ("Tri", "KroneckerTri", "Zero", "Permutation", "TransposePermutation", "Cat", "Matmul"):
            continue
        out.append(sub)
    return out


def _blame(case):
    for sub in _psd_subrecipes(case):
        sc = {k: v for k, v in case.items() if k not in ("init", "test", "avoided")}
        sc["recipe"] = sub
        if case["op"] != "root_inv" and case.get("dom") == "pd":
            sc["dom"] = "psd"
        _PENDING.clear()
        try:
            run_case(sc)
        except Violation as v:
            v.case = sc
            return v
        except HarnessError:
            continue
    return None


def check(case):
    _PENDING.clear()
    try:
        info = run_case(case)
    except Violation as v:
        _PENDING.clear()
        if R.children(case["recipe"]):
            v2 = _blame(case)
            _PENDING.clear()
            if v2 is not None:
                raise v2
        raise v
    for k, val in _PENDING:
        if val == val and val > _RATIO.get(k, 0.0):
            _RATIO[k] = val
    _PENDING.clear()
    return info


# ------------------------------------------------------------------------------------------------
# evidence helpers
# ------------------------------------------------------------------------------------------------
def gaps(labels):
    out = []
    heads = {k.split(":", 1)[1] for k in labels if k.startswith("head:")}
    for h in sorted(set(HEADS) - heads):
        out.append("head class never generated: " + h)
    ops = {k.split(":", 1)[1] for k in labels if k.startswith("op:")}
    want = ["cholesky:lower", "cholesky:upper", "tl_cholesky:lower", "tl_cholesky:upper", "eigh", "tl_eigh", "eigvalsh", "tl_eigvalsh", "svd", "tl_svd"]
    want += ["root:%s" % (m or "default") for m in set(ROOT_METHODS)]
    want += ["root_inv:%s" % (m or "default") for m in set(ROOT_INV_METHODS)]
    want += ["diag:%s" % (m or "default") for m in set(DIAG_METHODS)]
    for o in sorted(set(want) - ops):
        out.append("operation never generated: " + o)
    for a in ("alg:lanczos", "alg:cholesky", "alg:symeig", "alg:pivchol", "lanczos:full", "lanczos:truncated", "cell:mcs=0", "cell:mcs=n", "cell:mcs=n-1", "cell:mrds=<n", "cell:mrds=>n", "cell:fast=False"):
        if not labels.get(a):
            out.append("cell never reached: " + a)
    return out


def coverage_extra():
    return {
        "tolerances": {
            "C_DIRECT": C_DIRECT,
            "E": "C_DIRECT * depth * n * u * nrm",
            "O": "C_DIRECT * depth * n * u",
            "inverse": "C_DIRECT * depth * n * u * kappa (+ JS / lambda_min), value-checked while <= %g" % INV_MAX,
            "lanczos_slack_rel": "sum over runs: tridiagonal_jitter (*k while F-C09-diag-jitter is open) + 16 k B + 128 k n u, B = max(1e-5, 4 n u |T|/beta_min)",
            "compression_rank_threshold": THR,
            "jitter_slack": "announced jitter * (1 + mu)^(depth-1)",
        },
        "largest_error_over_bound": {k: round(v, 6) for k, v in sorted(_RATIO.items())},
    }
