"""C15 -- torch.* dispatch on operators matches the methods, in either argument order (DESIGN section 4, C15).

The two registration tables of `linear_operator.operators._linear_operator` are read AT RUN TIME; every
(function, operand-order) cell is paired with an operator whose head class is drawn first, and with a second
operand of a generated kind.  Oracle = three-way agreement

    torch.f(op, ...)   ==   getattr(type(op), <registered name>)(op, ...)   ==   torch.f(dense, ...)

(the middle leg is resolved BY NAME ON THE SUBCLASS, exactly what the table promises); for reversed operands the
dense leg is `Tensor (op) dense` in that ORDER and with that SIGN.  Unregistered functions must raise
NotImplementedError from the handler.  check(case) is a pure function of the JSON case.
"""
import math

import torch
from hypothesis import strategies as st

from lov import exc as X
from lov import gen, lit as L, recipe as R, refmodel, tol
from lov.core import HarnessError, Violation

ID = "C15"
RULE = (
    "case = a cell (torch function, operand order) drawn uniformly from the run-time tables _HANDLED_FUNCTIONS / "
    "_HANDLED_SECOND_ARG_FUNCTIONS x an operator recipe whose head class is drawn first (domain as the function needs: "
    "pd for logdet/solve/cholesky, psd for eigh/eigvalsh/svd/prod, triangular with positive diagonal for solve_triangular/"
    "inverse, diagonal-like for abs/exp/log/sqrt, any otherwise; one third of the cases target a class that DEFINES its own version of the registered method; nesting<=2 (quick) / 3 (thorough), sizes 1..6, batch kinds, f32/f64) x a call "
    "form (torch.f(..), infix operator, Tensor method) x second operand kind (Tensor, 0-dim Tensor, python scalar, other "
    "operator incl. instances of a subclass of the first operand's class) x generated valid arguments (dim, dims, upper, "
    "alpha, rtol/atol, offset/dim1/dim2); 20% of the cases call an UNREGISTERED function (fixed list + a sample of "
    "torch.overrides.get_overridable_functions() minus the tables). Non-trivial: reversed operand order OR the class "
    "overrides the registered method OR the second operand is not a Tensor. Distinct by hash of (function, order, form, "
    "class path, operand kind, arguments, shapes)."
)
BUDGET = {"quick": 2000, "thorough": 4000}
SHARDS = 16
ASSUMPTIONS = [
    "generated operands are valid for the dense torch function (the invalid-shape domain belongs to C19)",
    "when the registered METHOD itself raises (declines or fails), torch.f must raise the same exception class: that is "
    "agreement for this property; the method's own failure belongs to C02/C04/C06",
    "values: exact-structure bound lov.tol.exact_bound with S from refmodel.dense_abs for add/sub/mul/div/matmul/sum/"
    "structure functions; forward-error bound C_DIRECT*n*u*cond(A)*|ref| for solve/solve_triangular/inverse, "
    "C_DIRECT*n*u*cond(A) for logdet, reconstruction bound C_DIRECT*n*u*n*|A| for cholesky/eigh/svd products and "
    "C_DIRECT*n*u*n*|A| for sorted eigen/singular values; root-decomposition slack (tol.root_slack) for operator*operator "
    "and prod (defined through root decompositions)",
    "a 1-D operand is generated only against non-batched operators",
    "ownership (blame): C15 owns the handler, the two tables, the argument handling / result conventions of the base-class "
    "public methods and the subclass overrides OF THE REGISTERED METHODS. When torch.f and the method agree with each other "
    "but not with the dense computation, the class does NOT override the registered method, and the very same call on "
    "DenseLinearOperators holding the same matrices passes, the mismatch lives in a private hook (_transpose_nonbatch, "
    "_diagonal, _sum_batch, _mul_matrix, _svd, ...) = the object of C01-C06/C14: counted (outcome:blamed_private_hook), "
    "not raised",
    "torch.f(opA, opB) with type(opB) a proper subclass of type(opA) is handed by torch to opB's handler (reflected "
    "table): such calls are judged by the dense leg only (the result class may differ; opA's own method may even fail)",
    "a constructor refusing generated arguments is counted (outcome:build_failed), never raised here (C01/C02 verdict)",
    "operators containing a Mul node (and prod) are defined through jittered root decompositions: root-decomposition slack "
    "as in C01, plus an absolute floor 1e-6*u*slack; Mul nodes are not generated for solve/logdet/factorization cells",
    "proposed findings (see FINDING_IDS) that are not yet in known_findings.json are treated as OPEN: the generator avoids "
    "exactly their triggers; a 'fixed:' status re-opens the cells",
    "whether an unregistered function reached the handler is observed by wrapping LinearOperator.__torch_function__ for the "
    "duration of that single call (restored afterwards)",
]

# ----------------------------------------------------------------------------------------------------------
# run-time tables
# ----------------------------------------------------------------------------------------------------------


def _lo():
    from linear_operator.operators import _linear_operator as M

    return M


def fn_name(f):
    n = None
    try:
        n = torch.overrides.resolve_name(f)
    except Exception:
        n = None
    if n:
        return n
    return "%s.%s" % (getattr(f, "__module__", "?"), getattr(f, "__qualname__", getattr(f, "__name__", repr(f))))


def tables():
    """({name: (function, method name)} first-argument table, same for the second-argument table) -- read now."""
    M = _lo()
    first = {fn_name(f): (f, m) for f, m in M._HANDLED_FUNCTIONS.items()}
    second = {fn_name(f): (f, m) for f, m in M._HANDLED_SECOND_ARG_FUNCTIONS.items()}
    return first, second


def cells():
    first, second = tables()
    return sorted([(n, "first") for n in first] + [(n, "second") for n in second])


def short(name):
    return name.rsplit(".", 1)[-1]


# ----------------------------------------------------------------------------------------------------------
# findings protocol: proposed entries are treated as open until known_findings.json says "fixed: ..."
# ----------------------------------------------------------------------------------------------------------
FINDING_IDS = {
    "alpha_reversed": "F-C15-alpha-reversed",
    "identity_exp": "F-C15-identity-exp",
    "constdiag_solve_triangular": "F-C15-constdiag-solve-triangular",
    "diag_solve_triangular_left": "F-C15-diag-solve-triangular-left",
    "transpose_same_dim": "F-C15-transpose-same-dim",
    "tri_structured_solve": "F-C15-tri-structured-solve",
    "isclose_reversed_rtol": "F-C15-isclose-reversed-rtol",
    "diagonal_args_ignored": "F-C15-diagonal-args-ignored",
    "diagonal_default_dims_batched": "F-C15-diagonal-default-dims",
    "explog_offdiag": "F-C15-exp-log-offdiagonal",
}
_STATUS_CACHE = {}
EXCLUDE = ()


def set_exclude(names):
    global EXCLUDE
    EXCLUDE = tuple(names)


def _entries():
    if "e" not in _STATUS_CACHE:
        from lov.findings import load

        _STATUS_CACHE["e"] = load()
    return _STATUS_CACHE["e"]


def is_open(trigger):
    fid = FINDING_IDS[trigger]
    for e in _entries():
        if e.get("id") == fid:
            return e.get("status", "open") == "open"
    return True  # proposed, not merged yet: behave as open


def _exclusions(extra=()):
    ex = set(EXCLUDE) | set(extra)
    for e in _entries():
        if e.get("status", "open") == "open":
            for nm in e.get("exclude_nodes", []):
                ex.add(nm)
    return tuple(sorted(ex))


# ----------------------------------------------------------------------------------------------------------
# generators
# ----------------------------------------------------------------------------------------------------------
FAMILY = {
    "abs": "unary",
    "exp": "unary",
    "log": "unary",
    "sqrt": "unary",
    "add": "arith",
    "sub": "arith",
    "mul": "arith",
    "div": "arith",
    "matmul": "matmul",
    "isclose": "isclose",
    "diagonal": "diagonal",
    "sum": "sum",
    "prod": "prod",
    "squeeze": "squeeze",
    "unsqueeze": "unsqueeze",
    "transpose": "transpose",
    "permute": "permute",
    "clone": "clone",
    "numel": "numel",
    "logdet": "logdet",
    "solve": "solve",
    "cholesky": "cholesky",
    "eigh": "eigh",
    "eigvalsh": "eigvalsh",
    "svd": "svd",
    "solve_triangular": "solve_triangular",
    "inverse": "inverse",
}
DIAG_HEADS = ["Diag", "ConstantDiag", "Identity", "KroneckerDiag"]
TRI_HEADS = ["TriT", "TriBase", "KroneckerTri"]
# (head of the first operand, head of the second operand, domain): the second is an instance of a SUBCLASS of the
# first one's class, so torch hands the call to the second operand's handler (reversed-operand table)
SUBCLASS_PAIRS = [
    ("TriT", "Diag", "tril"),
    ("TriT", "ConstantDiag", "triu"),
    ("Diag", "ConstantDiag", "any"),
    ("Diag", "Identity", "any"),
    ("Kronecker", "KroneckerDiag", "any"),
    ("Kronecker", "KroneckerTri", "any"),
    ("Sum", "PsdSum", "psd"),
    ("AddedDiag", "KroneckerAddedDiag", "psd"),
    ("AddedDiag", "LowRankRootAddedDiag", "psd"),
]
SMALL_BATCHES = [(), (), (), (1,), (2,), (3,), (1, 1), (2, 1), (1, 3), (2, 3)]
NONEMPTY_BATCHES = [(1,), (2,), (3,), (2, 1), (1, 3), (2, 3), (3, 2)]


def _family(name):
    return FAMILY.get(short(name).lstrip("_"), "generic")


def _recipe_of(draw, dom, m, n, batch, dt, depth, head=None, extra=()):
    if dt != "f32":
        # permutation operators carry no floating data and declare float32: they pair only with float32 operands
        extra = tuple(extra) + ("Permutation", "TransposePermutation")
    cfg = gen.Cfg(dt=dt, exclude=_exclusions(extra))
    d = max(depth, 2)
    if head is not None and head in gen._applicable(cfg, dom, m, n, tuple(batch), d):
        return gen.call_maker(head, draw, cfg, dom, m, n, tuple(batch), d)
    return gen.gen(draw, cfg, dom, m, n, tuple(batch), draw(st.integers(1, depth)))


def _op(draw, dom, depth, heads=None, batches=None, max_dim=5, square=None, extra=(), prefer=None):
    """Head-first operator recipe of the requested domain (`prefer`: a head whose class overrides the method under test)."""
    ex = _exclusions(extra)
    if prefer is not None and prefer not in extra:
        r = _op_pref(draw, dom, depth, prefer, batches, max_dim, ex)
        if r is not None:
            return r
    if heads is not None:
        heads = [h for h in heads if h not in extra]
    if heads is not None:
        return draw(gen.recipes(dom, max_depth=depth, max_dim=max_dim, exclude=ex, head=list(heads), batches=batches, square=square))
    if square and dom == "any":
        return draw(gen.recipes("any", max_depth=depth, max_dim=max_dim, exclude=ex, batches=batches, square=True, head=sorted(gen.PREDS)))
    return draw(gen.head_first_recipes(dom, max_depth=depth, max_dim=max_dim, exclude=ex, batches=batches))


def _op_pref(draw, dom, depth, prefer, batches, max_dim, ex):
    dt = draw(st.sampled_from(["f64", "f64", "f32"]))
    batch = tuple(draw(st.sampled_from(batches or SMALL_BATCHES)))
    cfg = gen.Cfg(dt=dt, exclude=ex)
    if not cfg.ok(prefer):
        return None
    d = max(depth, 2)
    sizes = [n for n in (1, 2, 3, 4, 4, 5, 6) if n <= max(max_dim, 4) + 1 and prefer in gen._applicable(cfg, dom, n, n, batch, d)]
    if not sizes:
        return None
    n = draw(st.sampled_from(sizes))
    return gen.call_maker(prefer, draw, cfg, dom, n, n, batch, d)


# library class -> recipe heads that build an instance of it (targets for the per-override quota)
CLASS_HEADS = {
    "DenseLinearOperator": ["Dense"],
    "DiagLinearOperator": ["Diag"],
    "ConstantDiagLinearOperator": ["ConstantDiag"],
    "IdentityLinearOperator": ["Identity"],
    "ZeroLinearOperator": ["Zero"],
    "ToeplitzLinearOperator": ["Toeplitz"],
    "TriangularLinearOperator": ["TriT", "TriBase"],
    "CholLinearOperator": ["Chol"],
    "RootLinearOperator": ["Root"],
    "LowRankRootLinearOperator": ["LowRankRoot"],
    "KroneckerProductLinearOperator": ["Kronecker"],
    "KroneckerProductTriangularLinearOperator": ["KroneckerTri"],
    "KroneckerProductDiagLinearOperator": ["KroneckerDiag"],
    "KroneckerProductAddedDiagLinearOperator": ["KroneckerAddedDiag"],
    "SumKroneckerLinearOperator": ["SumKronecker"],
    "AddedDiagLinearOperator": ["AddedDiag"],
    "LowRankRootAddedDiagLinearOperator": ["LowRankRootAddedDiag"],
    "SumLinearOperator": ["Sum"],
    "PsdSumLinearOperator": ["PsdSum"],
    "MatmulLinearOperator": ["Matmul"],
    "MulLinearOperator": ["Mul"],
    "ConstantMulLinearOperator": ["ConstantMul"],
    "BlockDiagLinearOperator": ["BlockDiag"],
    "BlockInterleavedLinearOperator": ["BlockInterleaved"],
    "SumBatchLinearOperator": ["SumBatch"],
    "BatchRepeatLinearOperator": ["BatchRepeat"],
    "CatLinearOperator": ["Cat"],
    "InterpolatedLinearOperator": ["Interpolated"],
    "MaskedLinearOperator": ["Masked"],
    "AbstractPermutationLinearOperator": ["Permutation", "TransposePermutation"],
    "PermutationLinearOperator": ["Permutation"],
    "TransposePermutationLinearOperator": ["TransposePermutation"],
    "KernelLinearOperator": ["Kernel"],
    "KeOpsLinearOperator": ["KeOps"],
}


def override_heads(name, order):
    """Recipe heads of the classes that define their own version of the method registered for this cell (read now)."""
    from linear_operator import operators as O

    first, second = tables()
    tab = first if order == "first" else second
    if name not in tab:
        return []
    mname = tab[name][1]
    LO = _lo().LinearOperator
    out = []
    for _, k in sorted(vars(O).items()):
        if isinstance(k, type) and issubclass(k, LO) and k is not LO and mname in k.__dict__:
            out.extend(CLASS_HEADS.get(k.__name__, []))
    return sorted(set(out))


def _tensor_like(draw, shape, dt, lo=-16, hi=16, nonzero=False):
    cfg = gen.Cfg(dt=dt, wide=False)
    l = gen.flit(draw, cfg, tuple(shape), lo, hi)
    if nonzero:
        l["lit"] = gen._map2(l["lit"], lambda v: v if v != 0 else 0.5)
    return l


def _scalar(draw, nonzero=False):
    k = draw(st.integers(-24, 24))
    if nonzero and k == 0:
        k = 3
    return k / 8.0


def _forms(name, order):
    if name.startswith("torch.Tensor."):
        return ["func", "binop", "tmethod"]
    if order == "first" and short(name) in ("add", "sub", "mul", "div", "matmul"):
        return ["func", "func", "binop"]
    return ["func"]


def g_unary(draw, name, order, depth, prefer=None):
    b = short(name)
    u = draw(st.integers(0, 9))
    extra = ("Identity",) if (b == "exp" and is_open("identity_exp")) else ()
    pos = b in ("log", "sqrt")
    if prefer is not None:
        if prefer in TRI_HEADS:
            dom = draw(st.sampled_from(["tril+", "triu+"] if pos else ["tril", "triu", "tril+", "triu+"]))
        else:
            dom = "pd" if pos or draw(st.booleans()) else "any"
        r = _op(draw, dom, depth, extra=extra, prefer=prefer)
    elif u < 4:
        dom = "pd" if pos or draw(st.booleans()) else "any"
        r = _op(draw, dom, depth, heads=DIAG_HEADS, extra=extra)
    elif u < 6:
        dom = draw(st.sampled_from(["tril+", "triu+"] if pos else ["tril", "triu", "tril+", "triu+"]))
        r = _op(draw, dom, depth, heads=TRI_HEADS, extra=extra)
    else:
        r = _op(draw, "any", depth, extra=extra)
    kw = {}
    if b in ("exp", "log") and is_open("explog_offdiag"):
        kw["support_only"] = True
    return {"kind": "reg", "fn": name, "order": order, "form": "func", "recipe": r, "kw": kw}


def g_arith(draw, name, order, depth, prefer=None):
    b = short(name)
    form = draw(st.sampled_from(_forms(name, order)))
    kinds = ["tensor", "tensor", "tensor", "tensor"]
    if b in ("mul", "div"):
        kinds += ["tensor0", "scalar", "scalar"]
    elif draw(st.integers(0, 1)):
        kinds += ["scalar"]  # (op + number raises TypeError in SumLinearOperator: kept as a thin, labelled cell)
    if order == "first" and b != "div":
        kinds += ["op", "op"]
    kind = draw(st.sampled_from(kinds))
    if form == "tmethod" and kind == "scalar":
        kind = "tensor"
    if name.startswith("torch.Tensor.") and form == "func" and kind == "scalar":
        kind = "tensor"
    kw = {}
    if kind == "op":
        pair = draw(st.sampled_from(SUBCLASS_PAIRS + [None] * len(SUBCLASS_PAIRS)))
        n = draw(st.sampled_from([1, 2, 3, 4, 4, 6]))
        batch = draw(st.sampled_from(SMALL_BATCHES))
        dt = draw(st.sampled_from(["f64", "f64", "f32"]))
        if pair is not None:
            ha, hb, dom = pair
        else:
            ha = draw(st.sampled_from(sorted(gen.PREDS)))
            hb = draw(st.sampled_from(sorted(gen.PREDS)))
            dom = "psd" if b == "mul" else draw(st.sampled_from(["any", "psd"]))
        r = _recipe_of(draw, dom, n, n, batch, dt, depth, head=ha)
        other = {"k": "op", "recipe": _recipe_of(draw, dom, n, n, gen.sub_batch(draw, batch), dt, depth, head=hb)}
    else:
        r = _op(draw, "any", depth, prefer=prefer)
        shp = refmodel.shape(r)
        dt = R.dtype_of(r)
        if kind == "scalar" and b in ("add", "sub") and r["op"] == "Zero":
            kind = "tensor"  # (Zero +- number returns the bare python number: C02's Zero-arithmetic domain)
        if kind == "scalar":
            other = {"k": "scalar", "s": _scalar(draw, nonzero=(b == "div"))}
        elif kind == "tensor0":
            other = {"k": "tensor", "t": _tensor_like(draw, (), dt, -24, 24, nonzero=(b == "div"))}
        else:
            tshape = shp
            if b in ("mul", "div") and tuple(shp[-2:]) == (1, 1):
                tshape = (1, 1)  # a (.., 1, 1) operand is a *batch of constants*: C02's domain
            elif draw(st.integers(0, 3)) == 0:
                tshape = tuple(gen.sub_batch(draw, shp[:-2])) + tuple(shp[-2:])
            other = {"k": "tensor", "t": _tensor_like(draw, tshape, dt, 1 if b == "div" else -16, 16, nonzero=(b == "div"))}
            if b == "div" and draw(st.booleans()):
                other["t"]["lit"] = gen._map2(other["t"]["lit"], lambda v: -v)
    if b in ("add", "sub") and kind == "op" and r["op"] == "Root" and other["recipe"]["op"] in ("Chol", "LowRankRoot"):
        # Root +- <instance of a Root subclass> is served by the subclass' reflected handler ((-b) + a, b + a): that is
        # add_low_rank on an operand it was not written for -- the preconditions of `+ RootLinearOperator` are C02's domain
        shp = refmodel.shape(other["recipe"])
        other = {"k": "op", "recipe": _recipe_of(draw, "psd", shp[-1], shp[-1], shp[:-2], R.dtype_of(r), 1, head="Dense")}
    if b in ("add", "sub") and form in ("func", "tmethod") and draw(st.integers(0, 7 if name.startswith("torch.Tensor.") else 2)) == 0:
        kw["alpha"] = draw(st.sampled_from([2, -1, 0.5, 3]))
        if is_open("alpha_reversed") and _t_alpha({"kind": "reg", "fn": name, "order": order, "other": other, "kw": kw}):
            kw = {}
    return {"kind": "reg", "fn": name, "order": order, "form": form, "recipe": r, "other": other, "kw": kw}


def g_matmul(draw, name, order, depth, prefer=None):
    form = draw(st.sampled_from(_forms(name, order)))
    if order == "first" and prefer is None and draw(st.integers(0, 3)) == 0:
        pair = draw(st.sampled_from(SUBCLASS_PAIRS + [None] * 6))
        n = draw(st.sampled_from([1, 2, 3, 4, 4, 6]))
        batch = draw(st.sampled_from(SMALL_BATCHES))
        dt = draw(st.sampled_from(["f64", "f64", "f32"]))
        if pair is not None:
            ha, hb, dom = pair
            r = _recipe_of(draw, dom, n, n, batch, dt, depth, head=ha)
            o = _recipe_of(draw, dom, n, n, gen.sub_batch(draw, batch), dt, depth, head=hb)
        else:
            r = _recipe_of(draw, "any", draw(st.integers(1, 5)), n, batch, dt, depth, head=draw(st.sampled_from(sorted(gen.PREDS))))
            o = _recipe_of(draw, "any", n, draw(st.integers(1, 4)), gen.sub_batch(draw, batch), dt, depth, head=draw(st.sampled_from(sorted(gen.PREDS))))
        return {"kind": "reg", "fn": name, "order": order, "form": form, "recipe": r, "other": {"k": "op", "recipe": o}, "kw": {}}
    r = _op(draw, "any", depth, prefer=prefer)
    shp = refmodel.shape(r)
    dt = R.dtype_of(r)
    if order == "second":
        shp = shp[:-2] + (shp[-1], shp[-2])  # generate a right operand of op^T, use its transpose on the left
    kind, rl = draw(gen.rhs_for(shp, dt, allow_vector=(len(shp) == 2)))
    other = {"k": "tensor", "t": rl, "rk": kind}
    if order == "second" and kind != "vector":
        other["T"] = True
    return {"kind": "reg", "fn": name, "order": order, "form": form, "recipe": r, "other": other, "kw": {}}


def g_isclose(draw, name, order, depth, prefer=None):
    r = _op(draw, "any", depth, prefer=prefer)
    shp = refmodel.shape(r)
    kw = {}
    u = draw(st.integers(0, 3))
    if u == 1:
        kw["atol"] = draw(st.sampled_from([0.0, 0.25, 1.0]))
    if u >= 2 and not (order == "second" and is_open("isclose_reversed_rtol")):
        kw["rtol"] = draw(st.sampled_from([0.0, 0.5, 0.25]))
        kw["atol"] = draw(st.sampled_from([0.0, 0.125]))
    if order == "second" and is_open("isclose_reversed_rtol") and u >= 2:
        kw["rtol"] = 0.0
        kw["atol"] = draw(st.sampled_from([0.0, 0.125, 0.5]))
    # the other operand = dense * factor + shift, elementwise from small menus (computed in check from the reference)
    n = int(torch.Size(shp).numel())
    other = {
        "k": "near",
        "mul": draw(st.lists(st.sampled_from([1.0, 1.0, 0.625, 1.5, 3.0]), min_size=min(n, 8), max_size=min(n, 8))),
        "add": draw(st.lists(st.sampled_from([0.0, 0.0, 0.0625, -0.75]), min_size=min(n, 8), max_size=min(n, 8))),
    }
    case = {"kind": "reg", "fn": name, "order": order, "form": "func", "recipe": r, "other": other, "kw": kw}
    if "rtol" in kw and "atol" in kw and draw(st.booleans()):
        case["posargs"] = draw(st.sampled_from(["rtol", "rtol_atol"]))  # torch.isclose(a, b, rtol[, atol]) positionally
    return case


def g_diagonal(draw, name, order, depth, prefer=None):
    r = _op(draw, "any", depth, square=True, prefer=prefer)
    nd = len(refmodel.shape(r))
    forms = ["negdims", "negdims", "negdims_swapped", "offset_negdims", "posdims"]
    if nd == 2:
        forms += ["default", "default"]
    if not is_open("diagonal_args_ignored"):
        forms += ["offset_posdims"] + (["batchdims"] if nd > 2 else [])
        if nd == 2 or not is_open("diagonal_default_dims_batched"):
            forms += ["default"]
    af = draw(st.sampled_from(forms))
    kw = {}
    if af == "negdims":
        kw = {"dim1": -2, "dim2": -1}
    elif af == "negdims_swapped":
        kw = {"dim1": -1, "dim2": -2}
    elif af == "offset_negdims":
        kw = {"offset": draw(st.sampled_from([1, -1, 2])), "dim1": -2, "dim2": -1}
    elif af == "posdims":
        kw = {"dim1": nd - 2, "dim2": nd - 1}
    elif af == "offset_posdims":
        kw = {"offset": draw(st.sampled_from([1, -1])), "dim1": nd - 2, "dim2": nd - 1}
    elif af == "batchdims":
        kw = {"dim1": 0, "dim2": nd - 1}
    case = {"kind": "reg", "fn": name, "order": order, "form": "func", "recipe": r, "kw": kw, "argform": af}
    if {"offset", "dim1", "dim2"} <= set(kw) and draw(st.booleans()):
        case["posargs"] = "offset_dims"  # torch.diagonal(a, offset, dim1, dim2) positionally
    return case


def g_dim(draw, name, order, depth, prefer=None):
    fam = _family(name)
    if fam == "prod":
        r = _op(draw, draw(st.sampled_from(["pd", "psd"])), depth, batches=NONEMPTY_BATCHES, max_dim=4, prefer=prefer)
    else:
        r = _op(draw, "any", depth, prefer=prefer)
    shp = refmodel.shape(r)
    nd = len(shp)
    kw = {}
    if fam == "sum":
        if draw(st.integers(0, 5)) != 0:
            kw["dim"] = draw(st.integers(-nd, nd - 1))
    elif fam == "prod":
        nb = nd - 2
        d = draw(st.integers(0, nb - 1)) if draw(st.integers(0, 5)) else draw(st.integers(nb, nd - 1))
        kw["dim"] = d - nd if draw(st.booleans()) else d
    elif fam == "squeeze":
        ones = [i for i in range(nd) if shp[i] == 1]
        d = draw(st.sampled_from(ones)) if ones and draw(st.booleans()) else draw(st.integers(0, nd - 1))
        kw["dim"] = d - nd if draw(st.booleans()) else d
    elif fam == "unsqueeze":
        nb = nd - 2
        d = draw(st.integers(0, nb)) if draw(st.integers(0, 5)) else draw(st.integers(nb + 1, nd))
        kw["dim"] = d - (nd + 1) if draw(st.booleans()) else d
    elif fam == "transpose":
        nb = nd - 2
        if nb >= 2 and draw(st.booleans()):
            d1, d2 = draw(st.integers(0, nb - 1)), draw(st.integers(0, nb - 1))
        elif draw(st.integers(0, 3)):
            d1, d2 = nd - 2, nd - 1
            if draw(st.booleans()):
                d1, d2 = d2, d1
        else:
            d1, d2 = draw(st.integers(0, nd - 1)), draw(st.integers(0, nd - 1))
        if d1 == d2 and is_open("transpose_same_dim"):
            d1, d2 = nd - 2, nd - 1
        kw["dim1"] = d1 - nd if draw(st.booleans()) else d1
        kw["dim2"] = d2 - nd if draw(st.booleans()) else d2
    elif fam == "permute":
        nb = nd - 2
        if draw(st.integers(0, 4)):
            dims = list(draw(st.permutations(list(range(nb))))) + [nd - 2, nd - 1]
        else:
            dims = list(draw(st.permutations(list(range(nd)))))
        if draw(st.booleans()):
            dims = [d - nd for d in dims]
        kw["dims"] = dims
    kw["pos"] = bool(draw(st.booleans()))  # pass positionally or by keyword
    return {"kind": "reg", "fn": name, "order": order, "form": "func", "recipe": r, "kw": kw}


def g_plain(draw, name, order, depth, prefer=None):
    return {"kind": "reg", "fn": name, "order": order, "form": "func", "recipe": _op(draw, "any", depth, prefer=prefer), "kw": {}}


NO_MUL = ("Mul",)  # elementwise products of operators are *defined* through (jittered) root decompositions: C02/C06


def _pd_op(draw, depth, psd_ok=False, tri=True, extra=(), prefer=None):
    u = draw(st.integers(0, 9))
    ex = NO_MUL + tuple(extra)
    if tri and (u == 0 or prefer in TRI_HEADS):
        # (logdet / solve assume a symmetric positive definite operator; the triangular classes override them)
        r = _op(draw, draw(st.sampled_from(["tril+", "triu+"])), depth, heads=TRI_HEADS + ["Diag"], max_dim=4, extra=ex, prefer=prefer)
        if r["op"] in ("Tri", "KroneckerTri") or gen.is_diag_instance(r):
            return r
    dom = "psd" if (psd_ok and u < 5) else "pd"
    return _op(draw, dom, depth, max_dim=4, extra=ex, prefer=prefer)


def g_direct(draw, name, order, depth, prefer=None):
    fam = _family(name)
    kw = {}
    other = None
    if fam in ("solve", "solve_triangular", "inverse") and is_open("tri_structured_solve"):
        # the generator avoids Triangular(<structured operator>) in the solve-type cells while the finding is open
        if prefer == "TriBase":
            prefer = "TriT"
        case = _g_direct(draw, name, order, depth, prefer, fam, kw, other, no_tribase=True)
    else:
        case = _g_direct(draw, name, order, depth, prefer, fam, kw, other, no_tribase=False)
    return case


def _g_direct(draw, name, order, depth, prefer, fam, kw, other, no_tribase):
    global NO_MUL
    saved = NO_MUL
    if no_tribase:
        NO_MUL = saved + ("TriBase",)
    try:
        return _g_direct_body(draw, name, order, depth, prefer, fam, kw, other)
    finally:
        NO_MUL = saved


def _g_direct_body(draw, name, order, depth, prefer, fam, kw, other):
    if fam in ("logdet", "cholesky"):
        r = _pd_op(draw, depth, tri=(fam == "logdet"), prefer=prefer)
        if fam == "cholesky":
            u = draw(st.integers(0, 2))
            if u:
                kw["upper"] = u == 2
    elif fam in ("eigh", "eigvalsh", "svd"):
        r = _pd_op(draw, depth, psd_ok=True, tri=False, prefer=prefer)
    elif fam == "solve":
        r = _pd_op(draw, depth, prefer=prefer)
    elif fam == "solve_triangular":
        dom = draw(st.sampled_from(["tril+", "triu+"]))
        r = _op(draw, dom, depth, heads=(TRI_HEADS + ["Diag", "ConstantDiag", "KroneckerDiag"]) if draw(st.integers(0, 4)) else None, max_dim=4, extra=NO_MUL, prefer=prefer)
        if is_open("constdiag_solve_triangular") and _t_constdiag({"kind": "reg", "fn": name, "recipe": r}):
            shp = refmodel.shape(r)
            r = _recipe_of(draw, dom, shp[-1], shp[-1], shp[:-2], R.dtype_of(r), 1, head="Diag")
        up = r.get("upper") if r["op"] in ("Tri", "KroneckerTri") else (dom == "triu+")
        if gen.is_diag_instance(r) and draw(st.booleans()):
            up = not up
        kw["upper"] = bool(up)
        if draw(st.integers(0, 7)) == 0:
            kw["left"] = False
            if is_open("diag_solve_triangular_left") and _t_diag_left({"kind": "reg", "fn": name, "recipe": r, "kw": kw}):
                del kw["left"]
    elif fam == "inverse":
        u = draw(st.integers(0, 9))
        if prefer in TRI_HEADS + DIAG_HEADS:
            u = 0
        elif prefer in ("Permutation", "TransposePermutation"):
            u = 4
        elif prefer is not None:
            u = 9
        if u < 4:
            r = _op(draw, draw(st.sampled_from(["tril+", "triu+"])), depth, heads=TRI_HEADS + DIAG_HEADS, max_dim=4, extra=NO_MUL, prefer=prefer)
        elif u < 5:
            r = _recipe_of(draw, "any", (n_ := draw(st.integers(1, 4))), n_, draw(st.sampled_from(SMALL_BATCHES)), "f32", depth, head="Permutation")
            if r["op"] != "Permutation":
                r = _op(draw, "pd", depth, max_dim=4, extra=NO_MUL)
        else:
            r = _op(draw, "pd", depth, heads=["Chol", "Kronecker", "Diag", "KroneckerDiag", "ConstantDiag", "Identity"] if u < 8 else None, max_dim=4, extra=NO_MUL, prefer=prefer)
    else:
        r = _pd_op(draw, depth, prefer=prefer)
    if fam in ("solve", "solve_triangular"):
        shp = refmodel.shape(r)
        dt = R.dtype_of(r)
        if fam == "solve_triangular" and kw.get("left") is False:
            k = draw(st.integers(1, 3))
            other = {"k": "tensor", "t": _tensor_like(draw, tuple(shp[:-2]) + (k, shp[-1]), dt), "rk": "left_false"}
        else:
            kind, rl = draw(gen.rhs_for(shp, dt, allow_vector=(fam == "solve" and len(shp) == 2)))
            if fam == "solve" and len(shp) > 2 and tuple(L.shape_of(rl)) == tuple(shp[:-1]):
                # torch.linalg.solve reads a B of shape A.shape[:-1] as a batch of VECTORS: ambiguous, use a full batch
                kind, rl = "batched", _tensor_like(draw, tuple(shp[:-1]) + (2,), dt)
            other = {"k": "tensor", "t": rl, "rk": kind}
    case = {"kind": "reg", "fn": name, "order": order, "form": "func", "recipe": r, "kw": kw}
    if other is not None:
        case["other"] = other
    return case


GENS = {
    "unary": g_unary,
    "arith": g_arith,
    "matmul": g_matmul,
    "isclose": g_isclose,
    "diagonal": g_diagonal,
    "sum": g_dim,
    "prod": g_dim,
    "squeeze": g_dim,
    "unsqueeze": g_dim,
    "transpose": g_dim,
    "permute": g_dim,
    "clone": g_plain,
    "numel": g_plain,
    "generic": g_plain,
    "logdet": g_direct,
    "solve": g_direct,
    "cholesky": g_direct,
    "eigh": g_direct,
    "eigvalsh": g_direct,
    "svd": g_direct,
    "solve_triangular": g_direct,
    "inverse": g_direct,
}

# ---- unregistered functions ----------------------------------------------------------------------------------
# name -> argument forms.  X = the operator (dense matrix for the validity probe), T = a Tensor of X's shape, v = 1-D
UNREG_FIXED = {
    "torch.trace": ["X"],
    "torch.det": ["X"],
    "torch.linalg.det": ["X"],
    "torch.linalg.slogdet": ["X"],
    "torch.linalg.inv": ["X"],
    "torch.linalg.pinv": ["X"],
    "torch.linalg.matrix_exp": ["X"],
    "torch.linalg.norm": ["X"],
    "torch.linalg.matrix_norm": ["X"],
    "torch.linalg.svdvals": ["X"],
    "torch.linalg.eigvals": ["X"],
    "torch.linalg.matrix_rank": ["X"],
    "torch.linalg.multi_dot": ["[X,T]", "[T,X]"],
    "torch.linalg.cholesky_ex": ["X"],
    "torch.linalg.inv_ex": ["X"],
    "torch.linalg.lstsq": ["X,T"],
    "torch.linalg.qr": ["X"],
    "torch.cholesky_inverse": ["X"],
    "torch.cholesky_solve": ["T,X", "X,T"],
    "torch.stack": ["[X,X]", "[T,X]"],
    "torch.cat": ["[X,X]", "[X,T]"],
    "torch.kron": ["X,X", "T,X", "X,T"],
    "torch.div": ["T,X"],
    "torch.true_divide": ["T,X", "X,T"],
    "torch.Tensor.div": ["T,X"],
    "torch.Tensor.__truediv__": ["T,X"],
    "torch.Tensor.__rsub__": ["T,X"],
    "torch.rsub": ["T,X", "X,T"],
    "torch.tril": ["X"],
    "torch.triu": ["X"],
    "torch.neg": ["X"],
    "torch.t": ["X"],
    "torch.diag": ["X"],
    "torch.mm": ["X,T", "T,X"],
    "torch.mv": ["X,v"],
    "torch.addmm": ["T,X,T", "T,T,X"],
    "torch.nn.functional.linear": ["T,X"],
    "torch.where": ["C,X,T", "C,T,X"],
    "torch.allclose": ["X,T", "T,X"],
    "torch.equal": ["X,T", "T,X"],
    "torch.zeros_like": ["X"],
    "torch.ones_like": ["X"],
    "torch.flatten": ["X"],
    "torch.mean": ["X"],
    "torch.max": ["X"],
    "torch.square": ["X"],
    "torch.pow": ["X,2"],
    "torch.matrix_power": ["X,2"],
    "torch.cumsum": ["X,0"],
    "torch.tensordot": ["X,T"],
    "torch.dist": ["X,T", "T,X"],
    "torch.maximum": ["X,T", "T,X"],
    "torch.Tensor.matmul": ["X,T"],  # registered only for the reversed order
    "torch.Tensor.__rmatmul__": ["T,X"],
    "torch.lu": ["X"],
    "torch.linalg.eig": ["X"],
}
SAMPLED_FORMS = ["X", "X,X", "T,X", "X,T", "[X,X]", "[T,X]"]
DENY = ("share_memory", "pin_memory", "autocast", "backward", "cuda", "is_shared", "__setstate__", "__reduce", "__deepcopy__", "dlpack", "numpy", "__array")
_OVR = {}


def _overridable():
    """{resolved name: function} of every overridable torch function that is NOT a key of the run-time tables."""
    if "m" not in _OVR:
        first, second = tables()
        reg = {f for f, _ in first.values()} | {f for f, _ in second.values()}
        out = {}
        for _, lst in torch.overrides.get_overridable_functions().items():
            for f in lst:
                if f in reg:
                    continue
                try:
                    n = torch.overrides.resolve_name(f)
                except Exception:
                    n = None
                if not n or any(d in n for d in DENY) or n in out:
                    continue
                out[n] = f
        _OVR["m"] = out
        _OVR["names"] = sorted(out)
    return _OVR["m"]


def _walk(name):
    obj = torch
    parts = name.split(".")
    if parts[0] != "torch":
        return None
    for p in parts[1:]:
        obj = getattr(obj, p, None)
        if obj is None:
            return None
    return obj


def g_unreg(draw, depth, sampled):
    if sampled:
        _overridable()
        names = _OVR["names"]
        name = names[draw(st.integers(0, len(names) - 1))]
        form = draw(st.sampled_from(SAMPLED_FORMS))
    else:
        name = draw(st.sampled_from(sorted(UNREG_FIXED)))
        form = draw(st.sampled_from(UNREG_FIXED[name]))
    n = draw(st.integers(1, 4))
    dt = draw(st.sampled_from(["f64", "f64", "f32"]))
    head = draw(st.sampled_from(sorted(gen.PREDS)))
    dom = draw(st.sampled_from(["pd", "pd", "any"])) if sampled else "pd"
    r = _recipe_of(draw, dom, n, n, (), dt, depth, head=head)
    t = _tensor_like(draw, (n, n), dt, 1, 16)
    return {"kind": "unreg", "fn": name, "form": form, "recipe": r, "t": t, "sampled": bool(sampled)}


@st.composite
def cases(draw, tier):
    depth = 2 if tier == "quick" else 3
    u = draw(st.integers(0, 19))
    if u == 19 and draw(st.booleans()):
        return g_isclose_nan(draw)
    if u < 2:
        return g_unreg(draw, depth, sampled=False)
    if u < 4:
        return g_unreg(draw, depth, sampled=True)
    name, order = draw(st.sampled_from(cells()))
    prefer = None
    if draw(st.integers(0, 2)) == 0:
        # per-override quota: a class that defines its own version of the registered method
        ov = override_heads(name, order)
        if ov:
            prefer = draw(st.sampled_from(ov))
    return GENS[_family(name)](draw, name, order, depth, prefer)


def strategy(tier):
    return cases(tier)


# ----------------------------------------------------------------------------------------------------------
# execution
# ----------------------------------------------------------------------------------------------------------
F64 = torch.float64


def _is_op(x):
    return isinstance(x, _lo().LinearOperator)


def _tsig(x):
    if torch.is_tensor(x):
        return "Tensor"
    if _is_op(x):
        return type(x).__name__
    if isinstance(x, (tuple, list)):
        return "(" + ",".join(_tsig(y) for y in x) + ")"
    return type(x).__name__


def _ksig(x):
    if _is_op(x):
        return "LinearOperator"
    if isinstance(x, (tuple, list)):
        return "(" + ",".join(_ksig(y) for y in x) + ")"
    return _tsig(x)


def _dense(x, what):
    """Densify a library result (operator or tensor) into a float64 tensor."""
    if _is_op(x):
        x = x.to_dense()
    if not torch.is_tensor(x):
        raise _Bad("type", "%s is %s, neither Tensor nor LinearOperator" % (what, type(x).__name__))
    return x


class _Bad(Exception):
    def __init__(self, symptom, detail):
        super().__init__(detail)
        self.symptom = symptom
        self.detail = detail


def _cmp(lib, ref, bound, what):
    """lib (library dtype) against ref (float64) within an elementwise / scalar bound; non-finite entries must coincide."""
    if tuple(lib.shape) != tuple(ref.shape):
        raise _Bad("shape", "%s: shape %s != %s" % (what, tuple(lib.shape), tuple(ref.shape)))
    if ref.numel() == 0:
        return
    if ref.dtype == torch.bool or lib.dtype == torch.bool:
        if not torch.equal(lib.to(torch.bool), ref.to(torch.bool)):
            raise _Bad("value", "%s: boolean results differ" % what)
        return
    lib = lib.to(F64)
    ref = ref.to(F64)
    fin = torch.isfinite(ref)
    if not bool(torch.equal(torch.isfinite(lib), fin)):
        raise _Bad("nan", "%s: non-finite pattern differs (lib finite=%s, ref finite=%s)" % (what, torch.isfinite(lib).tolist(), fin.tolist()))
    nf = ~fin
    if bool(nf.any()):
        a, b = lib[nf], ref[nf]
        same = (torch.isnan(a) & torch.isnan(b)) | (a == b)
        if not bool(same.all()):
            raise _Bad("nan", "%s: non-finite values differ" % what)
    if not torch.is_tensor(bound):
        bound = torch.full_like(ref, float(bound))
    if bound.shape != ref.shape:
        try:
            bound = bound.expand_as(ref)
        except RuntimeError:  # (leg 1 compares two library results whose common shape differs from the reference's)
            bound = torch.full_like(ref, float(bound.max()) if bound.numel() else 0.0)
    diff = torch.where(fin, (lib - ref).abs(), torch.zeros_like(ref))
    ratio = diff / (bound + tol.TINY)
    i = int(torch.argmax(ratio.reshape(-1)))
    if float(ratio.reshape(-1)[i]) > 1.0:
        raise _Bad(
            "value",
            "%s: max |lib-ref|/bound = %.3g at flat index %d (lib=%r ref=%r)" % (what, float(ratio.reshape(-1)[i]), i, lib.reshape(-1)[i].item(), ref.reshape(-1)[i].item()),
        )


def _mk_other(o, dt, A):
    """(library-typed operand factory, float64 reference value, magnitude)."""
    k = o["k"]
    if k == "scalar":
        s = o["s"]
        return (lambda: s), s, abs(s)
    if k == "tensor":
        xd = L.value(o["t"], F64)
        if o.get("T"):
            xd = xd.transpose(-1, -2)
            return (lambda: L.materialise(o["t"]).mT), xd, xd.abs()
        return (lambda: L.materialise(o["t"])), xd, xd.abs()
    if k == "op":
        xd = refmodel.dense(o["recipe"])
        return (lambda: R.build(o["recipe"])), xd, refmodel.dense_abs(o["recipe"])
    if k == "near":
        n = A.numel()
        mul = torch.tensor([o["mul"][i % len(o["mul"])] for i in range(n)], dtype=F64).reshape(A.shape) if n else A.clone()
        add = torch.tensor([o["add"][i % len(o["add"])] for i in range(n)], dtype=F64).reshape(A.shape) if n else A.clone()
        xd = (A * mul + add).to(L.DT[dt]).to(F64)
        return (lambda: xd.to(L.DT[dt])), xd, xd.abs()
    raise HarnessError("unknown operand kind %r" % k)


def _slack(S):
    return S + (S.abs().max() * 1e-3 if S.numel() else 0.0)


def _bound_exact(S, dt, inner, depth, extra=1.0):
    return tol.exact_bound(_slack(S), dt, inner, depth, extra)


def _struct_cond(r):
    """Woodbury-type classes (LowRankRootAddedDiag, KroneckerProductAddedDiag) invert their diagonal summand separately:
    the forward error of their closed-form solve / logdet scales with ||A|| / min(D) (cancellation), not with kappa(A)."""
    out = 1.0
    for nd in R.walk(r):
        if nd["op"] in ("LowRankRootAddedDiag", "KroneckerAddedDiag"):
            try:
                d = [a for a in nd["args"] if gen.is_diag_instance(a)]
                if not d:
                    continue
                dd = refmodel.dense(d[0]).diagonal(dim1=-2, dim2=-1).to(F64)
                nrm = float(torch.linalg.matrix_norm(refmodel.dense(nd).to(F64), ord=2).max())
                if float(dd.min()) > 0:
                    out = max(out, nrm / float(dd.min()))
            except Exception:
                continue
    return out


def _cond(A):
    if A.numel() == 0:
        return 1.0
    sv = torch.linalg.svdvals(A)
    smin = sv[..., -1].clamp_min(1e-300)
    return float((sv[..., 0] / smin).max())


def _n2(A):
    """Upper bound of the 2-norm: n * max |entry|."""
    return float(A.abs().max()) * max(A.shape[-1], 1) if A.numel() else 0.0


def _toeplitz_extra(r, shape):
    if any(n["op"] == "Toeplitz" for n in R.walk(r)):
        return 4.0 + max(1.0, math.log2(float(max(shape[-2:]))))
    return 1.0


def _plan(case):
    """Returns (lib(op, x), meth(op, x), refvals: list[(name, tensor)], norm(res)->list[(name, tensor)], bounds: list, info)."""
    name, order, form = case["fn"], case["order"], case.get("form", "func")
    first, second = tables()
    table = first if order == "first" else second
    if name not in table:
        return None
    f, mname = table[name]
    r = case["recipe"]
    kw = dict(case.get("kw", {}))
    fam = _family(name)
    b = short(name)
    dt = R.dtype_of(r)
    A = refmodel.dense(r)
    Aabs = refmodel.dense_abs(r)
    depth = R.depth(r)
    nmat = A.shape[-1]
    mk_x, Xd, Xabs = (None, None, None)
    if case.get("other") is not None:
        mk_x, Xd, Xabs = _mk_other(case["other"], dt, A)
        if case["other"]["k"] == "op":
            depth = max(depth, R.depth(case["other"]["recipe"]))
    extra = _toeplitz_extra(r, A.shape)
    info = {"f": f, "mname": mname, "mk_x": mk_x}

    def meth_on(op):
        return getattr(type(op), mname)

    def dense_norm(res):
        return [("value", _dense(res, "result"))]

    # ---------------------------------------------------------------- elementwise unary
    if fam == "unary":
        fn = {"abs": torch.abs, "exp": torch.exp, "log": torch.log, "sqrt": torch.sqrt}[b]
        ref = fn(A)
        S = {"abs": Aabs, "exp": torch.exp(Aabs) * (1 + Aabs), "log": ref.abs().nan_to_num(0.0, 0.0, 0.0) + 1.0, "sqrt": Aabs.sqrt() * 2}[b]
        support_only = bool(kw.pop("support_only", False))

        def norm(res):
            d = _dense(res, "result")
            if support_only:
                return [("diagonal", torch.diagonal(d, dim1=-2, dim2=-1))]
            return [("value", d)]

        refv = norm(ref)
        bnd = _bound_exact(S, dt, 1, depth)
        if support_only:
            bnd = torch.diagonal(bnd, dim1=-2, dim2=-1)
        return (lambda op, x: f(op)), (lambda op, x: meth_on(op)(op)), refv, norm, [bnd], info

    # ---------------------------------------------------------------- add / sub / mul / div
    if fam == "arith":
        alpha = kw.get("alpha")
        sym = {"add": "+", "sub": "-", "mul": "*", "div": "/"}[b]

        def binop(a, c):
            return a + c if sym == "+" else a - c if sym == "-" else a * c if sym == "*" else a / c

        def lib(op, x):
            a, c = (op, x) if order == "first" else (x, op)
            if form == "binop":
                return binop(a, c)
            if form == "tmethod":
                return getattr(a, b)(c, **kw)
            return f(a, c, **kw)

        def meth(op, x):
            return meth_on(op)(op, x, **kw)

        Xv = Xd if torch.is_tensor(Xd) else torch.tensor(float(Xd), dtype=F64)
        Xa = Xabs if torch.is_tensor(Xabs) else torch.tensor(float(Xabs), dtype=F64)
        a, c = (A, Xv) if order == "first" else (Xv, A)
        al = 1.0 if alpha is None else float(alpha)
        if b == "add":
            ref, S = a + al * c, ((Aabs + abs(al) * Xa) if order == "first" else (Xa + abs(al) * Aabs))
        elif b == "sub":
            ref, S = a - al * c, ((Aabs + abs(al) * Xa) if order == "first" else (Xa + abs(al) * Aabs))
        elif b == "mul":
            ref, S = a * c, Aabs * Xa
        else:
            ref, S = a / c, ((Aabs / Xa.clamp_min(1e-300)) if order == "first" else (Xa / Aabs.clamp_min(1e-300)))
        S = S.expand_as(ref) if S.shape != ref.shape else S
        if b == "mul" and case["other"]["k"] == "op":
            S = torch.full_like(ref, float(S.max()) if S.numel() else 0.0) * tol.root_slack(dt, nmat)
        bnd = _bound_exact(S, dt, 2, depth, extra)
        return lib, meth, [("value", ref)], dense_norm, [bnd], info

    # ---------------------------------------------------------------- matmul
    if fam == "matmul":

        def lib(op, x):
            a, c = (op, x) if order == "first" else (x, op)
            if form == "binop":
                return a @ c
            if form == "tmethod":
                return a.matmul(c)
            return f(a, c)

        def meth(op, x):
            return meth_on(op)(op, x)

        if order == "first":
            ref, S, inner = torch.matmul(A, Xd), torch.matmul(Aabs, Xabs), A.shape[-1]
        else:
            ref, S, inner = torch.matmul(Xd, A), torch.matmul(Xabs, Aabs), A.shape[-2]
        if case["other"]["k"] == "op" and any(n["op"] == "Toeplitz" for n in R.walk(case["other"]["recipe"])):
            extra = max(extra, 4.0 + max(1.0, math.log2(float(max(Xd.shape[-2:])))))
        if any(n["op"] == "Mul" for n in R.walk(r)) or (case["other"]["k"] == "op" and any(n["op"] == "Mul" for n in R.walk(case["other"]["recipe"]))):
            S = torch.full_like(ref, float(S.max()) if S.numel() else 0.0) * tol.root_slack(dt, max(nmat, Xd.shape[-1]))
        bnd = _bound_exact(S, dt, inner, depth, extra)
        return lib, meth, [("value", ref)], dense_norm, [bnd], info

    # ---------------------------------------------------------------- isclose
    if fam == "isclose":
        rtol, atol = kw.get("rtol", 1e-05), kw.get("atol", 1e-08)

        pa = case.get("posargs")
        pargs = () if not pa else ((kw["rtol"],) if pa == "rtol" else (kw["rtol"], kw["atol"]))
        kwr = {k_: v_ for k_, v_ in kw.items() if not (pa and (k_ == "rtol" or (k_ == "atol" and pa == "rtol_atol")))}

        def lib(op, x):
            return f(op, x, *pargs, **kwr) if order == "first" else f(x, op, *pargs, **kwr)

        def meth(op, x):
            return meth_on(op)(op, x, *pargs, **kwr)

        a, c = (A, Xd) if order == "first" else (Xd, A)
        margin = (a - c).abs() - (atol + rtol * c.abs())
        ref = margin <= 0
        # entries closer to the decision boundary than the rounding of the library's own densification are undetermined
        band = _bound_exact(Aabs, dt, nmat, depth, extra) * (2.0 + rtol) + tol.U[dt] * (Xabs + Aabs) * 8
        decided = margin.abs() > band
        info["decided"] = decided

        def norm(res):
            d = _dense(res, "result")
            if tuple(d.shape) != tuple(ref.shape):
                raise _Bad("shape", "isclose: shape %s != %s" % (tuple(d.shape), tuple(ref.shape)))
            return [("value", d.to(torch.bool) & decided)]

        return lib, meth, [("value", ref & decided)], norm, [0.0], info

    # ---------------------------------------------------------------- diagonal
    if fam == "diagonal":
        ref = torch.diagonal(A, **kw)
        S = torch.diagonal(Aabs, **kw)
        if case.get("posargs") == "offset_dims":
            dargs = (kw["offset"], kw["dim1"], kw["dim2"])
            return (lambda op, x: f(op, *dargs)), (lambda op, x: meth_on(op)(op, *dargs)), [("value", ref)], dense_norm, [_bound_exact(S, dt, 1, depth, extra)], info
        return (lambda op, x: f(op, **kw)), (lambda op, x: meth_on(op)(op, **kw)), [("value", ref)], dense_norm, [_bound_exact(S, dt, 1, depth, extra)], info

    # ---------------------------------------------------------------- dim-argument structure functions
    if fam in ("sum", "prod", "squeeze", "unsqueeze", "transpose", "permute"):
        pos = bool(kw.pop("pos", True))
        if fam == "transpose":
            # torch.transpose names its parameters dim0/dim1, the method dim1/dim2: only the positional spelling is common
            args, kws = (kw["dim1"], kw["dim2"]), {}
            margs = (args, {})
            ref = torch.transpose(A, kw["dim1"], kw["dim2"])
            S = torch.transpose(Aabs, kw["dim1"], kw["dim2"])
            inner = 1
        elif fam == "permute":
            args, kws = (tuple(kw["dims"]),), {}
            margs = (args, {})
            ref, S, inner = A.permute(*kw["dims"]), Aabs.permute(*kw["dims"]), 1
        else:
            if "dim" in kw:
                args, kws = ((kw["dim"],), {}) if pos else ((), {"dim": kw["dim"]})
            else:
                args, kws = (), {}
            margs = (args, kws)
            tf = {"sum": torch.sum, "prod": torch.prod, "squeeze": torch.squeeze, "unsqueeze": torch.unsqueeze}[fam]
            ref = tf(A, *args, **kws)
            if fam == "sum":
                S = torch.sum(Aabs, *args, **kws)
                inner = A.numel() if "dim" not in kw else A.shape[kw["dim"]]
                if "dim" in kw and (kw["dim"] % A.dim()) >= A.dim() - 2:
                    inner = max(A.shape[-2:])  # computed as a product with a vector of ones
            elif fam == "prod":
                S = torch.prod(Aabs, *args, **kws)
                # product over a batch dimension = repeated elementwise products of root decompositions (jittered Cholesky)
                S = (torch.full_like(S, float(S.max()) if S.numel() else 0.0) + 1e-6) * tol.root_slack(dt, nmat) * A.shape[kw["dim"]]
                inner = nmat
            else:
                S, inner = tf(Aabs, *args, **kws), 1
        a0, k0 = args, kws
        m0, mk0 = margs

        def lib(op, x):
            return f(op, *a0, **k0)

        def meth(op, x):
            return meth_on(op)(op, *m0, **mk0)

        return lib, meth, [("value", ref)], dense_norm, [_bound_exact(S, dt, inner, depth, extra)], info

    if fam == "clone":
        return (lambda op, x: f(op)), (lambda op, x: meth_on(op)(op)), [("value", A)], dense_norm, [_bound_exact(Aabs, dt, 1, depth, extra)], info

    if fam == "numel":

        def norm(res):
            if not isinstance(res, int) or isinstance(res, bool):
                raise _Bad("type", "numel returned %s" % type(res).__name__)
            return [("value", torch.tensor(float(res), dtype=F64))]

        return (lambda op, x: f(op)), (lambda op, x: meth_on(op)(op)), [("value", torch.tensor(float(A.numel()), dtype=F64))], norm, [0.0], info

    # ---------------------------------------------------------------- direct methods
    u = tol.U[dt]
    if fam in ("logdet", "solve", "solve_triangular", "inverse"):
        kappa = max(_cond(A), _struct_cond(r))
        c = tol.C_DIRECT * max(nmat, 1) * u * kappa
        if fam == "logdet":
            ref = torch.logdet(A)
            bnd = c + tol.C_DIRECT * u * ref.abs().nan_to_num(0.0, 0.0, 0.0)
            return (lambda op, x: f(op)), (lambda op, x: meth_on(op)(op)), [("value", ref)], dense_norm, [bnd], info
        if fam == "inverse":
            ref = torch.inverse(A)
            return (lambda op, x: f(op)), (lambda op, x: meth_on(op)(op)), [("value", ref)], dense_norm, [c * float(ref.abs().max()) if ref.numel() else 0.0], info
        if fam == "solve":
            ref = torch.linalg.solve(A, Xd)
            return (lambda op, x: f(op, x)), (lambda op, x: meth_on(op)(op, x)), [("value", ref)], dense_norm, [c * float(ref.abs().max()) if ref.numel() else 0.0], info
        ref = torch.linalg.solve_triangular(A, Xd, **kw)
        return (lambda op, x: f(op, x, **kw)), (lambda op, x: meth_on(op)(op, x, **kw)), [("value", ref)], dense_norm, [c * float(ref.abs().max()) if ref.numel() else 0.0], info

    rec = tol.C_DIRECT * max(nmat, 1) * u * _n2(A) + tol.TINY
    if fam == "cholesky":
        upper = bool(kw.get("upper", False))

        def norm(res):
            F = _dense(res, "cholesky factor").to(F64)
            tri = torch.triu(F) if upper else torch.tril(F)
            if not torch.equal(tri, F):
                raise _Bad("value", "cholesky(upper=%s) factor is not %s triangular" % (upper, "upper" if upper else "lower"))
            return [("product", F.transpose(-1, -2) @ F if upper else F @ F.transpose(-1, -2))]

        return (lambda op, x: f(op, **kw)), (lambda op, x: meth_on(op)(op, **kw)), [("product", A)], norm, [rec], info

    if fam in ("eigh", "eigvalsh"):
        evals_ref = torch.linalg.eigvalsh(A).clamp_min(0.0)

        def norm(res):
            if fam == "eigvalsh":
                return [("evals_sorted", torch.sort(_dense(res, "eigenvalues").to(F64), dim=-1)[0])]
            if not isinstance(res, (tuple, list)) or len(res) != 2:
                raise _Bad("type", "eigh returned %s" % _tsig(res))
            ev = _dense(res[0], "eigenvalues").to(F64)
            V = _dense(res[1], "eigenvectors").to(F64)
            return [("evals_sorted", torch.sort(ev, dim=-1)[0]), ("product", (V * ev.unsqueeze(-2)) @ V.transpose(-1, -2))]

        refv = [("evals_sorted", evals_ref)] + ([("product", A)] if fam == "eigh" else [])
        return (lambda op, x: f(op)), (lambda op, x: meth_on(op)(op)), refv, norm, [rec, rec][: len(refv)], info

    if fam == "svd":
        s_ref = torch.sort(torch.linalg.svdvals(A), dim=-1)[0]

        def norm(res):
            if not isinstance(res, (tuple, list)) or len(res) != 3:
                raise _Bad("type", "svd returned %s" % _tsig(res))
            U_ = _dense(res[0], "U").to(F64)
            s = _dense(res[1], "S").to(F64)
            Vh = _dense(res[2], "Vh").to(F64)
            return [("svals_sorted", torch.sort(s, dim=-1)[0]), ("product", (U_ * s.unsqueeze(-2)) @ Vh)]

        return (lambda op, x: f(op)), (lambda op, x: meth_on(op)(op)), [("svals_sorted", s_ref), ("product", A)], norm, [rec, rec], info

    # ---------------------------------------------------------------- a registration this module has no arguments for
    try:
        ref = f(A)
    except Exception:
        info["nogen"] = True
        return (lambda op, x: f(op)), (lambda op, x: meth_on(op)(op)), None, None, None, info
    if not torch.is_tensor(ref):
        info["nogen"] = True
        return (lambda op, x: f(op)), (lambda op, x: meth_on(op)(op)), None, None, None, info
    return (lambda op, x: f(op)), (lambda op, x: meth_on(op)(op)), [("value", ref)], dense_norm, [_bound_exact(ref.abs() + Aabs.max(), dt, nmat, depth, extra)], info


def _run(thunk):
    try:
        return True, thunk()
    except (Violation, HarnessError):
        raise
    except Exception as e:  # noqa: BLE001 - the outcome under test
        return False, e


class _Leg2(Exception):
    def __init__(self, symptom, detail):
        super().__init__(detail)
        self.symptom = symptom
        self.detail = detail


class _BuildFailed(Exception):
    pass


def _dense_equivalent(case):
    """The same call on plain DenseLinearOperators holding the same matrices (for blame, see _check_reg)."""
    def dense_of(rec):
        dt = R.dtype_of(rec)
        return {"op": "Dense", "t": L.lit(refmodel.dense(rec).to(L.DT[dt]).tolist(), dt)}

    c = dict(case)
    c["recipe"] = dense_of(case["recipe"])
    if (case.get("other") or {}).get("k") == "op":
        c["other"] = {"k": "op", "recipe": dense_of(case["other"]["recipe"])}
    return c


def _check_reg(case, allow_blame=True):
    name, order = case["fn"], case["order"]
    r = case["recipe"]
    head = r["op"]
    labels = ["cell:%s|%s" % (name, order), "head:" + head, "form:" + case.get("form", "func")]

    def fail(symptom, detail):
        raise Violation("C15|%s|%s|%s|%s" % (name, order, head, symptom), "%s  [class path %s, form %s, kw %s]" % (detail, R.class_path(r), case.get("form"), case.get("kw")))

    try:
        plan = _plan(case)
    except _Bad as e:
        raise HarnessError("reference normalisation failed: %s" % e.detail)
    except (Violation, HarnessError):
        raise
    except Exception as e:  # the reference model / dense torch call raised: the generator produced an invalid case
        raise HarnessError("dense reference raised %r for case fn=%s order=%s kw=%s recipe=%s" % (e, name, order, case.get("kw"), R.class_path(r)))
    if plan is None:
        return {"nontrivial": False, "key": case, "labels": labels + ["outcome:cell_not_registered"], "sample": {"fn": name, "order": order}}
    lib, meth, refv, norm, bounds, info = plan
    mk_x = info["mk_x"]
    has_mul = any(n["op"] == "Mul" for n in R.walk(r)) or (
        (case.get("other") or {}).get("k") == "op" and any(n["op"] == "Mul" for n in R.walk(case["other"]["recipe"]))
    )
    if has_mul and bounds is not None:
        # a Mul node is *defined* through root decompositions of both factors (Cholesky with the documented jitter, or
        # symeig): normwise root-decomposition slack instead of the exact-structure bound (same policy as C01)
        sl = tol.root_slack(R.dtype_of(r), refmodel.shape(r)[-1])
        bounds = [((torch.full_like(bd, float(bd.max())) if torch.is_tensor(bd) and bd.numel() else bd) + 1e-6 * tol.U[R.dtype_of(r)]) * sl for bd in bounds]
        # ... and when psd_safe_cholesky REPORTS jitter e while the operands are built (a singular factor), the matrix is
        # (A + e I) o (B + e I) = A o B + e (diag A + diag B) + e^2: an ABSOLUTE term that the magnitude model of the product
        # (|A| o |B|, zero for a zero factor) does not contain.  M = largest |entry| of any defining tensor / operand.
        jrep = 0.0
        try:
            R.build(r)
            jrep = R.LAST_BUILD_JITTER
            if (case.get("other") or {}).get("k") == "op":
                R.build(case["other"]["recipe"])
                jrep = max(jrep, R.LAST_BUILD_JITTER)
        except Exception:
            jrep = 0.0
        if jrep > 0.0:
            lits = list(R.float_literals(r))
            o = case.get("other") or {}
            if o.get("k") == "op":
                lits += list(R.float_literals(o["recipe"]))
            elif "t" in o and L.is_lit(o["t"]) and o["t"]["dt"] in ("f64", "f32"):
                lits.append(o["t"])
            M = max([float(L.value(l, torch.float64).abs().max()) for l in lits if L.value(l).numel()] + [1.0])
            slack = 16.0 * jrep * (1.0 + M) ** 2
            bounds = [bd + slack for bd in bounds]
            labels.append("approx:mul_reported_jitter")
        labels.append("approx:mul_node")

    def fresh():
        try:
            op = R.build(r)
            x = mk_x() if mk_x is not None else None
        except Exception as e:  # a constructor refusing generated arguments is C01's / C02's verdict, not a dispatch outcome
            raise _BuildFailed(X.describe(e))
        return op, x

    okind = (case.get("other") or {}).get("k", "-")
    if okind == "near":
        okind = "tensor"
    elif okind == "tensor" and L.shape_of(case["other"]["t"]) == ():
        okind = "tensor0"
    out = {
        "nontrivial": False,
        "key": {"fn": name, "order": order, "form": case.get("form"), "cp": R.class_path(r), "ok": okind, "kw": case.get("kw"), "shape": list(refmodel.shape(r)), "oshape": list(L.shape_of(case["other"]["t"])) if "t" in (case.get("other") or {}) else None, "r": r},
        "labels": labels,
        "sample": {"fn": name, "order": order, "form": case.get("form"), "recipe": r, "operand": okind, "kw": case.get("kw")},
    }
    seed = torch.initial_seed()
    try:
        op_m, x_m = fresh()
        torch.manual_seed(seed)
        ok_m, res_m = _run(lambda: meth(op_m, x_m))
        op_l, x_l = fresh()
    except _BuildFailed as e:
        labels.append("outcome:build_failed")
        labels.append("build_failed:%s" % e)
        return out
    torch.manual_seed(seed)
    ok_l, res_l = _run(lambda: lib(op_l, x_l))

    cls = type(op_l)
    base_meth = getattr(_lo().LinearOperator, info["mname"], None)
    overrides = getattr(cls, info["mname"], None) is not base_meth
    rerouted = False
    if okind == "op":
        labels.append("operand_head:" + case["other"]["recipe"]["op"])
        if order == "first" and type(x_l) is not cls and isinstance(x_l, cls):
            rerouted = True
            labels.append("route:second_operand_is_subclass_instance")
    labels += ["operand:" + okind, "overrides:%s" % bool(overrides), "dtype:" + R.dtype_of(r), "batch:%d" % (len(refmodel.shape(r)) - 2)]
    if overrides:
        defcls = next((k for k in cls.__mro__ if info["mname"] in k.__dict__), cls)
        labels.append("ovr:%s|%s|%s.%s" % (name, order, defcls.__name__, info["mname"]))
    if case.get("argform"):
        labels.append("diagonal_args:" + case["argform"])
    out["nontrivial"] = bool(order == "second" or overrides or okind in ("scalar", "op"))

    # ---- leg 1: torch.f against the method resolved by name on the subclass
    leg1 = not rerouted
    if not ok_m:
        if ok_l and not rerouted:
            fail("returned-but-method-raised:" + type(res_m).__name__, "torch function returned %s while %s.%s raised %r" % (_tsig(res_l), cls.__name__, info["mname"], res_m))
        if ok_l:
            # torch handed the call to the reflected method of the second operand (an instance of a subclass of the first
            # one's class), which served it although the first operand's own method fails: judged by the dense leg only
            labels.append("leg1:reflected method served the call, own method raises")
        else:
            if type(res_l) is not type(res_m) and not rerouted:
                fail("exc-mismatch:%s-vs-%s" % (type(res_l).__name__, type(res_m).__name__), "torch function raised %r, %s.%s raised %r" % (res_l, cls.__name__, info["mname"], res_m))
            declined = X.is_declined(res_m, "torch") or X.is_declined(res_m, short(name))
            labels.append("outcome:declined" if declined else "outcome:method_raised:" + type(res_m).__name__)
            labels.append("fo:%s|%s|%s" % (name, order, "declined" if declined else "raised"))
            return out
    elif not ok_l:
        fail("exc:" + X.describe(res_l), "torch function raised %r while %s.%s returned %s" % (res_l, cls.__name__, info["mname"], _tsig(res_m)))
    elif (_ksig(res_l) != _ksig(res_m)) if rerouted else (_tsig(res_l) != _tsig(res_m)):
        # (a rerouted call may legitimately build an operator of another class denoting the same matrix)
        fail("type", "torch function returned %s, %s.%s returned %s" % (_tsig(res_l), cls.__name__, info["mname"], _tsig(res_m)))
    if info.get("nogen"):
        labels.append("outcome:nogen")
        return out

    def legs():
        try:
            nl = norm(res_l)
        except _Bad as e:
            raise _Leg2(e.symptom, "torch function result: " + e.detail)
        except Exception as e:
            raise _Leg2("exc:" + X.describe(e), "densifying the torch function result raised %r" % (e,))
        if leg1:
            try:
                nm = norm(res_m)
            except _Bad as e:
                fail("dispatch-" + e.symptom, "method result (the torch function result was well-formed): " + e.detail)
            except Exception as e:
                fail("dispatch-exc:" + X.describe(e), "densifying the method result raised %r (the torch function result densified)" % (e,))
            for (what, vl), (_, vm), bnd in zip(nl, nm, bounds):
                try:
                    _cmp(vl, vm.to(F64), bnd, "torch function vs method (%s)" % what)
                except _Bad as e:
                    fail("dispatch-" + e.symptom, e.detail)
        # ---- leg 2: against the dense computation (ORDER and SIGN of the operands as written)
        for (what, vl), (_, vr), bnd in zip(nl, refv, bounds):
            try:
                _cmp(vl, vr, bnd, "torch function vs dense (%s)" % what)
            except _Bad as e:
                raise _Leg2(e.symptom, e.detail)

    try:
        legs()
    except _Leg2 as e:
        # Blame.  torch.f and the method agree with each other but not with the dense computation.  C15 owns the handler,
        # the tables, the base-class public methods (argument handling, result conventions) and the subclass overrides OF
        # THE REGISTERED METHODS; the private hooks (_transpose_nonbatch, _diagonal, _sum_batch, _mul_matrix, _svd, ...)
        # are the objects of C01-C06/C14.  If the class does not override the registered method and the very same call
        # on DenseLinearOperators holding the same matrices passes, the mismatch lives in such a hook: counted, not raised.
        excused = False
        if allow_blame and not overrides and head != "Dense":
            try:
                _check_reg(_dense_equivalent(case), allow_blame=False)
                excused = True
            except (Violation, HarnessError):
                excused = False
        if not excused:
            fail(e.symptom, e.detail)
        labels.append("outcome:blamed_private_hook")
        labels.append("blamed:%s|%s|%s" % (short(name), head, e.symptom.split(":")[0]))
        labels.append("fo:%s|%s|blamed" % (name, order))
        return out
    labels.append("outcome:value")
    labels.append("fo:%s|%s|value" % (name, order))
    return out


# ---- unregistered --------------------------------------------------------------------------------------------
class _Recorder:
    """Observe whether the call reached LinearOperator.__torch_function__ (and with which function object)."""

    def __enter__(self):
        LO = _lo().LinearOperator
        self.LO = LO
        self.orig = LO.__dict__["__torch_function__"]
        seen = self.seen = []
        orig = self.orig

        def rec(cls, func, types, args=(), kwargs=None):
            seen.append(func)
            return orig.__func__(cls, func, types, args, kwargs)

        LO.__torch_function__ = classmethod(rec)
        return self

    def __exit__(self, *a):
        self.LO.__torch_function__ = self.orig
        return False


def _args_for(form, Xv, T):
    def one(tok):
        tok = tok.strip()
        if tok == "X":
            return Xv
        if tok == "T":
            return T
        if tok == "v":
            return T[..., 0]
        if tok == "C":
            return T > T.mean()
        return int(tok)

    out = []
    depth_buf = None
    for tok in form.replace("[", "[,").replace("]", ",]").split(","):
        tok = tok.strip()
        if tok == "":
            continue
        if tok == "[":
            depth_buf = []
        elif tok == "]":
            out.append(depth_buf)
            depth_buf = None
        elif depth_buf is not None:
            depth_buf.append(one(tok))
        else:
            out.append(one(tok))
    return out


def _check_unreg(case):
    name, form, r = case["fn"], case["form"], case["recipe"]
    head = r["op"]
    labels = ["unreg:" + ("sampled" if case.get("sampled") else "fixed"), "head:" + head, "unreg_form:" + form]
    if not case.get("sampled"):
        labels.append("unreg_fn:" + name)
    first, second = tables()
    f = _overridable().get(name) if case.get("sampled") else _walk(name)
    out = {"nontrivial": True, "key": {"fn": name, "form": form, "cp": R.class_path(r)}, "labels": labels, "sample": {"unregistered": name, "form": form, "recipe": r}}
    if f is None:
        labels.append("outcome:unresolvable_name")
        out["nontrivial"] = False
        return out
    reg = {g for g, _ in first.values()} | {g for g, _ in second.values()}
    firstpos = form.replace("[", "").split(",")[0].strip()
    if (f in {g for g, _ in first.values()} and firstpos == "X") or (f in {g for g, _ in second.values()} and firstpos != "X"):
        labels.append("outcome:now_registered")
        out["nontrivial"] = False
        return out
    A = refmodel.dense(r)
    T64 = L.value(case["t"], F64)
    if not case.get("sampled"):
        try:
            f(*_args_for(form, A, T64))
        except Exception as e:
            raise HarnessError("unregistered-function probe %s(%s) is invalid on dense operands: %r" % (name, form, e))
    try:
        op = R.build(r)
    except Exception as e:
        raise Violation("C15|%s|unreg|%s|build:%s" % (name, head, X.describe(e)), "constructor raised %r for %s" % (e, R.class_path(r)))
    T = L.materialise(case["t"])
    args = _args_for(form, op, T)
    with _Recorder() as rec:
        ok, res = _run(lambda: f(*args))
    seen = list(rec.seen)
    dispatched = bool(seen)
    sig = "C15|%s|unreg:%s|%s|" % (name, form, head)
    if ok:
        if dispatched and (not case.get("sampled") or any(g not in reg for g in seen)):
            raise Violation(sig + "returned", "unregistered %s(%s) reached the handler and RETURNED %s for %s (silent densification / mis-dispatch)" % (name, form, _tsig(res), R.class_path(r)))
        labels.append("outcome:alias_of_registered" if dispatched else "outcome:not_dispatched(returned)")
        out["nontrivial"] = False
        return out
    e = res
    if isinstance(e, NotImplementedError) and dispatched:
        labels.append("outcome:unreg_NotImplementedError")
        return out
    if X.innermost_lo_frame(e) is not None:
        raise Violation(sig + "exc:" + X.describe(e), "unregistered %s(%s) raised %r from inside linear_operator for %s" % (name, form, e, R.class_path(r)))
    labels.append("outcome:not_dispatched(%s)" % type(e).__name__)
    out["nontrivial"] = False
    return out


def g_isclose_nan(draw):
    """torch.isclose with NaN entries and every keyword, in both operand orders, on operators wrapping a tensor that HOLDS
    the NaNs (the recipe literals are finite; the NaN positions are applied to the materialised tensor)."""
    n = draw(st.integers(1, 3))
    batch = draw(st.sampled_from([(), (), (2,)]))
    dt = draw(st.sampled_from(["f64", "f32"]))
    cfg = gen.Cfg(dt=dt)
    numel = int(torch.Size(batch + (n, n)).numel())
    return {
        "kind": "isclose_nan", "dt": dt,
        "t": gen.flit(draw, cfg, batch + (n, n), -8, 8),
        "wrap": draw(st.sampled_from(["Dense", "Dense", "ConstantMul", "Sum", "Tri"])),
        "nan_op": sorted(set(draw(st.lists(st.integers(0, numel - 1), min_size=1, max_size=2)))),
        "nan_other": sorted(set(draw(st.lists(st.integers(0, numel - 1), min_size=0, max_size=2)))),
        "delta": draw(st.sampled_from([0.0, 0.0, 0.5])),
        "order": draw(st.sampled_from(["first", "second", "second"])),
        "equal_nan": draw(st.sampled_from([True, True, False])),
        "form": draw(st.sampled_from(["kw", "kw", "pos5"])),
    }


def _check_isclose_nan(case):
    from linear_operator import operators as O

    base = L.materialise(case["t"]).clone()
    flat = base.view(-1)
    for i in case["nan_op"]:
        flat[i] = float("nan")
    if case["wrap"] == "Tri":
        base = torch.tril(base)  # (a NaN in the strict upper triangle disappears: still a legal input)
    other = base.clone() + case["delta"]
    oflat = other.view(-1)
    for i in case["nan_other"]:
        oflat[i] = float("nan")
    if case["wrap"] == "Dense":
        op, dense = O.DenseLinearOperator(base), base
    elif case["wrap"] == "ConstantMul":
        op, dense = O.DenseLinearOperator(base) * 2.0, base * 2.0
        other = other * 2.0
    elif case["wrap"] == "Sum":
        z = torch.zeros_like(base)
        op, dense = O.SumLinearOperator(O.DenseLinearOperator(base), O.DenseLinearOperator(z)), base + z
    else:
        op, dense = O.TriangularLinearOperator(base), base
    en = bool(case["equal_nan"])
    a, b, da, db = (op, other, dense, other) if case["order"] == "first" else (other, op, other, dense)
    ref = torch.isclose(da, db, 1e-05, 1e-08, en)
    try:
        got = torch.isclose(a, b, 1e-05, 1e-08, en) if case["form"] == "pos5" else torch.isclose(a, b, equal_nan=en)
    except Exception as e:
        raise Violation("C15|torch.isclose|%s|%s|exc:%s" % (case["order"], case["wrap"], X.describe(e)), "torch.isclose with NaN entries raised %r (equal_nan=%s, form %s)" % (e, en, case["form"]))
    got = got.to_dense() if _is_op(got) else got
    if tuple(got.shape) != tuple(ref.shape) or not bool((got.to(torch.bool) == ref).all()):
        raise Violation(
            "C15|torch.isclose|%s|%s|nan-value" % (case["order"], case["wrap"]),
            "torch.isclose(%s, %s, equal_nan=%s) [%s form] differs from torch on the dense operands: got %s, dense %s (NaN at %s in the operator, %s in the tensor)"
            % ("op" if case["order"] == "first" else "tensor", "tensor" if case["order"] == "first" else "op", en, case["form"], got.tolist(), ref.tolist(), case["nan_op"], case["nan_other"]),
        )
    shared = bool((torch.isnan(da) & torch.isnan(db)).any())
    return {
        "nontrivial": shared and en,
        "key": case,
        "labels": ["kind:isclose_nan", "cell:torch.isclose|%s" % case["order"], "equal_nan:%s" % en, "shared_nan:%s" % shared, "wrap:" + case["wrap"]],
        "sample": {"fn": "torch.isclose", "order": case["order"], "equal_nan": en, "wrap": case["wrap"]},
    }


def check(case):
    if case.get("kind") == "unreg":
        return _check_unreg(case)
    if case.get("kind") == "isclose_nan":
        return _check_isclose_nan(case)
    return _check_reg(case)


# ----------------------------------------------------------------------------------------------------------
# coverage
# ----------------------------------------------------------------------------------------------------------
def gaps(labels):
    out = []
    for name, order in cells():
        k = "cell:%s|%s" % (name, order)
        if not labels.get(k):
            out.append("table entry never exercised: %s (%s argument)" % (name, order))
        elif not labels.get("fo:%s|%s|value" % (name, order)):
            out.append("table entry never value-checked (every case declined / raised / no argument generator): %s (%s argument)" % (name, order))
    out.extend(_family_gaps())
    # subclass overrides of the registered methods (the quantifier: "subclass overrides are resolved by method name")
    from linear_operator import operators as O

    LO = _lo().LinearOperator
    first, second = tables()
    for order, tab in (("first", first), ("second", second)):
        for name, (_, mname) in sorted(tab.items()):
            for cname, k in sorted(vars(O).items()):
                if isinstance(k, type) and issubclass(k, LO) and k is not LO and mname in k.__dict__:
                    if not labels.get("ovr:%s|%s|%s.%s" % (name, order, k.__name__, mname)):
                        why = STRUCTURAL.get((k.__name__, mname), "")
                        if k.__name__ not in CLASS_HEADS:
                            why = " [class outside the recipe grammar]"
                        out.append("subclass override never exercised: %s.%s via %s (%s argument)%s" % (k.__name__, mname, name, order, why))
    return out


STRUCTURAL = {
    ("ZeroLinearOperator", "solve"): " [no valid operand: the zero matrix is singular for torch.linalg.solve]",
    ("ZeroLinearOperator", "logdet"): " [no valid operand in the generated domain (positive definite)]",
    ("IdentityLinearOperator", "exp"): " [excluded while F-C15-identity-exp is open; covered by its witness]",
}


def _family_gaps():
    return ["no argument generator for registered function %s (only torch.f(op) is tried)" % n for n, _ in cells() if _family(n) == "generic"]


def coverage_extra():
    first, second = tables()
    return {
        "tables": {"first_arg": {n: m for n, (_, m) in sorted(first.items())}, "second_arg": {n: m for n, (_, m) in sorted(second.items())}},
        "tolerance_constants": {"C_EXACT": tol.C_EXACT, "C_DIRECT": tol.C_DIRECT},
        "proposed_findings_treated_open": {t: is_open(t) for t in sorted(FINDING_IDS)},
        "unregistered_pool": {"fixed": len(UNREG_FIXED), "sampled_from": len(_overridable())},
    }


# ----------------------------------------------------------------------------------------------------------
# triggers of the proposed known-findings entries
# ----------------------------------------------------------------------------------------------------------
def _t_alpha(case):
    """alpha given to torch.add / torch.sub while the call is served by a reflected handler (operator second, or the
    second operand is an operator -- possibly an instance of a subclass of the first one's class)."""
    if case.get("kind") != "reg" or case["fn"] not in ("torch.add", "torch.sub") or case.get("kw", {}).get("alpha") in (None, 1):
        return False
    isop = (case.get("other") or {}).get("k") == "op"
    if case["fn"] == "torch.add":
        return case["order"] == "second" or isop
    return case["order"] == "first" and isop


def _t_identity_exp(case):
    return case.get("kind") == "reg" and short(case["fn"]) == "exp" and any(n["op"] == "Identity" for n in R.walk(case["recipe"]))


def _t_constdiag(case):
    if case.get("kind") != "reg" or short(case["fn"]) != "solve_triangular":
        return False
    r = case["recipe"]
    return r["op"] in ("ConstantDiag", "Identity") and len(refmodel.shape(r)) > 2


def _t_isclose(case):
    return case.get("kind") == "reg" and short(case["fn"]) == "isclose" and case["order"] == "second" and case.get("kw", {}).get("rtol", 1e-05) != 0


def _t_diagonal(case):
    if case.get("kind") != "reg" or short(case["fn"]) != "diagonal":
        return False
    af = case.get("argform")
    return af in ("offset_posdims", "batchdims")


def _t_diagonal_default(case):
    if case.get("kind") != "reg" or short(case["fn"]) != "diagonal":
        return False
    return case.get("argform") == "default" and len(refmodel.shape(case["recipe"])) > 2


def _t_diag_left(case):
    if case.get("kind") != "reg" or short(case["fn"]) != "solve_triangular" or case.get("kw", {}).get("left", True):
        return False
    r = case["recipe"]
    return gen.is_diag_instance(r) and r["op"] not in ("ConstantDiag", "Identity")


def _t_tri_structured(case):
    if case.get("kind") != "reg" or short(case["fn"]) not in ("solve", "solve_triangular", "inverse"):
        return False
    return any(n["op"] == "Tri" and "base" in n and n["base"]["op"] not in ("Dense", "KroneckerTri") for n in R.walk(case["recipe"]))


def _t_transpose_same(case):
    if case.get("kind") != "reg" or short(case["fn"]) != "transpose":
        return False
    nd = len(refmodel.shape(case["recipe"]))
    return case["kw"]["dim1"] % nd == case["kw"]["dim2"] % nd


def _t_explog(case):
    return case.get("kind") == "reg" and short(case["fn"]) in ("exp", "log") and not case.get("kw", {}).get("support_only")


def _t_krondiag_sqrt_neg(case):
    """sqrt of a Kronecker product of diagonals is taken factor by factor: a negative entry in a factor"""
    if case.get("kind") != "reg" or short(case["fn"]) != "sqrt":
        return False
    for n in R.walk(case["recipe"]):
        if n["op"] == "KroneckerDiag":
            for a in n["args"]:
                try:
                    if bool((refmodel.dense(a) < 0).any()):
                        return True
                except Exception:
                    return True
    return False


def _t_inverse_nested_chol(case):
    """inverse of an operator that contains a CholLinearOperator below its head: Chol.inverse() is an UPPER Chol operator,
    whose matmul is wrong (F-C01-chol-upper), and the enclosing operator multiplies through it"""
    if case.get("kind") != "reg" or short(case["fn"]) not in ("inverse", "inv"):
        return False
    r = case["recipe"]
    return any(n["op"] == "Chol" for n in R.walk(r)) and r["op"] != "Chol"


TRIGGERS = {
    "inverse_nested_chol": _t_inverse_nested_chol,
    "krondiag_sqrt_negative_factor": _t_krondiag_sqrt_neg,
    "alpha_reversed": _t_alpha,
    "identity_exp": _t_identity_exp,
    "constdiag_solve_triangular": _t_constdiag,
    "diag_solve_triangular_left": _t_diag_left,
    "transpose_same_dim": _t_transpose_same,
    "tri_structured_solve": _t_tri_structured,
    "isclose_reversed_rtol": _t_isclose,
    "diagonal_args_ignored": _t_diagonal,
    "diagonal_default_dims_batched": _t_diagonal_default,
    "explog_offdiag": _t_explog,
}
