"""C16 -- psd_safe_cholesky perturbs minimally, per batch member, or fails loudly (DESIGN section 4, C16).

Case (JSON):
  {"dt": "f32"|"f64", "A": literal of shape batch+(n,n) (layout tag, optionally an expanded batch),
   "nan_at": [[member, p, q], ...]            NaN written symmetrically into member `member` (flat index),
   "upper": bool, "route": "fn"|"op",
   "jitter": {"src": "arg"|"setting"|"default", "value": j, "decoy": bool},
   "tries":  {"src": "arg"|"setting"|"default", "value": T, "decoy": bool},
   "plan": [{"kind": ..., "i": ..., ...} per member]}     the generator's intent; used for labels only

The oracle never trusts "plan": it classifies every member from the eigenvalues of the literal matrix itself.

Stages.  Stage 0 = no jitter; stage s (1 <= s <= T) = try index i = s-1, total jitter t_s = j*10^(s-1); stage T+1 = every
try failed.  For the member matrix A (n x n, working unit round-off u) and A_s = A + t_s I put
    mu_s    = lambda_min(A) + t_s,        scale_s = ||A||_2 + t_s,
    delta_s = (2*(n(n+1) + T + 2)*u + 64*n*u64) * scale_s + 2^-22 * t_s.
Stage s SURELY SUCCEEDS if mu_s > delta_s, SURELY FAILS if mu_s < -delta_s, otherwise it is AMBIGUOUS.  Derivation:
Demmel's theorem (Higham, Accuracy and Stability, Thm 10.7): with H = D^-1 A_s D^-1, D = diag(a_ii)^(1/2), Cholesky in
floating point succeeds if lambda_min(H) > n*gamma_{n+1}/(1-gamma_{n+1}) ~ n(n+1)u and certainly fails if lambda_min(H) is
below the negative of that; lambda_min(H) >= lambda_min(A_s)/max a_ii (resp. <=, for negative values) and
max a_ii <= ||A_s||_2, a non-positive diagonal entry fails with certainty.  The matrix the library factorizes differs from
A + t_s I by <= T roundings u*scale on the diagonal (cumulative in-place additions) and by the rounding of the jitter
increments through torch's default dtype (python float * bool tensor -> float32: relative 2^-24 per increment, 2^-22
allowed); eigvalsh in float64 contributes <= 64 n u64 ||A||.  The theorem's constant is doubled.
The set of acceptable stages of a member is {first not-surely-failing stage, ..., first surely-succeeding stage}; it has one
element whenever the generator's margin holds (lambda_min = -theta*j*10^i, theta in [0.2, 0.6], j >= 40*delta_unit*sigma)
and several for the deliberately ambiguous families (exactly singular, lambda_min on a threshold, lambda_min = +-u*sigma),
where either neighbouring answer is accepted.  A reference torch.linalg.cholesky_ex(A + t_s I) in the working dtype must agree
with every SURE verdict, otherwise the harness (not the library) is wrong -> HarnessError.

Tolerances (u = working unit round-off):
  RECON_s = 4*(n + 1 + T)*u*scale_s     backward error of Cholesky |A_s - L L^T| <= gamma_{n+1} |L||L^T| <= (n+1)u max a_ii
                                         (Higham Thm 10.3) + T diagonal roundings + the float64 evaluation of L L^T; x4 safety
  total jitter  |t_obs - t_s| <= RECON_s + 2^-22 t_s            t_obs = mean diag(L L^T - A)
  reconstruction max|L L^T - A - t_s I| <= RECON_s + 2^-22 t_s
  everything else (PD factor, triangular zeros, input immutability, dtype, shape) is compared exactly / bitwise.
"""
import contextlib
import math
import warnings

import torch
from hypothesis import strategies as st

from lov import exc as X
from lov import lit as L
from lov.core import HarnessError, Violation

ID = "C16"
RULE = (
    "case = batch (shapes (),(1),(2),(3),(2,1),(1,3),(2,3),(2,1,2), or a stride-0 expanded batch) of symmetric n x n matrices "
    "(n=1..6) Q diag(w) Q^T (Q = permutation x <=2 Householder reflectors) with per-member lambda_min placed by kind: "
    "pd (kappa<=1e3 f32 / 1e6 f64), jit_i (lambda_min=-theta*j*10^i, theta in [.2,.6], i<T), hopeless (beyond the last try), "
    "ambiguous (singular / on a threshold / +-u*sigma), NaN entries; norm sigma chosen so that 0.1*j >= 4*delta(sigma); "
    "jitter j and max_tries T in {1..5} each explicit, via settings context (other dtype gets a decoy) or documented default; "
    "f32/f64; upper; memory layouts c/t/s/n; route psd_safe_cholesky or DenseLinearOperator(A).cholesky(). "
    "Non-trivial: >=1 member needs jitter, or members end at different stages, or an error path (NanError/NotPSDError). "
    "Distinct by hash of the whole case."
)
BUDGET = {"quick": 1200, "thorough": 5000}
ASSUMPTIONS = [
    "matrices are exactly symmetric; NaN entries are placed symmetrically (a NaN only in the unread upper triangle is not a symmetric input)",
    "max_tries >= 1 (max_tries=0 is not a meaningful number of attempts; the routine would hit an unbound local there)",
    "jitter*10^i is required to float32 relative accuracy only (2^-22): the increments are rounded through torch's default dtype",
    "operator route only for n >= 2: LinearOperator._cholesky short-cuts 1x1 matrices to clamp_min(0).sqrt() and never reaches psd_safe_cholesky",
    "the `out=` argument and trace_mode are outside the quantifier and not exercised",
]

U = {"f32": 2.0**-24, "f64": 2.0**-53}
DOC_JITTER = {"f32": 1e-6, "f64": 1e-8}  # documented defaults of settings.cholesky_jitter
DOC_TRIES = 3  # documented default of settings.cholesky_max_tries
JIT_REL = 2.0**-22  # see ASSUMPTIONS / module docstring
RECON_C = 4.0
MARGIN = 40.0  # generator: j >= MARGIN * delta_unit * sigma  (0.1 j >= 4 delta)

BATCHES = [(), (), (), (1,), (2,), (2,), (3,), (3,), (2, 1), (1, 3), (2, 3), (2, 1, 2)]
SIGMAS = [64.0, 8.0, 1.0, 2.0**-3, 2.0**-6, 2.0**-10, 2.0**-14, 2.0**-18]
JITTERS = {"f64": [1e-8, 1e-8, 1e-6, 2.5e-5, 1e-4, 1e-3], "f32": [1e-6, 1e-6, 1e-5, 1e-4, 2.5e-4, 1e-3, 1e-2]}
KAPPAS = {"f64": [1.0, 10.0, 1e3, 1e6], "f32": [1.0, 10.0, 100.0, 1e3]}


def delta_unit(n, T, dt):
    return 2.0 * (n * (n + 1) + T + 2) * U[dt] + 64.0 * n * U["f64"]


def stage_jitters(j, T):
    return [0.0] + [j * (10**i) for i in range(T)]


# ------------------------------------------------------------------------------------------------
# generator
# ------------------------------------------------------------------------------------------------
def _member_matrix(n, w, perm, refl):
    """Q diag(w) Q^T in float64, exactly symmetric. Q = P * H_1 * H_2 (permutation, Householder reflectors)."""
    w = [w[p] for p in perm]
    A = torch.diag(torch.tensor(w, dtype=torch.float64))
    for v in refl:
        v = torch.tensor(v, dtype=torch.float64)
        H = torch.eye(n, dtype=torch.float64) - 2.0 * torch.outer(v, v) / torch.dot(v, v)
        A = H @ A @ H.mT
    return (A + A.mT) / 2.0


def _nest_members(flat, batch):
    """Nest a flat (row-major) list of member matrices into the batch shape."""
    if not batch:
        return flat[0]
    if len(batch) == 1:
        return list(flat[: batch[0]])
    step = 1
    for b in batch[1:]:
        step *= b
    return [_nest_members(flat[k * step : (k + 1) * step], batch[1:]) for k in range(batch[0])]


@st.composite
def _member(draw, n, dt, j, T, sigma, kind):
    """One symmetric matrix (nested list, already rounded to the working dtype) and its plan entry."""
    kappa = draw(st.sampled_from(KAPPAS[dt]))
    g = draw(st.lists(st.integers(0, 4), min_size=n, max_size=n))
    g[draw(st.integers(0, n - 1))] = 0  # one eigenvalue equals sigma
    w = [sigma * kappa ** (-gi / 4.0) for gi in g]
    plan = {"kind": kind}
    if kind == "jit":
        i = draw(st.integers(0, T - 1))
        theta = draw(st.integers(20, 60)) / 100.0
        w[0] = -theta * j * 10**i
        plan.update({"i": i, "theta": theta})
    elif kind == "hopeless":
        phi = draw(st.sampled_from([1.5, 2.0, 4.0, 10.0]))
        w[0] = -phi * j * 10 ** (T - 1)
        plan.update({"phi": phi})
    elif kind == "sing":
        w[0] = 0.0
        if n >= 3 and draw(st.booleans()):
            w[1] = 0.0
    elif kind == "edge_thr":
        i = draw(st.integers(0, T - 1))
        w[0] = -(j * 10**i)
        plan.update({"i": i})
    elif kind == "edge_eps":
        w[0] = draw(st.sampled_from([1.0, -1.0, 4.0, -4.0])) * U[dt] * sigma
    elif kind != "pd":
        raise HarnessError("unknown member kind %s" % kind)
    perm = draw(st.permutations(list(range(n))))
    k = draw(st.sampled_from([0, 1, 1, 2, 2])) if n > 1 else 0
    refl = []
    for _ in range(k):
        v = draw(st.lists(st.integers(-3, 3), min_size=n, max_size=n))
        if not any(v):
            v[0] = 1
        refl.append(v)
    A = _member_matrix(n, w, perm, refl)
    if dt == "f32":
        A = A.to(torch.float32)
    return A.tolist(), plan


@st.composite
def cases(draw, tier):
    dt = draw(st.sampled_from(["f64", "f64", "f64", "f32", "f32"]))
    n = draw(st.sampled_from([1, 2, 2, 3, 3, 3, 4, 4, 5, 6]))
    route = draw(st.sampled_from(["fn", "fn", "fn", "fn", "op"]))
    if route == "op" and n == 1:
        n = 2  # the operator route never reaches psd_safe_cholesky for 1x1 matrices (see ASSUMPTIONS)
    srcs = ["arg", "arg", "setting", "default"] if route == "fn" else ["setting", "default"]
    jsrc = draw(st.sampled_from(srcs))
    tsrc = draw(st.sampled_from(srcs))
    T = DOC_TRIES if tsrc == "default" else draw(st.sampled_from([1, 2, 2, 3, 3, 4, 5]))
    j = DOC_JITTER[dt] if jsrc == "default" else draw(st.sampled_from(JITTERS[dt]))
    smax = j / (MARGIN * delta_unit(n, T, dt))
    sigma = draw(st.sampled_from([s for s in SIGMAS if s <= smax][:4]))
    scen = draw(st.sampled_from(["pd", "jit", "jit", "jit", "jit", "jit", "hopeless", "hopeless", "nan", "nan", "amb", "amb", "exp"]))
    batch = () if scen == "exp" else draw(st.sampled_from(BATCHES))
    M = 1
    for b in batch:
        M *= b
    bg = ["pd", "jit", "jit"]  # background members of a batch
    if scen == "pd":
        kinds = ["pd"] * M
    elif scen in ("jit", "exp"):
        kinds = [draw(st.sampled_from(bg)) for _ in range(M)]
        kinds[draw(st.integers(0, M - 1))] = "jit"
    elif scen == "hopeless":
        kinds = [draw(st.sampled_from(bg)) for _ in range(M)]
        kinds[draw(st.integers(0, M - 1))] = "hopeless"
    elif scen == "nan":
        kinds = [draw(st.sampled_from(bg + ["hopeless"])) for _ in range(M)]
    else:
        kinds = [draw(st.sampled_from(bg)) for _ in range(M)]
        for _ in range(draw(st.integers(1, 2))):
            kinds[draw(st.integers(0, M - 1))] = draw(st.sampled_from(["sing", "edge_thr", "edge_eps"]))
    mats, plan = [], []
    for kd in kinds:
        m, p = draw(_member(n, dt, j, T, sigma, kd))
        mats.append(m)
        plan.append(p)
    # nest the flat member list into the batch shape
    vals = _nest_members(mats, batch)
    lay = draw(st.sampled_from(["c", "c", "c", "c", "t", "s", "n"]))
    if scen == "exp":
        reps = draw(st.sampled_from([(2,), (3,), (2, 2)]))
        A = L.lit([vals] if len(reps) == 1 else [[vals]], dt, exp=list(reps) + [n, n])
        plan = plan * (reps[0] if len(reps) == 1 else reps[0] * reps[1])
    else:
        A = L.lit(vals, dt, lay=lay)
    nan_at = []
    if scen == "nan":
        for _ in range(draw(st.integers(1, 2))):
            nan_at.append([draw(st.integers(0, M - 1)), draw(st.integers(0, n - 1)), draw(st.integers(0, n - 1))])
    return {
        "dt": dt,
        "A": A,
        "nan_at": nan_at,
        "upper": draw(st.booleans()),
        "route": route,
        "jitter": {"src": jsrc, "value": j, "decoy": draw(st.booleans()), "positional": draw(st.booleans()), "zero": jsrc == "arg" and draw(st.integers(0, 4)) == 0},
        "tries": {"src": tsrc, "value": T, "decoy": draw(st.booleans())},
        "plan": plan,
    }


def strategy(tier):
    return cases(tier)


# ------------------------------------------------------------------------------------------------
# oracle
# ------------------------------------------------------------------------------------------------
def _bits(t):
    return t.view(torch.int32 if t.dtype == torch.float32 else torch.int64)


def _unravel(idx, shape):
    out = []
    for s in reversed(shape):
        out.append(idx % s)
        idx //= s
    return tuple(reversed(out))


def classify(A64, A_work, n, T, j, dt):
    """Per member: list of acceptable stages (T+1 = 'every try fails'), plus a cross-check of every sure verdict against a
    reference cholesky_ex of A + t_s I in the working dtype.  Returns (accept sets, lambda_min, norm2)."""
    ts = stage_jitters(j, T)
    ev = torch.linalg.eigvalsh(A64)
    lam = ev[..., 0]
    nrm = ev.abs().amax(dim=-1)
    du = delta_unit(n, T, dt)
    M = A64.shape[0]
    status = []  # status[s][m] in {+1 sure ok, -1 sure fail, 0 ambiguous}
    for s, t in enumerate(ts):
        mu = lam + t
        dl = du * (nrm + t) + JIT_REL * t
        status.append([1 if mu[m] > dl[m] else (-1 if mu[m] < -dl[m] else 0) for m in range(M)])
        ref = A_work.clone()
        ref.diagonal(dim1=-1, dim2=-2).add_(t)
        info = torch.linalg.cholesky_ex(ref).info
        for m in range(M):
            ok = int(info[m]) == 0
            if (status[s][m] == 1 and not ok) or (status[s][m] == -1 and ok):
                raise HarnessError(
                    "margin rule contradicted by reference cholesky_ex: stage %d member %d lambda_min=%r t=%r norm=%r verdict=%d info=%d"
                    % (s, m, float(lam[m]), t, float(nrm[m]), status[s][m], int(info[m]))
                )
    accept = []
    for m in range(M):
        acc = []
        done = False
        for s in range(T + 1):
            if status[s][m] != -1:
                acc.append(s)
            if status[s][m] == 1:
                done = True
                break
        if not done:
            acc.append(T + 1)
        accept.append(acc)
    return accept, lam, nrm


def check(case):
    from linear_operator import settings
    from linear_operator.operators import DenseLinearOperator, LinearOperator
    from linear_operator.utils.cholesky import psd_safe_cholesky
    from linear_operator.utils.errors import NanError, NotPSDError
    from linear_operator.utils.warnings import NumericalWarning

    dt, route, upper = case["dt"], case["route"], bool(case["upper"])
    tdt = L.DT[dt]
    u = U[dt]
    jsrc, tsrc = case["jitter"]["src"], case["tries"]["src"]
    j = DOC_JITTER[dt] if jsrc == "default" else float(case["jitter"]["value"])
    if jsrc == "arg" and case["jitter"].get("zero"):
        # an explicit jitter=0 ("do not perturb"): every try is with the matrix itself (the matrices were sized for the value)
        j = 0.0
    T = DOC_TRIES if tsrc == "default" else int(case["tries"]["value"])
    if T < 1 or not (j > 0 or case["jitter"].get("zero")):
        raise HarnessError("case outside the domain: jitter=%r max_tries=%r" % (j, T))
    if route == "op" and (jsrc == "arg" or tsrc == "arg"):
        raise HarnessError("operator route takes jitter / max_tries from the settings only")

    def fail(chk, symptom, detail):
        raise Violation("C16|%s|%s|%s" % (chk, route, symptom), detail)

    # ---- the input --------------------------------------------------------------------------------
    A = L.materialise(case["A"])
    shape = tuple(A.shape)
    n = shape[-1]
    bshape = shape[:-2]
    M = 1
    for b in bshape:
        M *= b
    has_nan = bool(case["nan_at"])
    if has_nan and "exp" in case["A"]:
        raise HarnessError("NaN injection into an expanded literal is not supported")
    for m, p, q in case["nan_at"]:
        idx = _unravel(m, bshape)
        A[idx + (p, q)] = float("nan")
        A[idx + (q, p)] = float("nan")
    A64 = L.value(case["A"], torch.float64).reshape(M, n, n)
    if not torch.equal(A64, A64.mT):
        raise HarnessError("generated matrix is not exactly symmetric")
    if route == "op" and n == 1:
        raise HarnessError("operator route with 1x1 matrices is outside the domain (see ASSUMPTIONS)")

    # ---- the specification, per member ----------------------------------------------------------
    ts = stage_jitters(j, T)
    if not has_nan:
        A_work = L.value(case["A"]).reshape(M, n, n)
        accept, lam, nrm = classify(A64, A_work, n, T, j, dt)
    else:
        accept, lam, nrm = None, None, None

    # ---- run the library ------------------------------------------------------------------------
    whole = torch.empty(0, dtype=A.dtype).set_(A.untyped_storage())
    snap = whole.clone()
    meta = (A._version, tuple(A.shape), tuple(A.stride()), A.storage_offset())
    kwargs = {}
    res, err = None, None
    with contextlib.ExitStack() as stack:
        other = j * 100.0
        if jsrc == "arg":
            kwargs["jitter"] = j
            if case["jitter"]["decoy"]:  # an explicit argument must win over the setting
                stack.enter_context(settings.cholesky_jitter(float_value=j * 1000.0, double_value=j * 1000.0))
        elif jsrc == "setting":
            fv, dv = (j, other) if dt == "f32" else (other, j)  # the other dtype's value is a decoy
            if not case["jitter"]["decoy"]:
                fv, dv = (j, None) if dt == "f32" else (None, j)
            stack.enter_context(settings.cholesky_jitter(float_value=fv, double_value=dv))
        elif jsrc == "default" and case["jitter"]["decoy"]:
            # a context that overrides ONLY the other precision's jitter: this dtype keeps its documented default
            if dt == "f64":
                stack.enter_context(settings.cholesky_jitter(j * 1000.0) if case["jitter"].get("positional") else settings.cholesky_jitter(float_value=j * 1000.0))
            else:
                stack.enter_context(settings.cholesky_jitter(double_value=j * 1000.0))
        if tsrc == "arg":
            kwargs["max_tries"] = T
            if case["tries"]["decoy"]:
                stack.enter_context(settings.cholesky_max_tries(T + 2))
        elif tsrc == "setting":
            stack.enter_context(settings.cholesky_max_tries(T))
        with warnings.catch_warnings(record=True) as rec:
            warnings.simplefilter("always")
            try:
                if route == "fn":
                    res = psd_safe_cholesky(A, upper=upper, **kwargs)
                else:
                    res = DenseLinearOperator(A).cholesky(upper=upper)
            except Exception as e:  # classified below
                err = e
    n_warn = sum(1 for w in rec if issubclass(w.category, NumericalWarning))

    # ---- input immutability (all paths) ----------------------------------------------------------
    if not torch.equal(_bits(whole), _bits(snap)):
        changed = int((_bits(whole) != _bits(snap)).sum())
        fail("immut", "mutated", "%d element(s) of the input tensor's storage changed (outcome %s)" % (changed, type(err).__name__ if err else "returned"))
    if (A._version, tuple(A.shape), tuple(A.stride()), A.storage_offset()) != meta:
        fail("immut", "version", "input tensor _version/shape/stride changed: %r -> %r" % (meta, (A._version, tuple(A.shape), tuple(A.stride()), A.storage_offset())))

    labels = [
        "dtype:" + dt,
        "n:%d" % n,
        "members:%d" % M,
        "batchdims:%d" % len(bshape),
        "route:" + route,
        "upper:%d" % upper,
        "jitter_src:" + jsrc,
        "tries_src:" + tsrc,
        "T:%d" % T,
        "lay:" + ("exp" if "exp" in case["A"] else case["A"].get("lay", "c")),
    ]
    for p in case.get("plan", []):
        labels.append("plan:" + p.get("kind", "?"))

    def done(outcome, nontrivial, extra=()):
        labs = labels + ["outcome:" + outcome] + list(extra)
        return {
            "nontrivial": bool(nontrivial),
            "key": {k: case[k] for k in ("dt", "A", "nan_at", "upper", "route", "jitter", "tries")},
            "labels": labs,
            "sample": {"dt": dt, "shape": list(shape), "route": route, "upper": upper, "j": j, "T": T, "jsrc": jsrc, "tsrc": tsrc,
                       "outcome": outcome, "accept": accept, "plan": case.get("plan")},
        }

    # ---- NaN input => NanError ------------------------------------------------------------------
    if has_nan:
        if err is None:
            fail("nan", "returned", "input contains NaN but a result was returned (NaN in result: %s)" % bool(torch.isnan(_dense(res, LinearOperator)).any()))
        if not isinstance(err, NanError):
            fail("nan", "exc:" + X.describe(err), "input contains NaN: expected NanError, got %r" % (err,))
        return done("NanError", True)
    if isinstance(err, NanError):
        fail("nan", "spurious", "NanError raised for an input without NaN: %r" % (err,))

    must_fail = [m for m in range(M) if accept[m] == [T + 1]]
    may_fail = [m for m in range(M) if T + 1 in accept[m]]
    n_amb = sum(1 for a in accept if len(a) > 1)
    amb_lab = ["ambiguous_members:%d" % min(n_amb, 3)] if n_amb else []

    # ---- every try fails => NotPSDError ---------------------------------------------------------
    if err is not None:
        if not isinstance(err, NotPSDError):
            fail("result", "exc:" + X.describe(err), "unexpected exception %r (accept=%r, j=%r, T=%d)" % (err, accept, j, T))
        if not may_fail:
            fail(
                "notpsd",
                "spurious",
                "NotPSDError although every member is positive definite after at most %d tries: accept=%r lambda_min=%r j=%r T=%d"
                % (T, accept, lam.tolist(), j, T),
            )
        return done("NotPSDError", True, amb_lab)
    if must_fail:
        fail(
            "notpsd",
            "returned",
            "member(s) %r stay indefinite after the last try (lambda_min=%r, last jitter=%r) but a factor was returned"
            % (must_fail, [float(lam[m]) for m in must_fail], ts[-1]),
        )

    # ---- a factor was returned ------------------------------------------------------------------
    F = _dense(res, LinearOperator)
    if F is None:
        fail("result", "type", "result is %s" % type(res).__name__)
    if tuple(F.shape) != shape:
        fail("result", "shape", "factor shape %s != input shape %s" % (tuple(F.shape), shape))
    if F.dtype != tdt:
        fail("result", "dtype", "factor dtype %s != input dtype %s" % (F.dtype, tdt))
    if not bool(torch.isfinite(F).all()):
        fail("result", "nan", "factor contains NaN/Inf (accept=%r)" % (accept,))
    Fm = F.reshape(M, n, n)
    Lw = Fm.mT if upper else Fm  # upper=True must return the transpose of the lower factor
    if bool((Lw.triu(1) != 0).any()):
        fail("upper", "triangle", "factor returned with upper=%s is not %s-triangular" % (upper, "upper" if upper else "lower"))
    L64 = Lw.to(torch.float64)
    R = L64 @ L64.mT - A64
    t_obs = R.diagonal(dim1=-1, dim2=-2).mean(dim=-1)
    ref_L, ref_info = torch.linalg.cholesky_ex(L.value(case["A"]).reshape(M, n, n))
    stages = []
    for m in range(M):
        nm = float(nrm[m])
        cands = [s for s in accept[m] if s <= T]
        tol_of = lambda s: RECON_C * (n + 1 + T) * u * (nm + ts[s]) + JIT_REL * ts[s]  # noqa: E731
        to = float(t_obs[m])
        s_best = min(cands, key=lambda s: abs(to - ts[s]))
        if abs(to - ts[s_best]) > tol_of(s_best):
            others = [s for s in range(T + 1) if s not in cands and abs(to - ts[s]) <= tol_of(s)]
            info = "member %d: total added jitter mean diag(LL^T-A)=%.6g, acceptable stage(s) %r -> jitter %r (lambda_min=%.6g, ||A||=%.3g, j=%r, T=%d)" % (
                m, to, cands, [ts[s] for s in cands], float(lam[m]), nm, j, T)
            if cands == [0]:
                fail("jitter", "pd_member_perturbed", info)
            if others:
                fail("jitter", "wrong_try", info + "; matches stage %r instead" % others)
            fail("jitter", "amount", info)
        s = s_best
        stages.append(s)
        E = R[m] - ts[s] * torch.eye(n, dtype=torch.float64)
        if float(E.abs().max()) > tol_of(s):
            fail("recon", "value", "member %d: max|LL^T - (A + %r I)| = %.3g > %.3g" % (m, ts[s], float(E.abs().max()), tol_of(s)))
        if s == 0:
            # no jitter was needed: the factor is THE Cholesky factor of A (same kernel on the same values -> bitwise)
            if int(ref_info[m]) != 0:
                fail("pd_exact", "value", "member %d returned without jitter although torch.linalg.cholesky_ex(A) reports info=%d" % (m, int(ref_info[m])))
            if not torch.equal(_bits(Lw[m].contiguous()), _bits(ref_L[m].contiguous())):
                d = float((Lw[m] - ref_L[m]).abs().max())
                fail("pd_exact", "value", "member %d needs no jitter but the factor differs from torch.linalg.cholesky(A) (max diff %.3g)" % (m, d))
    smax = max(stages)
    if smax == 0 and n_warn:
        fail("warn", "spurious", "%d NumericalWarning(s) although no jitter was added" % n_warn)
    if smax > 0 and not n_warn:
        fail("warn", "missing", "jitter %r was added (stage %d) without a NumericalWarning" % (ts[smax], smax))

    mixed = len(set(stages)) > 1
    extra = list(amb_lab)
    extra.append("maxstage:%d" % smax)
    if mixed:
        extra.append("mixed_stages")
        if 0 in stages:
            extra.append("mixed_good+bad")
    if smax == T:
        extra.append("last_try_needed")
    if dt == "f64" and smax > 0:
        m = stages.index(smax)
        if abs(float(t_obs[m]) - ts[smax]) > RECON_C * (n + 1 + T) * u * (float(nrm[m]) + ts[smax]):
            extra.append("obs:jitter_rounded_to_f32")
    return done("jitter" if smax > 0 else "pd", smax > 0 or mixed, extra)


def _dense(res, LinearOperator):
    if torch.is_tensor(res):
        return res
    if isinstance(res, LinearOperator):
        return res.to_dense()
    return None


def gaps(labels):
    want = [
        "dtype:f32", "dtype:f64", "route:fn", "route:op", "upper:0", "upper:1", "outcome:pd", "outcome:jitter", "outcome:NanError",
        "outcome:NotPSDError", "mixed_stages", "mixed_good+bad", "last_try_needed", "jitter_src:arg", "jitter_src:setting",
        "jitter_src:default", "tries_src:arg", "tries_src:setting", "tries_src:default", "lay:exp", "lay:t", "lay:s", "lay:n",
    ]
    out = ["never reached: " + w for w in want if not labels.get(w)]
    if not any(k.startswith("ambiguous_members") for k in labels):
        out.append("never reached: ambiguous members")
    return out


def coverage_extra():
    return {
        "tolerances": {
            "delta_unit(n,T)": "2*(n(n+1)+T+2)*u + 64*n*u64 (x scale) + 2^-22*t  [Demmel/Higham Thm 10.7, doubled]",
            "recon": "4*(n+1+T)*u*(||A||_2+t) + 2^-22*t  [Higham Thm 10.3 + T diagonal roundings, x4]",
            "jitter_relative": JIT_REL,
            "generator_margin": MARGIN,
        }
    }


TRIGGERS = {}
