"""C19 -- incompatible shapes and out-of-range indices raise, never mis-compute (DESIGN section 4, C19)."""
import torch
from hypothesis import strategies as st

from lov import exc as X
from lov import gen, lit as L, recipe as R, refmodel, state
from lov.core import HarnessError, Violation
from lov.findings import load as load_findings
from lov.props import c03

ID = "C19"
RULE = (
    "case = (operator recipe, operation from {matmul, rmatmul, solve, inv_quad, inv_quad_logdet, logdet/diagonal/root/cholesky on "
    "rectangular operators, +, -, elementwise *, add_diagonal, cat, expand, getitem}, a BAD second operand produced by mutating a "
    "good one: wrong inner dimension, inner dimension 1, extra / missing dims, non-broadcastable batch, index == size or < -size "
    "(int, 0-d and 1-d tensor), too many indices, two ellipses). The same operation is first attempted on the dense reference with "
    "torch: the case is kept only if torch raises. Then the library must raise; a returned value (for lazy results: shape read and "
    "densified successfully) is the violation. Non-trivial: operator class overrides matmul / __add__ / _getitem or is not Dense. "
    "Distinct by (head class, operation, mutation kind, debug flag)."
)
FUZZ = {"workers": 8, "runs": 3000}  # Atheris campaigns in the thorough tier (DESIGN section 5)
BUDGET = {"quick": 2000, "thorough": 6000}
ASSUMPTIONS = [
    "torch's verdict on the dense operand is the specification of 'incompatible'",
    "a lazy result whose evaluation raises is a deferred raise (accepted, counted separately)",
]

OPS = ["matmul", "matmul", "rmatmul", "solve", "inv_quad", "inv_quad_logdet", "square_only", "add", "sub", "mul", "add_diagonal", "cat", "expand", "getitem", "getitem"]
SQUARE_ONLY = ["logdet", "diagonal", "solve", "inv_quad", "root_decomposition", "root_inv_decomposition", "cholesky", "add_diagonal", "eigh", "diagonalization"]


def _exclusions():
    ex = set()
    for e in load_findings():
        if e.get("status", "open") == "open":
            ex.update(e.get("exclude_nodes", []))
            if e.get("property") == ID:
                ex.update(e.get("exclude_nodes_c19", []))
    return tuple(sorted(ex))


def _open_triggers():
    return {e.get("trigger") for e in load_findings() if e.get("property") == ID and e.get("status", "open") == "open"}


@st.composite
def bad_rhs(draw, shape, dt, n_rows):
    """A right-hand side whose shape torch.matmul(dense, .) rejects (by construction, verified in check())."""
    batch = tuple(shape[:-2])
    kind = draw(st.sampled_from(["wrong_inner", "inner_1", "inner_1", "vector_wrong", "vector_1", "bad_batch", "wrong_inner_batched"]))
    cfg = gen.Cfg(dt=dt)
    c = draw(st.integers(1, 3))
    if kind == "wrong_inner":
        k = draw(st.sampled_from([n_rows + 1, n_rows + 2, max(2, n_rows - 1) if n_rows - 1 != n_rows else n_rows + 1, 2 * n_rows]))
        shp = (k, c)
    elif kind == "inner_1":
        shp = (1, c)
    elif kind == "vector_wrong":
        shp = (n_rows + draw(st.integers(1, 2)),)
    elif kind == "vector_1":
        shp = (1,)
    elif kind == "bad_batch":
        bad = tuple((b + 1 if b > 1 else 3) for b in batch) if batch else (2,)
        if batch:
            shp = tuple(b + 1 if b > 1 else b for b in batch)
            if shp == batch:
                shp = (batch[0] + 1,) + batch[1:] if batch[0] > 1 else (2, 3)[: len(batch)] + batch[len((2, 3)[: len(batch)]) :]
            shp = shp + (n_rows, c)
        else:
            shp = (n_rows + 1, c)
            kind = "wrong_inner"
    else:
        shp = batch + (n_rows + 1, c)
    return kind, gen.flit(draw, cfg, shp, -8, 8)


@st.composite
def bad_index(draw, shape):
    nd = len(shape)
    kind = draw(st.sampled_from(["int_eq_size", "int_lt_neg", "tensor_eq_size", "tensor_lt_neg", "tensor0_eq_size", "too_many", "two_ellipsis", "list_eq_size"]))
    pos = draw(st.integers(0, nd - 1))
    size = shape[pos]
    items = [{"k": "slice", "v": [None, None, None]} for _ in range(nd)]
    if kind == "int_eq_size":
        items[pos] = {"k": "int", "v": size + draw(st.integers(0, 2))}
    elif kind == "int_lt_neg":
        items[pos] = {"k": "int", "v": -size - draw(st.integers(1, 2))}
    elif kind == "tensor_eq_size":
        vals = [draw(st.integers(0, size - 1)) for _ in range(draw(st.integers(0, 2)))] + [size + draw(st.integers(0, 1))]
        items[pos] = {"k": "tensor", "v": vals}
    elif kind == "list_eq_size":
        items[pos] = {"k": "list", "v": [0, size]}
    elif kind == "tensor_lt_neg":
        items[pos] = {"k": "tensor", "v": [-size - 1] + [draw(st.integers(0, size - 1)) for _ in range(draw(st.integers(0, 2)))]}
    elif kind == "tensor0_eq_size":
        items[pos] = {"k": "tensor", "v": size}
    elif kind == "too_many":
        items = items + [{"k": "int", "v": 0}]
    elif kind == "two_ellipsis":
        items = [{"k": "ellipsis"}, {"k": "int", "v": 0}, {"k": "ellipsis"}]
    # optionally a second, valid, non-trivial index elsewhere
    if kind not in ("too_many", "two_ellipsis") and nd > 1 and draw(st.booleans()):
        other = draw(st.integers(0, nd - 1))
        if other != pos:
            items[other] = {"k": "int", "v": draw(st.integers(0, shape[other] - 1))} if draw(st.booleans()) else {"k": "tensor", "v": [draw(st.integers(0, shape[other] - 1))]}
    while kind not in ("too_many", "two_ellipsis") and len(items) > pos + 1 and items[-1] == {"k": "slice", "v": [None, None, None]} and draw(st.booleans()):
        items.pop()
    return kind, items


def structured_operand(draw, cfg, dt, batch, rows, cols):
    """a second OPERATOR operand of the given shape from the structured leaf classes (fast paths skip generic validation)"""
    kinds = ["Dense", "Zero"] + (["Diag", "Identity", "ConstantDiag"] if rows == cols else [])
    k = draw(st.sampled_from(kinds))
    batch = tuple(batch)
    if k == "Dense":
        return gen.mk_dense(draw, cfg, "any", rows, cols, batch, 1)
    if k == "Zero":
        return {"op": "Zero", "sizes": list(batch) + [rows, cols], "dt": dt}
    if k == "Diag":
        return {"op": "Diag", "d": gen.flit(draw, cfg, batch + (cols,), 1, 8)}
    if k == "Identity":
        return {"op": "Identity", "n": cols, "batch": list(batch), "dt": dt}
    return {"op": "ConstantDiag", "c": gen.flit(draw, cfg, batch + (1,), 1, 8), "n": cols}


@st.composite
def cases(draw, tier):
    ex = _exclusions()
    opn = draw(st.sampled_from(OPS))
    dom = "any"
    square = None
    if opn in ("solve", "inv_quad", "inv_quad_logdet"):
        dom = "pd"
    if opn == "square_only":
        square = False
    if opn in ("add_diagonal",):
        square = True
    max_depth = 2 if tier == "quick" else 3
    if draw(st.integers(0, 2)) and dom == "any":
        r = draw(gen.head_first_recipes("any", max_depth=max_depth, exclude=ex))
    else:
        r = draw(gen.recipes(dom, max_depth=max_depth, exclude=ex, square=square))
    shape = refmodel.shape(r)
    dt = R.dtype_of(r)
    case = {"recipe": r, "opn": opn, "debug": draw(st.sampled_from([True, True, False]))}
    m, n = shape[-2], shape[-1]
    batch = tuple(shape[:-2])
    cfg = gen.Cfg(dt=dt)
    if opn in ("matmul", "rmatmul") and draw(st.integers(0, 2)) == 0:
        # operator (not tensor) second operand whose inner dimension is wrong (k = 1 is the broadcasting trap)
        inner = n if opn == "matmul" else m
        k = draw(st.sampled_from([1, inner + 1] if inner != 1 else [2, 3]))
        c = draw(st.sampled_from([k, k, 1, 2]))
        case["mut"] = "op_inner_1" if k == 1 else "op_wrong_inner"
        case["rhs_op"] = structured_operand(draw, cfg, dt, batch if draw(st.booleans()) else (), k, c) if opn == "matmul" else structured_operand(draw, cfg, dt, batch if draw(st.booleans()) else (), c, k)
    elif opn in ("matmul", "solve", "inv_quad", "inv_quad_logdet"):
        case["mut"], case["rhs"] = draw(bad_rhs(shape, dt, n))
    elif opn == "rmatmul":
        # left operand Y (.., c, k) with k != m
        kind = draw(st.sampled_from(["wrong_inner", "inner_1", "vector_wrong", "vector_1"]))
        if kind == "wrong_inner":
            shp = (draw(st.integers(1, 2)), m + draw(st.integers(1, 2)))
        elif kind == "inner_1":
            shp = (draw(st.integers(1, 2)), 1)
        elif kind == "vector_wrong":
            shp = (m + 1,)
        else:
            shp = (1,)
        case["mut"], case["rhs"] = kind, gen.flit(draw, cfg, shp, -8, 8)
    elif opn == "square_only":
        case["mut"] = draw(st.sampled_from(SQUARE_ONLY))
        if case["mut"] in ("solve", "inv_quad"):
            case["rhs"] = gen.flit(draw, cfg, (n, 1), -8, 8)
        if case["mut"] == "add_diagonal":
            case["rhs"] = gen.flit(draw, cfg, (min(m, n),), 1, 8)
    elif opn in ("add", "sub", "mul"):
        kind = draw(st.sampled_from(["rows", "cols", "batch", "rows_1_ok?", "both", "both", "both", "both"]))
        if kind == "both":
            # another size in BOTH matrix dimensions: for a square operator the bad operand is square too, so the
            # diagonal-like classes (Diag, ConstantDiag, Identity) and their fast paths are reachable
            dd = draw(st.sampled_from([1, 1, 2, -1])) if min(m, n) > 1 else draw(st.sampled_from([1, 2]))
            shp = batch + (m + dd, n + dd)
        elif kind == "rows":
            shp = batch + (m + 1, n)
        elif kind == "cols":
            shp = batch + (m, n + 2)
        elif kind == "batch":
            shp = ((batch[0] + 1,) + batch[1:] if batch and batch[0] > 1 else (2, 3)) + (m, n)
        else:
            shp = batch + (m + 1, 1)
        case["mut"] = kind
        if draw(st.integers(0, 3)) == 0:
            case["rhs"] = gen.flit(draw, cfg, shp, -8, 8)
        else:
            if draw(st.integers(0, 3)) == 0:
                case["rhs_op"] = gen.mk_dense(draw, cfg, "any", shp[-2], shp[-1], shp[:-2], 1) if draw(st.booleans()) else {"op": "Diag", "d": gen.flit(draw, cfg, shp[:-2] + (shp[-1],), 1, 8)}
            else:
                case["rhs_op"] = structured_operand(draw, cfg, dt, shp[:-2], shp[-2], shp[-1])
            case["rev"] = draw(st.booleans())  # other (op) operand first
    elif opn == "add_diagonal":
        kind = draw(st.sampled_from(["too_long", "too_short", "bad_batch"]))
        if kind == "too_long":
            shp = (n + 1,)
        elif kind == "too_short":
            shp = (max(2, n - 1),) if n - 1 not in (1, n) and n > 2 else (n + 2,)
        else:
            shp = ((batch[0] + 1,) if batch and batch[0] > 1 else (2, 3)) + (n,)
        case["mut"], case["rhs"] = kind, gen.flit(draw, cfg, shp, 1, 8)
    elif opn == "cat":
        if len(batch) >= 2 and draw(st.integers(0, 2)) > 0:
            # concatenation along a BATCH dimension: the other batch dimensions (or a matrix dimension) differ
            bd = draw(st.integers(0, len(batch) - 1))
            ob = list(batch)
            other = [m, n]
            which = draw(st.sampled_from(["other_batch", "other_batch", "rows", "cols"]))
            if which == "other_batch":
                j = draw(st.sampled_from([i for i in range(len(batch)) if i != bd]))
                # (a size torch.cat rejects; a singleton against a size > 1 would BROADCAST in a matmul, so a bogus result
                #  can silently compute)
                ob[j] = 1 if (batch[j] > 1 and draw(st.booleans())) else batch[j] + 1
            else:
                other[0 if which == "rows" else 1] += 1
            ob[bd] = draw(st.integers(1, 2))
            dim = bd if draw(st.booleans()) else bd - len(batch) - 2
            case["mut"] = "cat_batchdim_" + which
            case["dim"] = dim
            case["rhs_op"] = gen.mk_dense(draw, cfg, "any", other[0], other[1], tuple(ob), 1)
        else:
            dim = draw(st.sampled_from([-1, -2]))
            other = [m, n]
            other[0 if dim == -1 else 1] += 1
            case["mut"] = "cat_dim%d" % dim
            case["dim"] = dim
            case["rhs_op"] = gen.mk_dense(draw, cfg, "any", other[0], other[1], batch, 1)
    elif opn == "expand":
        kind = draw(st.sampled_from(["batch_not_1", "matrix_changed", "fewer_dims", "neg_new_dim", "neg_size"]))
        if kind == "batch_not_1" and batch and any(b > 1 for b in batch):
            tgt = [b + 1 if b > 1 else b for b in batch] + [m, n]
        elif kind == "fewer_dims" and batch:
            # a target with fewer dimensions than the operator (trailing sizes compatible)
            drop = draw(st.integers(1, len(batch)))
            mat = draw(st.sampled_from([[m, n], [-1, -1]]))
            tgt = list(batch[drop:]) + mat
        elif kind == "neg_new_dim":
            # -1 in a new leading (non-existing) dimension
            tgt = [-1] + list(batch) + [m, n]
        elif kind == "neg_size":
            tgt = [2, -2] + list(batch) + [m, n] if draw(st.booleans()) or not batch else [-2 if i == 0 else b for i, b in enumerate(batch)] + [m, n]
        else:
            kind = "matrix_changed"
            tgt = list(batch) + [m + 1, n]
        case["mut"], case["target"] = kind, tgt
    else:
        case["mut"], case["index"] = draw(bad_index(shape))
    return case


def strategy(tier):
    return cases(tier)


def _torch_rejects(fn):
    try:
        fn()
    except (RuntimeError, IndexError, ValueError, TypeError):
        return True
    return False


def _force(res, probe_matmul=False):
    """A returned object counts as a value once its shape can be read and it densifies (with probe_matmul: or multiplies)."""
    if torch.is_tensor(res):
        return "tensor", tuple(res.shape)
    if isinstance(res, tuple):
        for x in res:
            if x is not None:
                _force(x)
        return "tuple", None
    if hasattr(res, "to_dense"):
        shp = tuple(res.shape)
        try:
            res.to_dense()
        except Exception:
            # the lazy object does not densify: it still counts as a returned VALUE if it silently multiplies a right-hand
            # side that conforms to the shape it claims (an operator for an operation torch rejects that computes something)
            if len(shp) < 2 or not probe_matmul:
                raise
            res.matmul(torch.ones(*shp[:-2], shp[-1], 1, dtype=res.dtype))
            return "lazy(matmul only)", shp
        return "lazy", shp
    return type(res).__name__, None


def check(case):
    r, opn, mut = case["recipe"], case["opn"], case["mut"]
    ref = refmodel.dense(r)
    head = r["op"]
    tdt = L.DT[R.dtype_of(r)]
    square = ref.shape[-1] == ref.shape[-2]
    x = L.materialise(case["rhs"]) if "rhs" in case else None
    x64 = L.value(case["rhs"], torch.float64) if "rhs" in case else None
    ro = case.get("rhs_op")
    if ro is not None:
        o_ref = refmodel.dense(ro)

    # ---- torch's verdict on the dense operand
    if opn == "matmul" and ro is not None:
        rejected = _torch_rejects(lambda: torch.matmul(ref, o_ref))
    elif opn == "rmatmul" and ro is not None:
        rejected = _torch_rejects(lambda: torch.matmul(o_ref, ref))
    elif opn in ("matmul", "solve", "inv_quad", "inv_quad_logdet"):
        rejected = _torch_rejects(lambda: torch.matmul(ref, x64))
    elif opn == "rmatmul":
        rejected = _torch_rejects(lambda: torch.matmul(x64, ref))
    elif opn == "square_only":
        rejected = not square
    elif opn in ("add", "sub", "mul"):
        other = x64 if x64 is not None else o_ref
        rejected = _torch_rejects(lambda: ref + other)
    elif opn == "add_diagonal":
        n_ = ref.shape[-1]

        def dense_add_diag():
            if x64.dim() == 0:
                return ref + x64 * torch.eye(n_, dtype=torch.float64)
            if x64.shape[-1] not in (1, n_):
                raise RuntimeError("diagonal of wrong length")
            return ref + torch.diag_embed(x64.expand(*x64.shape[:-1], n_))

        rejected = (not square) or _torch_rejects(dense_add_diag)
    elif opn == "cat":
        rejected = _torch_rejects(lambda: torch.cat([ref, o_ref], dim=case["dim"]))
    elif opn == "expand":
        rejected = _torch_rejects(lambda: ref.expand(*case["target"]))
    elif opn == "getitem":
        try:
            index = c03.to_index(case["index"])
        except Exception:
            raise HarnessError("bad index encoding")
        rejected = _torch_rejects(lambda: ref[index])
    else:
        raise HarnessError("unknown opn %s" % opn)
    if not rejected:
        return {"nontrivial": False, "labels": ["accepted_by_torch:" + opn], "key": "accepted"}

    try:
        op = R.build(r)
    except Exception:
        return {"nontrivial": False, "labels": ["build_failed"], "key": "build_failed"}
    other_lib = R.build(ro) if ro is not None else x
    state.settings.debug._state = bool(case["debug"])
    outcome = None
    try:
        if opn == "matmul":
            res = op @ other_lib
        elif opn == "rmatmul":
            res = other_lib @ op
        elif opn == "solve":
            res = op.solve(x)
        elif opn == "inv_quad":
            res = op.inv_quad(x)
        elif opn == "inv_quad_logdet":
            res = op.inv_quad_logdet(x, logdet=True)
        elif opn == "square_only":
            if mut == "logdet":
                res = op.logdet()
            elif mut == "diagonal":
                res = op.diagonal()
            elif mut == "solve":
                res = op.solve(x)
            elif mut == "inv_quad":
                res = op.inv_quad(x)
            elif mut == "root_decomposition":
                res = op.root_decomposition().root
            elif mut == "root_inv_decomposition":
                res = op.root_inv_decomposition().root
            elif mut == "cholesky":
                res = op.cholesky()
            elif mut == "add_diagonal":
                res = op.add_diagonal(x)
            elif mut == "eigh":
                res = op.eigh()
            else:
                res = op.diagonalization()
        elif opn == "add":
            res = other_lib + op if case.get("rev") else op + other_lib
        elif opn == "sub":
            res = other_lib - op if case.get("rev") else op - other_lib
        elif opn == "mul":
            res = other_lib * op if case.get("rev") else op * other_lib
        elif opn == "add_diagonal":
            res = op.add_diagonal(x)
        elif opn == "cat":
            from linear_operator.operators import cat as lo_cat

            res = lo_cat([op, other_lib], dim=case["dim"])
        elif opn == "expand":
            res = op.expand(*case["target"])
        else:
            res = op[index]
        try:
            # (under debug(False) the constructors' shape checks are documented as skipped: a lazy result that fails only
            #  when densified is the documented consequence there; with the checks on it must not compute anything)
            kind, shp = _force(res, probe_matmul=bool(case["debug"]))
            outcome = ("value", kind, shp)
        except Exception as e2:
            outcome = ("deferred_raise", type(e2).__name__, None)
    except Exception as e:
        outcome = ("raise", type(e).__name__, None)
    finally:
        state.settings.debug._state = None

    labels = ["head:" + head, "op:" + opn, "operand:" + (ro["op"] + (":rev" if case.get("rev") else "") if ro is not None else "tensor"), "mut:" + str(mut), "debug:%s" % case["debug"], "outcome:" + outcome[0], "exc:" + str(outcome[1]) if outcome[0] != "value" else "value:" + str(outcome[1])]
    labels += ["class:" + c for c in R.classes(r)]
    if outcome[0] == "value":
        what = case.get("index") if opn == "getitem" else (list(L.shape_of(case["rhs"])) if "rhs" in case else (list(o_ref.shape) if ro is not None else case.get("target")))
        raise Violation(
            "C19|%s|%s|%s|returned" % (opn, mut, head),
            "torch rejects the dense operation but the library returned a %s of shape %s :: operator %s shape %s, operand/index %s, debug=%s"
            % (outcome[1], outcome[2], R.class_path(r), tuple(ref.shape), what, case["debug"]),
        )
    return {
        "nontrivial": head not in ("Dense",),
        "key": {"head": head, "opn": opn, "mut": mut, "debug": case["debug"], "outcome": outcome[0]},
        "labels": labels,
        "sample": {"recipe": R.class_path(r), "shape": list(ref.shape), "opn": opn, "mut": mut, "operand": case.get("index") or (list(L.shape_of(case["rhs"])) if "rhs" in case else None), "outcome": outcome[:2]},
    }


def _mk_trig(opn=None, mut=None, head=None, debug=None):
    def f(case):
        if opn is not None and case["opn"] not in (opn if isinstance(opn, (list, tuple)) else [opn]):
            return False
        if mut is not None and case["mut"] not in (mut if isinstance(mut, (list, tuple)) else [mut]):
            return False
        if head is not None and case["recipe"]["op"] not in (head if isinstance(head, (list, tuple)) else [head]):
            return False
        if debug is not None and bool(case["debug"]) != debug:
            return False
        return True

    return f


TRIGGERS = {
    "inner_dim_1_broadcast": _mk_trig(opn=["matmul", "rmatmul", "solve", "inv_quad", "inv_quad_logdet"], mut=["inner_1", "vector_1"]),
    "index_out_of_range_debug_off": _mk_trig(opn="getitem", debug=False),
}


def gaps(labels):
    seen = {k.split(":", 1)[1] for k in labels if k.startswith("op:")}
    return sorted("operation never generated: " + s for s in set(OPS) - seen)
