"""C20 -- utility kernels equal their dense definitions (DESIGN section 4, C20).

A case is {"fn": <kernel name>, "dt": "f32"|"f64", args...}.  The strategy picks the kernel first (uniform over FNS,
tiny-domain kernels listed once, the others twice), then generates arguments inside the *documented* domain of that
kernel (docstring + the sub-domain the unit tests / operator classes use where the docstring is empty).  Oracles are
dense definitions written here with plain torch in float64.

Tolerances (DESIGN section 3), all recorded here:
  * pure selections (toeplitz, sym_toeplitz, toeplitz_getitem, to_sparse, sparse_eye, permutations, _pad_with_singletons,
    _matmul_broadcast_shape): bitwise / exact equality.
  * sums of products (interp, sparse products, sparse construction / indexing / repetition, DSMM gradient):
    |lib-ref| <= 256 * k * u * S elementwise, S = (|A| |X|) computed from the reference, k = inner dimension
    (lov.tol.exact_bound, depth 0).
  * FFT Toeplitz products: the FFT convolution error is normwise, so S = ||[c, rev(r)]||_1 * ||x_j||_2 per batch member
    and column, bound 256 * (4 + log2(2n-1)) * u * S.
  * stable_qr: ||Q^T Q - I||_max <= 256 m u;  |QR - A| <= 256 m u ||A||_F (+ 1.001e-6 only if the returned R has a
    diagonal entry of magnitude < 2.001e-6, the only range the documented 1e-6 jitter can produce); R exactly upper
    triangular; |diag R| >= 0.999e-6.
  * stable_pinverse: on well-conditioned input (sigma_min >= 1e-5 + 1e3 u sigma_max, kappa <= 1e4 (f64) / 30 (f32), so
    the jitter branch cannot be taken) the four Moore-Penrose conditions and the distance to torch.linalg.pinv(float64)
    are bounded by 64 * max(m,n) * u * kappa^2 (relative, Frobenius); otherwise only shape / dtype / finiteness (the
    documented behaviour there is "jitter 1e-6 on the diagonal of R", which bounds nothing else).
"""
import math
import os

import torch
from hypothesis import strategies as st

from lov import exc as X
from lov import gen, lit as L, tol
from lov.core import HarnessError, Violation

ID = "C20"
RULE = (
    "case = (kernel name picked first, then its arguments inside the documented domain: n in 1..6, batch kinds "
    "()/(1,)/(2,)/(3,)/(1,1)/(2,1)/(1,3)/(2,3)/(2,1,2) and broadcasting pairs, vector and matrix rhs, duplicate "
    "interpolation indices, zero values, empty sparse tensors, repeat counts 1..3, ints and slices, full / partial / "
    "batched permutations, tall / square / fat / rank-deficient matrices, f32/f64). Non-trivial: non-empty batch OR "
    "broadcasting OR vector rhs OR duplicates / zeros / empty sparse OR partial permutation OR rectangular / deficient "
    "matrix OR n == 1. Distinct by hash of the whole case."
)
FUZZ = {"workers": 8, "runs": 3000}  # Atheris campaigns in the thorough tier (DESIGN section 5)
BUDGET = {"quick": 3000, "thorough": 8000}
ASSUMPTIONS = [
    "documented domain = docstring; where the docstring is empty (left_interp, left_t_interp, sparse_getitem, sparse_repeat, "
    "to_sparse, bdsmm) the domain is the one the unit tests and the operator classes use, extended only along the axes the "
    "property statement names (batch, broadcasting, vector rhs, duplicates, zeros, empty, ints/slices, repeat counts)",
    "toeplitz(): the row has length n (its docstring says n-1 but the code and every sibling docstring say n)",
    "make_sparse_from_indices_and_values: result is (batch) x num_rows x num_cols ('num_rows - the number of rows in the result "
    "matrix', 'non-zero entries in each column'); the 'Returns' line of the docstring lists the two sizes in the other order",
    "slices select >= 1 element and have step None/1 (sparse_getitem raises an explicit 'not supported' for other steps)",
    "repeat counts are >= 1; len(repeat_sizes) >= sparse.dim() as torch.Tensor.repeat requires",
]
SHARDS = 16

TINY_FNS = ["sparse_eye", "_pad_with_singletons", "_matmul_broadcast_shape", "toeplitz_getitem", "sym_toeplitz"]
BIG_FNS = [
    "toeplitz",
    "toeplitz_matmul",
    "sym_toeplitz_matmul",
    "sym_toeplitz_derivative_quadratic_form",
    "left_interp",
    "left_t_interp",
    "make_sparse_from_indices_and_values",
    "bdsmm",
    "dsmm",
    "dsmm_grad",
    "sparse_getitem",
    "sparse_repeat",
    "to_sparse",
    "apply_permutation",
    "inverse_permutation",
    "stable_qr",
    "stable_pinverse",
]
FNS = TINY_FNS + BIG_FNS + BIG_FNS

BATCHES = [(), (), (), (1,), (2,), (3,), (1, 1), (2, 1), (1, 3), (2, 3), (2, 1, 2)]


# ------------------------------------------------------------------------------------------------------------------
# known-findings switch (generator side): triggers of *open* C20 entries are avoided by construction
# ------------------------------------------------------------------------------------------------------------------
_AVOID = None


def _open_triggers():
    """Triggers of open C20 findings (+ LOV_C20_EXCLUDE, a development switch); read once per process."""
    global _AVOID
    if _AVOID is None:
        _AVOID = frozenset(_read_open_triggers())
    return _AVOID


def _read_open_triggers():
    from lov.findings import load

    names = set(t for t in os.environ.get("LOV_C20_EXCLUDE", "").split(",") if t)
    for e in load():
        if e.get("property") == ID and e.get("status", "open") == "open" and e.get("trigger"):
            names.add(e["trigger"])
    return names


# ------------------------------------------------------------------------------------------------------------------
# small generation helpers
# ------------------------------------------------------------------------------------------------------------------
def _numel(shape):
    p = 1
    for s in shape:
        p *= s
    return p


def _vals(draw, dt, shape, zeros="few", lo=-32, hi=32):
    """Float literal on the exact grid; zeros: 'few' (as drawn), 'some' (a drawn mask), 'all'."""
    l = gen.flit(draw, gen.Cfg(dt=dt), tuple(shape), lo, hi)
    if zeros == "all":
        l["lit"] = gen._map2(l["lit"], lambda v: 0.0)
    elif zeros == "some" and _numel(shape):
        mask = draw(st.lists(st.booleans(), min_size=_numel(shape), max_size=_numel(shape)))
        it = iter(mask)
        l["lit"] = gen._map2(l["lit"], lambda v: 0.0 if next(it) else v)
    return l


def _ints(draw, shape, lo, hi):
    n = _numel(shape)
    flat = draw(st.lists(st.integers(lo, hi), min_size=n, max_size=n)) if n else []
    return L.lit(gen._nest(flat, tuple(shape)) if shape else flat[0], "i64")


def _batch_pair(draw):
    """Two batch shapes that broadcast against each other (both derived from one target)."""
    target = draw(st.sampled_from(BATCHES))
    return gen.sub_batch(draw, target), gen.sub_batch(draw, target)


def _dt(draw):
    return draw(st.sampled_from(["f64", "f64", "f32"]))


def _rhs_shape(draw, op_batch, n, allow_vector=True):
    """Right-hand-side shape for an operand with batch op_batch and inner size n; returns (kind, shape)."""
    kinds = ["matrix", "matrix", "batched", "bc"]
    if allow_vector:
        kinds += ["vector", "vector"]
    kind = draw(st.sampled_from(kinds))
    p = draw(st.integers(1, 3))
    if kind == "vector":
        return kind, (n,)
    if kind == "matrix":
        return kind, (n, p)
    if kind == "batched":
        return kind, tuple(op_batch) + (n, p)
    return kind, None  # caller draws a broadcasting pair


# ------------------------------------------------------------------------------------------------------------------
# generators, one per kernel
# ------------------------------------------------------------------------------------------------------------------
def _col_row(draw, dt, shape, sym):
    c = _vals(draw, dt, shape, draw(st.sampled_from(["few", "few", "some"])))
    if sym:
        return c, None
    r = _vals(draw, dt, shape, "few")
    # r[..., 0] := c[..., 0]  (the kernels reject an ambiguous T[0,0])
    def fix(cv, rv):
        if isinstance(cv[0], list):
            return [fix(a, b) for a, b in zip(cv, rv)]
        return [cv[0]] + list(rv[1:])

    if r["lit"] != c["lit"]:
        # flit may have applied different scales: rescaling keeps both exact, copying the first entry keeps the domain
        r["lit"] = fix(c["lit"], r["lit"])
    return c, r


def g_toeplitz(draw, avoid):
    dt, n = _dt(draw), draw(st.integers(1, 6))
    c, r = _col_row(draw, dt, (n,), False)
    return {"col": c, "row": r}


def g_sym_toeplitz(draw, avoid):
    dt, n = _dt(draw), draw(st.integers(1, 6))
    c, _ = _col_row(draw, dt, (n,), True)
    return {"col": c}


def g_toeplitz_getitem(draw, avoid):
    case = g_toeplitz(draw, avoid)
    n = L.shape_of(case["col"])[0]
    case["i"] = draw(st.integers(0, n - 1))
    case["j"] = draw(st.integers(0, n - 1))
    return case


def _g_tmm(draw, avoid, sym):
    dt, n = _dt(draw), draw(st.integers(1, 6))
    vec_ok = ("toeplitz_matmul_vector_rhs" not in avoid)
    tb, xb = _batch_pair(draw)
    kind, shape = _rhs_shape(draw, tb, n, allow_vector=vec_ok)
    if kind in ("vector", "matrix") and draw(st.booleans()):
        tb = ()  # the plainest documented combination: (n) with (n) / (n x p)
    if shape is None:
        shape = tuple(xb) + (n, draw(st.integers(1, 3)))
    c, r = _col_row(draw, dt, tuple(tb) + (n,), sym)
    case = {"col": c, "rhs": _vals(draw, dt, shape, "few", -16, 16), "rhs_kind": kind}
    if not sym:
        case["row"] = r
    return case


def g_toeplitz_matmul(draw, avoid):
    return _g_tmm(draw, avoid, False)


def g_sym_toeplitz_matmul(draw, avoid):
    return _g_tmm(draw, avoid, True)


def _dqf_doc_says_s_by_m():
    """The pinned docstring documents the matrix argument as 's x m' (the code and its only caller use m x s)."""
    from linear_operator.utils import toeplitz as T

    return "matrix s x m" in (T.sym_toeplitz_derivative_quadratic_form.__doc__ or "")


def g_dqf(draw, avoid):
    dt, m = _dt(draw), draw(st.integers(1, 6))
    orient = ["vector", "caller", "caller"]
    if "dqf_docstring_orientation" not in avoid and _dqf_doc_says_s_by_m():
        orient.append("doc")
    o = draw(st.sampled_from(orient))
    if o == "vector":
        shape = (m,)
    elif o == "caller":  # ToeplitzLinearOperator._bilinear_derivative: (... x m x s)
        shape = tuple(draw(st.sampled_from([(), (), (2,), (1,), (2, 3)]))) + (m, draw(st.integers(1, 3)))
    else:  # the docstring: "matrix s x m"
        shape = (draw(st.integers(1, 3)), m)
    return {"orient": o, "left": _vals(draw, dt, shape, "few", -16, 16), "right": _vals(draw, dt, shape, "few", -16, 16)}


def _g_interp(draw, avoid, transpose):
    dt = _dt(draw)
    rows, k, nd = draw(st.integers(1, 5)), draw(st.integers(1, 3)), draw(st.integers(1, 5))
    ib, xb = _batch_pair(draw)
    inner = rows if transpose else nd
    kind, shape = _rhs_shape(draw, ib, inner)
    if shape is None:
        shape = tuple(xb) + (inner, draw(st.integers(1, 3)))
    case = {
        "idx": _ints(draw, tuple(ib) + (rows, k), 0, nd - 1),
        "val": _vals(draw, dt, tuple(ib) + (rows, k), draw(st.sampled_from(["few", "few", "some", "all"]))),
        "rhs": _vals(draw, dt, shape, "few", -16, 16),
        "rhs_kind": kind,
    }
    if transpose:
        case["output_dim"] = nd
    else:
        case["num_data"] = nd
    return case


def g_left_interp(draw, avoid):
    return _g_interp(draw, avoid, False)


def g_left_t_interp(draw, avoid):
    return _g_interp(draw, avoid, True)


def _g_sparse(draw, dt, size, allow_empty=True):
    """Sparse COO spec: possibly uncoalesced (duplicate coordinates), explicit zeros, nnz == 0."""
    numel = _numel(size)
    mode = draw(st.sampled_from(["plain", "plain", "plain", "dup", "zeros", "empty" if allow_empty else "plain"]))
    nnz = 0 if mode == "empty" else draw(st.integers(1, min(6, 2 * numel)))
    rows = [draw(st.lists(st.integers(0, s - 1), min_size=nnz, max_size=nnz)) for s in size]
    if mode == "dup" and nnz >= 2:
        for r in rows:
            r[-1] = r[0]
    val = _vals(draw, dt, (nnz,), "some" if mode == "zeros" else "few", -16, 16)
    return {"size": list(size), "ind": L.lit(rows, "i64"), "val": val}


def g_make_sparse(draw, avoid):
    dt = _dt(draw)
    cols, k, num_rows = draw(st.integers(1, 5)), draw(st.integers(1, 3)), draw(st.integers(1, 5))
    b = draw(st.sampled_from(BATCHES))
    return {
        "idx": _ints(draw, tuple(b) + (cols, k), 0, num_rows - 1),
        "val": _vals(draw, dt, tuple(b) + (cols, k), draw(st.sampled_from(["few", "few", "some", "some", "all"]))),
        "num_rows": num_rows,
    }


def _g_spmm(draw, avoid, grad):
    dt = _dt(draw)
    m, n, o = draw(st.integers(1, 4)), draw(st.integers(1, 4)), draw(st.integers(1, 3))
    sb, db = _batch_pair(draw)
    pick = draw(st.integers(0, 7))
    if pick == 0:
        sb = ()
    elif pick == 1:
        db = ()
    case = {"sp": _g_sparse(draw, dt, tuple(sb) + (m, n)), "dense": _vals(draw, dt, tuple(db) + (n, o), "few", -16, 16)}
    if grad:
        out = tuple(torch.broadcast_shapes(tuple(sb), tuple(db))) + (m, o)
        case["gout"] = _vals(draw, dt, out, "few", -16, 16)
    return case


def g_bdsmm(draw, avoid):
    return _g_spmm(draw, avoid, False)


def g_dsmm(draw, avoid):
    return _g_spmm(draw, avoid, False)


def g_dsmm_grad(draw, avoid):
    return _g_spmm(draw, avoid, True)


def g_sparse_eye(draw, avoid):
    return {"size": draw(st.integers(1, 8))}


def _g_index(draw, size, neg_ok):
    if draw(st.booleans()):
        k = draw(st.integers(0, size - 1))
        if neg_ok and draw(st.integers(0, 4)) == 0:
            k -= size
        return {"int": k}
    a = draw(st.integers(0, size - 1))
    b = draw(st.integers(a + 1, size))
    start = draw(st.sampled_from([a, a, a - size, None if a == 0 else a]))
    stop = draw(st.sampled_from([b, b, b - size if b < size else None, None if b == size else b, size + 2 if b == size else b]))
    step = draw(st.sampled_from([None, 1]))
    return {"slice": [start, stop, step]}


def g_sparse_getitem(draw, avoid):
    dt = _dt(draw)
    nd = draw(st.sampled_from([1, 2, 2, 2]))
    size = tuple(draw(st.integers(1, 5)) for _ in range(nd))
    nidx = draw(st.integers(1, nd))
    idx = [_g_index(draw, size[i], "sparse_getitem_negative_int" not in avoid) for i in range(nidx)]
    sp = _g_sparse(draw, dt, size)
    if "sparse_getitem_last_index_without_entry" in avoid:
        # normalise: the last index item (processed first by the kernel) must select at least one stored entry
        idx = _ints_hit_entries(idx, sp, draw)
    return {"sp": sp, "idx": idx, "form": draw(st.sampled_from(["tuple", "bare"])) if nidx == 1 else "tuple"}


def _last_hits(idx, sp):
    """Stored entries selected by the LAST index item (the first one the kernel processes, while its index / value
    tensors still alias the caller's sparse tensor)."""
    ind = sp["ind"]["lit"]
    nnz = len(ind[0]) if ind else 0
    i = len(idx) - 1
    it, size = idx[i], sp["size"][i]
    if "int" in it:
        return [e for e in range(nnz) if ind[i][e] == it["int"]]
    s0, s1, _ = slice(*it["slice"]).indices(size)
    return [e for e in range(nnz) if s0 <= ind[i][e] < s1]


def _ints_hit_entries(idx, sp, draw):
    idx = [dict(x) for x in idx]
    ind = sp["ind"]["lit"]
    nnz = len(ind[0]) if ind else 0
    if nnz and not _last_hits(idx, sp):
        i = len(idx) - 1
        if "int" in idx[i]:
            idx[i] = {"int": ind[i][draw(st.integers(0, nnz - 1))]}
        else:
            idx[i] = {"slice": [None, None, None]}
    return idx


def g_sparse_repeat(draw, avoid):
    dt = _dt(draw)
    nd = draw(st.sampled_from([1, 2, 2, 3, 3]))
    size = tuple(draw(st.sampled_from([1, 1, 2, 3])) for _ in range(nd))
    extra = draw(st.sampled_from([0, 0, 1, 2]))
    form = draw(st.sampled_from(["varargs", "varargs", "tuple"]))
    if "sparse_repeat_single_int" in avoid and nd + extra == 1:
        form = "tuple"
    padded = (1,) * extra + size
    reps = []
    for s in padded:
        r = draw(st.sampled_from([1, 1, 2, 3]))
        if "sparse_repeat_dim_gt1" in avoid and s > 1:
            r = 1
        reps.append(r)
    return {"sp": _g_sparse(draw, dt, size), "reps": reps, "form": form}


def g_to_sparse(draw, avoid):
    dt = _dt(draw)
    nd = draw(st.integers(1, 3))
    shape = tuple(draw(st.integers(1, 4)) for _ in range(nd))
    return {"dense": _vals(draw, dt, shape, draw(st.sampled_from(["few", "some", "some", "all"])))}


def _perm(draw, batch, n, k):
    def one():
        return list(draw(st.permutations(list(range(n)))))[:k]

    def rec(shape):
        if not shape:
            return one()
        return [rec(shape[1:]) for _ in range(shape[0])]

    return L.lit(rec(tuple(batch)), "i64")


def g_apply_permutation(draw, avoid):
    dt, n = _dt(draw), draw(st.integers(1, 5))
    target = draw(st.sampled_from(BATCHES))
    mb = gen.sub_batch(draw, target)
    # rectangular matrices: the docstring writes `... x n x n`, but the routine indexes rows and columns separately and the
    # library itself un-pivots n x rank factors with it (pivoted Cholesky backward); the dense definition is the same
    m = n if draw(st.integers(0, 3)) else draw(st.integers(1, 5))
    case = {"mat": _vals(draw, dt, tuple(mb) + (m, n), "few"), "kind": draw(st.sampled_from(["tensor", "tensor", "tensor", "op"]))}
    sides = draw(st.sampled_from(["both", "both", "both", "left", "left", "right", "right", "none"]))
    for side in ("left", "right"):
        if sides in ("both", side):
            sz = m if side == "left" else n
            k = sz if draw(st.booleans()) else draw(st.integers(1, sz))
            pb = gen.sub_batch(draw, target) if draw(st.integers(0, 3)) else ()
            case[side] = _perm(draw, pb, sz, k)
    return case


def g_inverse_permutation(draw, avoid):
    n = draw(st.integers(1, 6))
    return {"perm": _perm(draw, draw(st.sampled_from(BATCHES)), n, n)}


def _g_matrix(draw, avoid, fn):
    dt = _dt(draw)
    kinds = ["tall", "square", "fat"]
    if fn == "stable_qr" and "stable_qr_fat_deficient" in avoid:
        pass  # fat stays, only its deficient variant is dropped below
    kind = draw(st.sampled_from(kinds))
    a, b = draw(st.integers(1, 5)), draw(st.integers(1, 5))
    lo, hi = min(a, b), max(a, b)
    if kind == "square":
        m = n = hi
    elif kind == "tall":
        m, n = (hi + 1 if hi == lo else hi), lo
    else:
        m, n = lo, (hi + 1 if hi == lo else hi)
    batch = draw(st.sampled_from([(), (), (), (2,), (1,), (2, 2)]))
    defic = draw(st.sampled_from(["generic", "generic", "generic", "generic", "dupvec", "dupvec", "zerovec", "near", "near", "zero"]))
    if fn == "stable_qr" and kind == "fat" and "stable_qr_fat_deficient" in avoid:
        defic = "generic+"  # strengthened below so that no leading minor is singular
    A = _vals(draw, dt, tuple(batch) + (m, n), "few", -16, 16)
    return {"A": A, "kind": kind, "defic": defic, "which": draw(st.integers(0, 63)), "src": draw(st.integers(0, 63))}


def g_stable_qr(draw, avoid):
    return _g_matrix(draw, avoid, "stable_qr")


def g_stable_pinverse(draw, avoid):
    return _g_matrix(draw, avoid, "stable_pinverse")


def g_mbs(draw, avoid):
    ab, bb = _batch_pair(draw)
    m, n, p = draw(st.integers(1, 4)), draw(st.integers(1, 4)), draw(st.integers(1, 4))
    vec = draw(st.integers(0, 3)) == 0
    return {"a": list(ab) + [m, n], "b": [n] if vec else list(bb) + [n, p], "as": draw(st.sampled_from(["size", "size", "tuple"]))}


def g_pad(draw, avoid):
    nd = draw(st.integers(0, 3))
    shape = tuple(draw(st.integers(1, 3)) for _ in range(nd))
    l = _ints(draw, shape, -5, 5) if draw(st.booleans()) else _vals(draw, "f32", shape)
    if nd >= 2 and draw(st.booleans()):
        l["lay"] = draw(st.sampled_from(["t", "s", "n"]))
    before, after = draw(st.integers(0, 3)), draw(st.integers(0, 3))
    if "pad_scalar_without_padding" in avoid and nd == 0 and before + after == 0:
        before = 1
    return {"obj": l, "before": before, "after": after}


GENS = {
    "toeplitz": g_toeplitz,
    "sym_toeplitz": g_sym_toeplitz,
    "toeplitz_getitem": g_toeplitz_getitem,
    "toeplitz_matmul": g_toeplitz_matmul,
    "sym_toeplitz_matmul": g_sym_toeplitz_matmul,
    "sym_toeplitz_derivative_quadratic_form": g_dqf,
    "left_interp": g_left_interp,
    "left_t_interp": g_left_t_interp,
    "make_sparse_from_indices_and_values": g_make_sparse,
    "bdsmm": g_bdsmm,
    "dsmm": g_dsmm,
    "dsmm_grad": g_dsmm_grad,
    "sparse_eye": g_sparse_eye,
    "sparse_getitem": g_sparse_getitem,
    "sparse_repeat": g_sparse_repeat,
    "to_sparse": g_to_sparse,
    "apply_permutation": g_apply_permutation,
    "inverse_permutation": g_inverse_permutation,
    "stable_qr": g_stable_qr,
    "stable_pinverse": g_stable_pinverse,
    "_matmul_broadcast_shape": g_mbs,
    "_pad_with_singletons": g_pad,
}


@st.composite
def cases(draw, tier):
    avoid = _open_triggers()
    fn = draw(st.sampled_from(FNS))
    case = GENS[fn](draw, avoid)
    case["fn"] = fn
    return case


def strategy(tier):
    return cases(tier)


# ------------------------------------------------------------------------------------------------------------------
# check helpers
# ------------------------------------------------------------------------------------------------------------------
F64 = torch.float64


def _fail(fn, cell, symptom, detail):
    raise Violation("C20|%s|%s|%s" % (fn, cell, symptom), detail)


def _lib(fn, cell, thunk):
    """Run the library; any exception on an in-domain input is a violation (bucketed by raising frame)."""
    try:
        return thunk()
    except (Violation, HarnessError):
        raise
    except Exception as e:
        _fail(fn, cell, "exc:" + X.describe(e), "%s raised %s: %s" % (fn, type(e).__name__, str(e)[:300]))


def _ref(thunk):
    try:
        return thunk()
    except Exception as e:  # the oracle itself must never raise on a generated case
        raise HarnessError("reference computation raised %r" % (e,))


def _cmp(fn, cell, res, ref, S, dt, inner, extra=1.0, squeeze_ok=False):
    """shape, dtype, then |res-ref| <= 256*inner*extra*u*S elementwise (S None -> exact equality)."""
    if not torch.is_tensor(res):
        _fail(fn, cell, "type", "result is %s, not a Tensor" % type(res).__name__)
    if res.is_sparse:
        res = _lib(fn, cell, lambda: res.to_dense())
    if tuple(res.shape) != tuple(ref.shape):
        if squeeze_ok and tuple(res.shape) == tuple(ref.shape) + (1,):
            res = res.squeeze(-1)
        else:
            _fail(fn, cell, "shape", "result shape %s != dense definition %s" % (tuple(res.shape), tuple(ref.shape)))
    if res.dtype != L.DT[dt]:
        _fail(fn, cell, "dtype", "result dtype %s != %s" % (res.dtype, L.DT[dt]))
    if res.numel() == 0:
        return
    if not bool(torch.isfinite(res).all()):
        _fail(fn, cell, "nan", "non-finite entries in the result")
    if S is None:
        if not torch.equal(res.to(F64) if res.dtype.is_floating_point else res, ref):
            d = (res.to(F64) - ref.to(F64)).abs()
            i = int(torch.argmax(d.reshape(-1)))
            _fail(fn, cell, "value", "not bitwise equal: flat index %d lib=%r ref=%r" % (i, res.reshape(-1)[i].item(), ref.reshape(-1)[i].item()))
        return
    bound = tol.exact_bound(S.expand_as(ref) if S.dim() else S, dt, max(1, inner), 0, extra)
    ratio, i = tol.worst_excess(res, ref, bound)
    if ratio > 1.0:
        _fail(fn, cell, "value", "max |lib-ref|/bound = %.3g at flat index %s (lib=%r ref=%r)" % (ratio, i, res.reshape(-1)[i].item(), ref.reshape(-1)[i].item()))


def _toep_dense(c, r):
    """T[i,j] = c[i-j] (i>=j), r[j-i] (i<j), batched over leading dims."""
    n = c.shape[-1]
    i = torch.arange(n).unsqueeze(1)
    j = torch.arange(n).unsqueeze(0)
    d = i - j
    lower = c[..., d.clamp(min=0)]
    upper = r[..., (-d).clamp(min=0)]
    return torch.where(d >= 0, lower, upper)


def _interp_W(idx, val, ncols):
    """W[..., r, idx[..., r, k]] += val[..., r, k] (duplicates summed)."""
    W = torch.zeros(*idx.shape[:-1], ncols, dtype=val.dtype)
    return W.scatter_add(-1, idx, val)


def _sp_lib(spec):
    ind = L.materialise(spec["ind"]).reshape(len(spec["size"]), -1)
    return torch.sparse_coo_tensor(ind, L.materialise(spec["val"]), tuple(spec["size"]))


def _sp_dense(spec, absolute=False):
    ind = L.value(spec["ind"]).reshape(len(spec["size"]), -1)
    val = L.value(spec["val"], F64)
    D = torch.zeros(tuple(spec["size"]), dtype=F64)
    if ind.shape[1]:
        D.index_put_(tuple(ind), val.abs() if absolute else val, accumulate=True)
    return D


def _sp_flags(spec):
    ind = spec["ind"]["lit"]
    nnz = len(ind[0]) if ind else 0
    coords = list(zip(*ind)) if nnz else []
    vals = spec["val"]["lit"]
    return {"empty": nnz == 0, "dup": len(set(coords)) < nnz, "zeros": any(v == 0 for v in vals)}


def _bshape(shape, k):
    return tuple(shape[: len(shape) - k])


def _dtof(case, key):
    return case[key]["dt"]


# ------------------------------------------------------------------------------------------------------------------
# runners: Toeplitz
# ------------------------------------------------------------------------------------------------------------------
def r_toeplitz(case):
    from linear_operator.utils import toeplitz as T

    fn, dt = case["fn"], _dtof(case, "col")
    c, c64 = L.materialise(case["col"]), L.value(case["col"], F64)
    n = c.shape[-1]
    if fn == "sym_toeplitz":
        ref = _ref(lambda: _toep_dense(c64, c64))
        res = _lib(fn, "n", lambda: T.sym_toeplitz(c))
    else:
        r, r64 = L.materialise(case["row"]), L.value(case["row"], F64)
        ref = _ref(lambda: _toep_dense(c64, r64))
        if fn == "toeplitz":
            res = _lib(fn, "n", lambda: T.toeplitz(c, r))
        else:
            i, j = case["i"], case["j"]
            ref = ref[i, j]
            res = _lib(fn, "n", lambda: T.toeplitz_getitem(c, r, i, j))
    _cmp(fn, "n", res, ref, None, dt, 1)
    return {"labels": ["n:%d" % n], "nontrivial": n == 1 or fn != "sym_toeplitz"}


def _fft_S(c64, r64, x64, out_shape):
    """||[c, rev(r[1:])]||_1 * ||x_j||_2 per batch member / column, broadcast to the output shape."""
    a1 = c64.abs().sum(-1) + r64[..., 1:].abs().sum(-1)  # (*tb)
    xn = x64.pow(2).sum(-2).sqrt()  # (*xb, p)
    return (a1[..., None, None] * xn.unsqueeze(-2)).expand(out_shape)


def r_toeplitz_matmul(case):
    from linear_operator.utils import toeplitz as T

    fn, dt = case["fn"], _dtof(case, "col")
    sym = fn == "sym_toeplitz_matmul"
    c, c64 = L.materialise(case["col"]), L.value(case["col"], F64)
    r, r64 = (c, c64) if sym else (L.materialise(case["row"]), L.value(case["row"], F64))
    x, x64 = L.materialise(case["rhs"]), L.value(case["rhs"], F64)
    n = c.shape[-1]
    vec = x.dim() == 1
    cell = "rhs:vector" if vec else "rhs:matrix"
    Td = _ref(lambda: _toep_dense(c64, r64))
    ref = _ref(lambda: torch.matmul(Td, x64))
    xm = x64.unsqueeze(-1) if vec else x64
    S = _ref(lambda: _fft_S(c64, r64, xm, torch.matmul(Td, xm).shape))
    if vec:
        S = S.squeeze(-1)
    res = _lib(fn, cell, (lambda: T.sym_toeplitz_matmul(c, x)) if sym else (lambda: T.toeplitz_matmul(c, r, x)))
    # the docstring does not say whether a vector comes back as (n) or (n x 1): both are accepted
    _cmp(fn, cell, res, ref, S, dt, 1, extra=4.0 + math.log2(2 * n - 1 if n > 1 else 2), squeeze_ok=vec)
    tb, xb = tuple(c.shape[:-1]), tuple(x.shape[:-2]) if not vec else ()
    bc = "bc:same" if tb == xb else "bc:broadcast"
    return {
        "labels": [cell, "n:%d" % n, "tbatch:%d" % len(tb), bc],
        "nontrivial": vec or bool(tb) or bool(xb) or n == 1,
    }


def r_dqf(case):
    from linear_operator.utils import toeplitz as T

    fn, dt, o = case["fn"], _dtof(case, "left"), case["orient"]
    u, u64 = L.materialise(case["left"]), L.value(case["left"], F64)
    v, v64 = L.materialise(case["right"]), L.value(case["right"], F64)
    cell = "orient:" + o
    if o == "doc" and not _dqf_doc_says_s_by_m():
        # the docstring no longer documents the s x m layout: this (corpus) case is outside the documented domain
        return {"labels": ["orient:doc_no_longer_documented"], "nontrivial": False}
    # bring to (..., s, m): one row per vector pair
    if o == "vector":
        U, V = u64.unsqueeze(0), v64.unsqueeze(0)
    elif o == "caller":
        U, V = u64.transpose(-1, -2), v64.transpose(-1, -2)
    else:
        U, V = u64, v64
    m = U.shape[-1]

    def dense_def():
        out = torch.zeros(*U.shape[:-2], m, dtype=F64)
        for i in range(m):
            D = torch.zeros(m, m, dtype=F64)
            for a in range(m - i):
                D[a + i, a] = 1.0
                D[a, a + i] = 1.0
            out[..., i] = torch.einsum("...sa,ab,...sb->...", U, D, V)
        return out

    ref = _ref(dense_def)
    S = (2.0 * U.abs().sum(-1) * V.pow(2).sum(-1).sqrt() + (U.abs() * V.abs()).sum(-1)).sum(-1, keepdim=True).expand_as(ref)
    res = _lib(fn, cell, lambda: T.sym_toeplitz_derivative_quadratic_form(u, v))
    _cmp(fn, cell, res, ref, S, dt, max(1, U.shape[-2]), extra=4.0 + math.log2(2 * m - 1 if m > 1 else 2))
    return {"labels": [cell, "m:%d" % m, "batch:%d" % (U.dim() - 2)], "nontrivial": o != "vector" or m == 1}


# ------------------------------------------------------------------------------------------------------------------
# runners: interpolation
# ------------------------------------------------------------------------------------------------------------------
def _dups(idx_lit):
    def rows(v):
        if v and isinstance(v[0], list):
            return any(rows(x) for x in v)
        return len(set(v)) < len(v)

    return rows(idx_lit["lit"])


def _has_zero(l):
    def z(v):
        if isinstance(v, list):
            return any(z(x) for x in v)
        return v == 0

    return z(l["lit"])


def r_interp(case):
    from linear_operator.utils import interpolation as I

    fn, dt = case["fn"], _dtof(case, "val")
    idx = L.materialise(case["idx"])
    val, val64 = L.materialise(case["val"]), L.value(case["val"], F64)
    x, x64 = L.materialise(case["rhs"]), L.value(case["rhs"], F64)
    vec = x.dim() == 1
    cell = "rhs:vector" if vec else "rhs:matrix"
    tr = fn == "left_t_interp"
    ncols = case["output_dim"] if tr else case["num_data"]
    W = _ref(lambda: _interp_W(idx, val64, ncols))
    Wa = _ref(lambda: _interp_W(idx, val64.abs(), ncols))
    if tr:
        W, Wa = W.transpose(-1, -2), Wa.transpose(-1, -2)
    ref = _ref(lambda: torch.matmul(W, x64))
    S = _ref(lambda: torch.matmul(Wa, x64.abs()))
    if tr:
        res = _lib(fn, cell, lambda: I.left_t_interp(idx, val, x, case["output_dim"]))
    else:
        res = _lib(fn, cell, lambda: I.left_interp(idx, val, x))
    _cmp(fn, cell, res, ref, S, dt, W.shape[-1] * idx.shape[-1])
    ib, xb = tuple(idx.shape[:-2]), () if vec else tuple(x.shape[:-2])
    dup, zero = _dups(case["idx"]), _has_zero(case["val"])
    labels = [cell, "ibatch:%d" % len(ib), "bc:same" if ib == xb else "bc:broadcast"]
    labels += ["dup"] if dup else []
    labels += ["zero_values"] if zero else []
    return {"labels": labels, "nontrivial": vec or bool(ib) or bool(xb) or dup or zero}


# ------------------------------------------------------------------------------------------------------------------
# runners: sparse
# ------------------------------------------------------------------------------------------------------------------
def _sp_labels(spec):
    f = _sp_flags(spec)
    return [k for k in ("empty", "dup", "zeros") if f[k]], f


def _unchanged(fn, cell, sp, before):
    try:
        after = sp.to_dense()
        same = tuple(after.shape) == tuple(before.shape) and torch.equal(after, before)
    except Exception as e:
        _fail(fn, cell, "mutated", "the caller's sparse tensor is unusable after the call: %r" % (e,))
    if not same:
        _fail(fn, cell, "mutated", "the caller's sparse tensor changed value during the call (before %s, after %s)" % (before.tolist(), after.tolist()))


def r_make_sparse(case):
    from linear_operator.utils import sparse as S_

    fn, dt = case["fn"], _dtof(case, "val")
    idx = L.materialise(case["idx"])
    val, val64 = L.materialise(case["val"]), L.value(case["val"], F64)
    nr = case["num_rows"]
    ref = _ref(lambda: _interp_W(idx, val64, nr).transpose(-1, -2))
    S = _ref(lambda: _interp_W(idx, val64.abs(), nr).transpose(-1, -2))
    allzero = not bool((val64 != 0).any())
    cell = "all_zero" if allzero else "plain"
    res = _lib(fn, cell, lambda: S_.make_sparse_from_indices_and_values(idx, val, nr))
    if torch.is_tensor(res) and not res.is_sparse:
        _fail(fn, cell, "type", "result is not a sparse tensor")
    _cmp(fn, cell, res, ref, S, dt, idx.shape[-1])
    if not torch.equal(val.to(F64), val64):
        _fail(fn, cell, "mutated", "interp_values changed during the call")
    b = tuple(idx.shape[:-2])
    dup, zero = _dups(case["idx"]), _has_zero(case["val"])
    labels = [cell, "batch:%d" % len(b)] + (["dup"] if dup else []) + (["zero_values"] if zero else [])
    return {"labels": labels, "nontrivial": bool(b) or dup or zero}


def r_spmm(case):
    import linear_operator
    from linear_operator.utils import sparse as S_

    fn, dt = case["fn"], _dtof(case, "dense")
    sp = _sp_lib(case["sp"])
    D, Da = _ref(lambda: _sp_dense(case["sp"])), _ref(lambda: _sp_dense(case["sp"], True))
    x, x64 = L.materialise(case["dense"]), L.value(case["dense"], F64)
    sb, db = tuple(sp.shape[:-2]), tuple(x.shape[:-2])
    cell = "sparse:%s,dense:%s" % ("batch" if sb else "2d", "batch" if db else "2d")
    inner = max(1, len(case["sp"]["val"]["lit"]))
    before = sp.to_dense()
    if fn == "dsmm_grad":
        g, g64 = L.materialise(case["gout"]), L.value(case["gout"], F64)
        xr = x64.clone().requires_grad_(True)
        xa = x64.abs().requires_grad_(True)

        def refgrad():
            torch.matmul(D, xr).backward(g64)
            torch.matmul(Da, xa).backward(g64.abs())
            return xr.grad, xa.grad

        ref, S = _ref(refgrad)
        xl = x.clone().requires_grad_(True)

        def run():
            out = linear_operator.dsmm(sp, xl)
            out.backward(g)
            return xl.grad

        res = _lib(fn, cell, run)
        if res is None:
            _fail(fn, cell, "type", "no gradient reached the dense operand")
        inner = inner * max(1, _numel(g.shape[:-2]))
    else:
        ref = _ref(lambda: torch.matmul(D, x64))
        S = _ref(lambda: torch.matmul(Da, x64.abs()))
        call = S_.bdsmm if fn == "bdsmm" else linear_operator.dsmm
        res = _lib(fn, cell, lambda: call(sp, x))
    _cmp(fn, cell, res, ref, S, dt, inner)
    _unchanged(fn, cell, sp, before)
    labs, f = _sp_labels(case["sp"])
    bc = "bc:same" if sb == db else "bc:broadcast"
    return {"labels": [cell, bc] + labs, "nontrivial": bool(sb) or bool(db) or f["empty"] or f["dup"] or f["zeros"]}


def r_sparse_eye(case):
    from linear_operator.utils import sparse as S_

    n = case["size"]
    res = _lib("sparse_eye", "n", lambda: S_.sparse_eye(n))
    if torch.is_tensor(res) and not res.is_sparse:
        _fail("sparse_eye", "n", "type", "result is not a sparse tensor")
    _cmp("sparse_eye", "n", res, torch.eye(n, dtype=F64), None, "f32", 1)
    return {"labels": ["n:%d" % n], "nontrivial": n == 1}


def _py_index(items):
    out = []
    for it in items:
        out.append(it["int"] if "int" in it else slice(*it["slice"]))
    return tuple(out)


def _getitem_cell(case):
    if any("int" in it and it["int"] < 0 for it in case["idx"]):
        return "neg_int"
    if _trig_getitem_no_entry(case):
        return "last_index_without_entry"
    return "plain"


def r_sparse_getitem(case):
    from linear_operator.utils import sparse as S_

    fn, dt = case["fn"], _dtof(case["sp"], "val")
    sp = _sp_lib(case["sp"])
    D, Da = _ref(lambda: _sp_dense(case["sp"])), _ref(lambda: _sp_dense(case["sp"], True))
    idx = _py_index(case["idx"])
    arg = idx[0] if case["form"] == "bare" else idx
    cell = _getitem_cell(case)
    ref, S = _ref(lambda: D[idx]), _ref(lambda: Da[idx])
    before = sp.to_dense()
    res = _lib(fn, cell, lambda: S_.sparse_getitem(sp, arg))
    if not torch.is_tensor(res):
        # sum() over an empty python iteration gives the int 0: accept python numbers for the all-int index
        if ref.dim() == 0 and isinstance(res, (int, float)):
            res = torch.tensor(res, dtype=L.DT[dt])
    _cmp(fn, cell, res, ref, S, dt, max(1, len(case["sp"]["val"]["lit"])))
    _unchanged(fn, cell, sp, before)
    labs, f = _sp_labels(case["sp"])
    kinds = sorted({"int" if "int" in it else "slice" for it in case["idx"]})
    return {
        "labels": [cell, "nd:%d" % len(case["sp"]["size"]), "idx:" + "+".join(kinds), "form:" + case["form"]] + labs,
        "nontrivial": True,
    }


def _repeat_cell(case):
    if _trig_repeat_single_int(case):
        return "single_int"
    return "dim_gt1" if _trig_repeat_gt1(case) else "size1_dims"


def r_sparse_repeat(case):
    from linear_operator.utils import sparse as S_

    fn, dt = case["fn"], _dtof(case["sp"], "val")
    sp = _sp_lib(case["sp"])
    D, Da = _ref(lambda: _sp_dense(case["sp"])), _ref(lambda: _sp_dense(case["sp"], True))
    reps = tuple(case["reps"])
    cell = _repeat_cell(case)
    ref, S = _ref(lambda: D.repeat(*reps)), _ref(lambda: Da.repeat(*reps))
    before = sp.to_dense()
    if case["form"] == "tuple":
        res = _lib(fn, cell, lambda: S_.sparse_repeat(sp, reps))
    else:
        res = _lib(fn, cell, lambda: S_.sparse_repeat(sp, *reps))
    if torch.is_tensor(res) and not res.is_sparse:
        _fail(fn, cell, "type", "result is not a sparse tensor")
    _cmp(fn, cell, res, ref, S, dt, max(1, len(case["sp"]["val"]["lit"])))
    _unchanged(fn, cell, sp, before)
    labs, f = _sp_labels(case["sp"])
    return {
        "labels": [cell, "nd:%d" % len(case["sp"]["size"]), "newdims:%d" % (len(reps) - len(case["sp"]["size"])), "form:" + case["form"]] + labs,
        "nontrivial": any(r > 1 for r in reps) or f["empty"],
    }


def r_to_sparse(case):
    from linear_operator.utils import sparse as S_

    fn, dt = case["fn"], _dtof(case, "dense")
    d, d64 = L.materialise(case["dense"]), L.value(case["dense"], F64)
    allzero = not bool((d64 != 0).any())
    cell = "all_zero" if allzero else "plain"
    res = _lib(fn, cell, lambda: S_.to_sparse(d))
    if torch.is_tensor(res) and not res.is_sparse:
        _fail(fn, cell, "type", "result is not a sparse tensor")
    _cmp(fn, cell, res, d64, None, dt, 1)
    return {"labels": [cell, "nd:%d" % d.dim()], "nontrivial": allzero or _has_zero(case["dense"]) or d.dim() != 2}


# ------------------------------------------------------------------------------------------------------------------
# runners: permutations
# ------------------------------------------------------------------------------------------------------------------
def _onehot(p, n):
    """(..., k) index vectors -> (..., k, n) selection matrices."""
    return (p.unsqueeze(-1) == torch.arange(n)).to(F64)


def r_apply_permutation(case):
    import linear_operator
    from linear_operator.utils.permutation import apply_permutation

    fn, dt = case["fn"], _dtof(case, "mat")
    K, K64 = L.materialise(case["mat"]), L.value(case["mat"], F64)
    n = K.shape[-1]
    m_rows = K.shape[-2]
    left = L.materialise(case["left"]) if "left" in case else None
    right = L.materialise(case["right"]) if "right" in case else None
    cell = "matrix:" + case["kind"] + ("" if m_rows == n else ":rect")

    def dense_def():
        out = K64
        if left is not None:
            out = torch.matmul(_onehot(left, m_rows), out)
        if right is not None:
            out = torch.matmul(out, _onehot(right, n).transpose(-1, -2))
        return out

    ref = _ref(dense_def)
    arg = linear_operator.to_linear_operator(K) if case["kind"] == "op" else K
    res = _lib(fn, cell, lambda: apply_permutation(arg, left, right))
    _cmp(fn, cell, res, ref, None, dt, 1)
    mb = tuple(K.shape[:-2])
    partial = (left is not None and left.shape[-1] < m_rows) or (right is not None and right.shape[-1] < n)
    pb = [tuple(p.shape[:-1]) for p in (left, right) if p is not None]
    bc = any(b != mb for b in pb)
    labels = [cell, "mbatch:%d" % len(mb), "sides:%s%s" % ("L" if left is not None else "-", "R" if right is not None else "-")]
    labels += ["partial"] if partial else []
    labels += ["perm_batched"] if any(pb_ for pb_ in pb) else []
    labels += ["bc:broadcast"] if bc and any(pb) else []
    return {"labels": labels, "nontrivial": partial or bool(mb) or any(pb)}


def r_inverse_permutation(case):
    from linear_operator.utils.permutation import inverse_permutation

    fn = case["fn"]
    p = L.materialise(case["perm"])
    n = p.shape[-1]

    def dense_def():
        flat = p.reshape(-1, n)
        out = torch.zeros_like(flat)
        for b in range(flat.shape[0]):
            for i in range(n):
                out[b, int(flat[b, i])] = i
        return out.reshape(p.shape)

    ref = _ref(dense_def)
    before = p.clone()
    res = _lib(fn, "n", lambda: inverse_permutation(p))
    _cmp(fn, "n", res, ref, None, "i64", 1)
    if not torch.equal(p, before):
        _fail(fn, "n", "mutated", "the permutation argument was modified")
    return {"labels": ["n:%d" % n, "batch:%d" % (p.dim() - 1)], "nontrivial": p.dim() > 1 or n == 1}


# ------------------------------------------------------------------------------------------------------------------
# runners: QR / pseudo-inverse
# ------------------------------------------------------------------------------------------------------------------
def _matrix(case):
    """The matrix of a stable_qr / stable_pinverse case: generated grid values + the requested deficiency."""
    A = L.value(case["A"])  # native dtype
    m, n = A.shape[-2:]
    defic = case["defic"]
    flat = A.reshape(-1, m, n).clone()
    members = range(flat.shape[0]) if case["which"] % 2 == 0 else range(1)
    tall = m >= n
    k = n if tall else m
    j1, j2 = case["src"] % k, (case["which"] // 2) % k
    if j1 == j2:
        j2 = (j1 + 1) % k
    for b in members:
        M = flat[b] if tall else flat[b].transpose(-1, -2)  # work on the k short vectors as columns
        if defic == "zero":
            M.zero_()
        elif defic == "generic+":
            amax = float(M.abs().max())
            M[:k, :k] += torch.eye(k, dtype=M.dtype) * ((k + 1) * amax + 1.0)
        elif k >= 2:
            if defic == "dupvec":
                M[:, j2] = M[:, j1]
            elif defic == "zerovec":
                M[:, j2] = 0
            elif defic == "near":
                M[:, j2] = M[:, j1] + M[:, j2] * 2.0**-30
    return flat.reshape(A.shape)


def r_stable_qr(case):
    from linear_operator.utils.qr import stable_qr

    fn, dt = case["fn"], _dtof(case, "A")
    A = _ref(lambda: _matrix(case))
    A64 = A.to(F64)
    m, n = A.shape[-2:]
    k = min(m, n)
    u = tol.U[dt]
    sv = torch.linalg.svdvals(A64)
    deficient = bool((sv[..., -1] <= 1e-6 * sv[..., 0].clamp(min=1e-300)).any()) or bool((sv[..., 0] == 0).any())
    cell = case["kind"]
    out = _lib(fn, cell, lambda: stable_qr(A.clone()))
    if not (isinstance(out, tuple) and len(out) == 2 and all(torch.is_tensor(t) for t in out)):
        _fail(fn, cell, "type", "stable_qr did not return a (Q, R) pair of tensors")
    Q, R = out
    want = (tuple(A.shape[:-2]) + (m, k), tuple(A.shape[:-2]) + (k, n))
    if (tuple(Q.shape), tuple(R.shape)) != want:
        _fail(fn, cell, "shape", "Q, R shapes %s, %s != reduced QR shapes %s, %s" % (tuple(Q.shape), tuple(R.shape), want[0], want[1]))
    if Q.dtype != A.dtype or R.dtype != A.dtype:
        _fail(fn, cell, "dtype", "Q/R dtype %s/%s != %s" % (Q.dtype, R.dtype, A.dtype))
    if not bool(torch.isfinite(Q).all() and torch.isfinite(R).all()):
        _fail(fn, cell, "nan", "non-finite entries in Q or R")
    Q64, R64 = Q.to(F64), R.to(F64)
    if bool((R64.tril(-1) != 0).any()):
        _fail(fn, cell, "value", "R is not upper triangular: max below-diagonal entry %.3g" % float(R64.tril(-1).abs().max()))
    orth = float((Q64.transpose(-1, -2) @ Q64 - torch.eye(k, dtype=F64)).abs().max())
    if orth > 256.0 * m * u:
        _fail(fn, cell, "value", "|Q^T Q - I|_max = %.3g > 256 m u = %.3g" % (orth, 256.0 * m * u))
    rdiag = torch.diagonal(R64, dim1=-2, dim2=-1).abs()
    jitter_possible = bool((rdiag < 2.001e-6).any())
    if bool((rdiag < 0.999e-6).any()):
        _fail(fn, cell, "value", "a diagonal entry of R has magnitude %.3g < 1e-6 although the jitter is documented to prevent it" % float(rdiag.min()))
    anorm = A64.pow(2).sum((-1, -2)).sqrt()[..., None, None]
    bound = 256.0 * m * u * anorm + (1.001e-6 if jitter_possible else 0.0) + tol.TINY
    exc = ((Q64 @ R64 - A64).abs() / bound).max()
    if float(exc) > 1.0:
        _fail(fn, cell, "value", "|QR - A| exceeds 256 m u |A|_F%s by a factor %.3g" % (" + 1e-6" if jitter_possible else "", float(exc)))
    return {
        "labels": [cell + ("+deficient" if deficient else ""), "batch:%d" % (A.dim() - 2), "defic:" + case["defic"]] + (["jitter_range"] if jitter_possible else []),
        "nontrivial": m != n or deficient or A.dim() > 2 or m == 1,
    }


KAPPA_MAX = {"f64": 1e4, "f32": 30.0}


def r_stable_pinverse(case):
    from linear_operator.utils.pinverse import stable_pinverse

    fn, dt = case["fn"], _dtof(case, "A")
    A = _ref(lambda: _matrix(case))
    A64 = A.to(F64)
    m, n = A.shape[-2:]
    u = tol.U[dt]
    sv = torch.linalg.svdvals(A64)
    smax, smin = sv[..., 0], sv[..., -1]
    well = bool((smin >= 1e-5 + 1e3 * u * smax).all()) and bool((smax <= KAPPA_MAX[dt] * smin).all())
    cell = case["kind"] + ("" if well else "+near_singular")
    P = _lib(fn, cell, lambda: stable_pinverse(A.clone()))
    if not torch.is_tensor(P):
        _fail(fn, cell, "type", "result is %s" % type(P).__name__)
    if tuple(P.shape) != tuple(A.shape[:-2]) + (n, m):
        _fail(fn, cell, "shape", "shape %s != %s" % (tuple(P.shape), tuple(A.shape[:-2]) + (n, m)))
    if P.dtype != A.dtype:
        _fail(fn, cell, "dtype", "dtype %s != %s" % (P.dtype, A.dtype))
    if not bool(torch.isfinite(P).all()):
        _fail(fn, cell, "nan", "non-finite entries in the pseudo-inverse")
    if well:
        P64 = P.to(F64)
        Pref = _ref(lambda: torch.linalg.pinv(A64))
        kap = (smax / smin)[..., None, None]
        rel = 64.0 * max(m, n) * u * kap**2

        def fro(Z):
            return Z.pow(2).sum((-1, -2), keepdim=True).sqrt()

        tests = [
            ("P = pinv(A)", fro(P64 - Pref), fro(Pref)),
            ("A P A = A", fro(A64 @ P64 @ A64 - A64), fro(A64)),
            ("P A P = P", fro(P64 @ A64 @ P64 - P64), fro(Pref)),
            ("(A P)^T = A P", fro((A64 @ P64).transpose(-1, -2) - A64 @ P64), torch.ones_like(kap) * math.sqrt(min(m, n))),
            ("(P A)^T = P A", fro((P64 @ A64).transpose(-1, -2) - P64 @ A64), torch.ones_like(kap) * math.sqrt(min(m, n))),
        ]
        for name, err, scale in tests:
            ratio = float((err / (rel * scale + tol.TINY)).max())
            if ratio > 1.0:
                _fail(fn, cell, "value", "Moore-Penrose condition '%s' violated: error / (64 max(m,n) u kappa^2 scale) = %.3g (kappa %.3g)" % (name, ratio, float(kap.max())))
    return {
        "labels": [cell, "batch:%d" % (A.dim() - 2), "defic:" + case["defic"]],
        "nontrivial": m != n or not well or A.dim() > 2 or m == 1,
    }


# ------------------------------------------------------------------------------------------------------------------
# runners: broadcasting helpers
# ------------------------------------------------------------------------------------------------------------------
def r_mbs(case):
    from linear_operator.utils.broadcasting import _matmul_broadcast_shape

    fn = case["fn"]
    a, b = tuple(case["a"]), tuple(case["b"])
    ref = _ref(lambda: tuple(torch.matmul(torch.zeros(a), torch.zeros(b)).shape))
    cell = "rhs:vector" if len(b) == 1 else "rhs:matrix"
    conv = torch.Size if case["as"] == "size" else tuple
    res = _lib(fn, cell, lambda: _matmul_broadcast_shape(conv(a), conv(b)))
    try:
        got = tuple(int(s) for s in res)
    except Exception:
        _fail(fn, cell, "type", "result %r is not a shape" % (res,))
    if got != ref:
        _fail(fn, cell, "value", "shape %s != torch.matmul shape %s for %s @ %s" % (got, ref, a, b))
    return {"labels": [cell, "as:" + case["as"], "bc:same" if a[:-2] == b[:-2] else "bc:broadcast"], "nontrivial": len(a) > 2 or len(b) != 2}


def r_pad(case):
    from linear_operator.utils.broadcasting import _pad_with_singletons

    fn = case["fn"]
    obj = L.materialise(case["obj"])
    val = L.value(case["obj"])
    nb, na = case["before"], case["after"]
    ref = val.reshape((1,) * nb + tuple(val.shape) + (1,) * na)
    cell = "layout:" + case["obj"].get("lay", "c")
    res = _lib(fn, cell, lambda: _pad_with_singletons(obj, nb, na))
    if not torch.is_tensor(res):
        _fail(fn, cell, "type", "result is %s" % type(res).__name__)
    if tuple(res.shape) != tuple(ref.shape):
        _fail(fn, cell, "shape", "shape %s != %s" % (tuple(res.shape), tuple(ref.shape)))
    if res.dtype != ref.dtype or not torch.equal(res, ref):
        _fail(fn, cell, "value", "values / dtype differ from the reshaped input")
    return {"labels": [cell, "nd:%d" % val.dim()], "nontrivial": nb + na > 0}


RUNNERS = {
    "toeplitz": r_toeplitz,
    "sym_toeplitz": r_toeplitz,
    "toeplitz_getitem": r_toeplitz,
    "toeplitz_matmul": r_toeplitz_matmul,
    "sym_toeplitz_matmul": r_toeplitz_matmul,
    "sym_toeplitz_derivative_quadratic_form": r_dqf,
    "left_interp": r_interp,
    "left_t_interp": r_interp,
    "make_sparse_from_indices_and_values": r_make_sparse,
    "bdsmm": r_spmm,
    "dsmm": r_spmm,
    "dsmm_grad": r_spmm,
    "sparse_eye": r_sparse_eye,
    "sparse_getitem": r_sparse_getitem,
    "sparse_repeat": r_sparse_repeat,
    "to_sparse": r_to_sparse,
    "apply_permutation": r_apply_permutation,
    "inverse_permutation": r_inverse_permutation,
    "stable_qr": r_stable_qr,
    "stable_pinverse": r_stable_pinverse,
    "_matmul_broadcast_shape": r_mbs,
    "_pad_with_singletons": r_pad,
}


def check(case):
    fn = case["fn"]
    info = RUNNERS[fn](case)
    dt = None
    for k in ("col", "val", "dense", "mat", "A", "left"):
        if k in case and L.is_lit(case[k]):
            dt = case[k]["dt"]
            break
    if dt is None and "sp" in case:
        dt = case["sp"]["val"]["dt"]
    labels = ["fn:" + fn] + ["%s|%s" % (fn, lab) for lab in info["labels"]]
    if dt:
        labels.append("dtype:" + dt)
    return {"nontrivial": bool(info["nontrivial"]), "key": case, "labels": labels, "sample": case}


def gaps(labels):
    seen = {k.split(":", 1)[1] for k in labels if k.startswith("fn:")}
    out = ["kernel never generated: " + f for f in sorted(set(FNS) - seen)]
    wanted = [
        "toeplitz_matmul|rhs:vector", "sym_toeplitz_matmul|rhs:vector", "left_interp|dup", "left_t_interp|dup",
        "make_sparse_from_indices_and_values|all_zero", "bdsmm|empty", "dsmm_grad|bc:broadcast", "sparse_repeat|dim_gt1",
        "sparse_getitem|idx:int+slice", "apply_permutation|partial", "apply_permutation|perm_batched",
        "stable_qr|fat+deficient", "stable_pinverse|fat", "to_sparse|all_zero",
    ]
    avoid = _open_triggers()
    for w in wanted:
        if not labels.get(w):
            out.append("cell not reached%s: %s" % (" (excluded by an open known finding)" if avoid else "", w))
    return out


def coverage_extra():
    return {
        "tolerances": {
            "exact_structure": "256 * k * u * (|A||X|)", "fft": "256 * (4 + log2(2n-1)) * u * |[c,rev r]|_1 |x_j|_2",
            "qr": "orth 256 m u; |QR-A| <= 256 m u |A|_F (+1.001e-6 iff a returned |R_ii| < 2.001e-6); |R_ii| >= 0.999e-6",
            "pinverse": "well-conditioned (smin >= 1e-5 + 1e3 u smax, kappa <= %r): 64 max(m,n) u kappa^2 relative; else finite/shape/dtype" % (KAPPA_MAX,),
        },
        "open_triggers_avoided_by_generator": sorted(_open_triggers()),
    }


# ------------------------------------------------------------------------------------------------------------------
# triggers of known findings (predicates over the generated case)
# ------------------------------------------------------------------------------------------------------------------
def _trig_toeplitz_vec(case):
    return case["fn"] in ("toeplitz_matmul", "sym_toeplitz_matmul") and len(L.shape_of(case["rhs"])) == 1


def _trig_dqf_doc(case):
    return case["fn"] == "sym_toeplitz_derivative_quadratic_form" and case.get("orient") == "doc"


def _trig_repeat_gt1(case):
    if case["fn"] != "sparse_repeat":
        return False
    size = case["sp"]["size"]
    padded = [1] * (len(case["reps"]) - len(size)) + list(size)
    return any(r > 1 and s > 1 for r, s in zip(case["reps"], padded))


def _trig_repeat_single_int(case):
    return case["fn"] == "sparse_repeat" and len(case["reps"]) == 1 and case["form"] == "varargs"


def _trig_getitem_neg(case):
    return case["fn"] == "sparse_getitem" and any("int" in it and it["int"] < 0 for it in case["idx"])


def _trig_getitem_no_entry(case):
    """The last index item selects none of the (>= 1) stored entries."""
    if case["fn"] != "sparse_getitem":
        return False
    ind = case["sp"]["ind"]["lit"]
    nnz = len(ind[0]) if ind else 0
    return nnz > 0 and not _last_hits(case["idx"], case["sp"])


def _trig_qr_fat_deficient(case):
    """stable_qr on a fat matrix whose R gets a near-zero diagonal entry (leading square block singular)."""
    if case["fn"] != "stable_qr" or case.get("kind") != "fat":
        return False
    return case.get("defic") != "generic+"


TRIGGERS = {
    "toeplitz_matmul_vector_rhs": _trig_toeplitz_vec,
    "dqf_docstring_orientation": _trig_dqf_doc,
    "sparse_repeat_dim_gt1": _trig_repeat_gt1,
    "sparse_repeat_single_int": _trig_repeat_single_int,
    "sparse_getitem_negative_int": _trig_getitem_neg,
    "sparse_getitem_last_index_without_entry": _trig_getitem_no_entry,
    "stable_qr_fat_deficient": _trig_qr_fat_deficient,
}


def _trig_pad_scalar(case):
    return case["fn"] == "_pad_with_singletons" and L.shape_of(case["obj"]) == () and case["before"] + case["after"] == 0


TRIGGERS["pad_scalar_without_padding"] = _trig_pad_scalar
