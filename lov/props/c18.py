"""C18 -- Gaussian sampling uses a true square root of the covariance (DESIGN section 4, C18).

Oracle: the exact Jacobian of `zero_mean_mvn_samples(k)` with respect to the intercepted `torch.randn` draws.
`torch.randn` is replaced (in the harness process, for the duration of one sampler call) by a tape that records
run 0 (`N0`, under the RNG seed pinned by the runner) and afterwards replays `N0`, `N0 + E_j`, `N0 + 2 E_j` for
every element j of every recorded draw.  Every run re-builds the operator from its recipe, so that build-time
randomness (root decompositions taken by constructors) and call-time randomness are replayed identically.
Draws in which the sampler is not affine (second difference beyond rounding -- a Lanczos start vector) are *root
randomness*: held fixed at `N0`, they only select which square root is used.  For the affine draws the first
difference is the exact Jacobian column, hence Cov(samples | root) = J J^T.  Asserted:

  shape         samples.shape == (k, *batch, n)
  cov           for every draw a and batch member b:  (J J^T)[a,b,:,a,b,:] == A_b   (reference model, float64)
  independence  (J J^T)[a,b,:,a',b',:] == 0  for a != a'
  batchmix      (J J^T)[a,b,:,a,b',:]  == 0  for b != b'

Tolerances (derived in `_tolerances` / `_bounds`, nothing is statistical):
  * root accuracy, propagated through the recipe structure by `_bounds` (sums add, Kronecker / Hadamard products use the
    product rule, interpolation multiplies by ||W||^2, ...).  At every node `own = eps_abs + eps_rel * ||A_node||_2` with
      eps_rel = C_DIRECT * u * n_max                       backward error of Cholesky / eigh / exact diagonal roots
              + 2e-6    if a Lanczos root was taken        (documented `tridiagonal_jitter` 1e-6 * min diag T <= 1e-6 lambda_max)
              + CIQ_REL if `ciq_samples` is on             (stated quadrature / MINRES accuracy, see ASSUMPTIONS)
      eps_abs = the largest jitter psd_safe_cholesky reported having added (NumericalWarning), else 0.
    Every node is charged as if it had been factorised itself *and* as if its children had been (union of all dispatch
    possibilities), so the bound does not depend on which sampler override ran.
  * finite-difference rounding: S_computed(x) = R x + r(x), |r_p(x)| <= GAMMA * u * mu * ||x_sub||_2 =: single, with mu the
    row-norm bound of the chain of linear maps (`_bounds`, second component; evaluated on absolute values so cancellation
    is covered) ; every entry of J = S(N0+E_j) - S(N0) is off by <= E = 2*single, hence
    |d(J J^T)_pq| <= (|J_p|_1 + |J_q|_1) E + m E^2.  A draw is *root randomness* iff some second difference exceeds 4*single.
Lanczos roots are only decided when, for every Lanczos call of the run, the Krylov space of (A_node, start vector) has
full dimension with a margin (harness-side float64 Lanczos on the densified closure: all beta_j >= 1e-3 ||A|| and
>= 1e-4); otherwise the root is low-rank/approximate by design and only the shape is checked (label
`skip:lanczos_degenerate`).
"""
import math
import re
import warnings
from unittest import mock

import torch
from hypothesis import strategies as st

from lov import exc as X
from lov import gen, lit as L, recipe as R, refmodel, state, tol
from lov.core import HarnessError, Violation

ID = "C18"
RULE = (
    "case = (PSD/PD operator recipe, head chosen first among the classes that specialise sampling {Diag, ConstantDiag, "
    "Identity, KroneckerDiag, BlockDiag, BlockInterleaved, SumBatch, Interpolated (distinct indices per row, right slots rotated), "
    "PsdSum} or the generic root-based path {Dense, Minimal, Toeplitz, Kronecker, Root, LowRankRoot, Chol, Sum, SumKronecker, "
    "ConstantMul, Mul, Masked, BatchRepeat, Kernel, KeOps, AddedDiag, LowRankRootAddedDiag, KroneckerAddedDiag}; n<=6, "
    "nesting<=3, batch in {(),(1,),(2,),(3,),(2,1),(1,2),(2,2)}, f64/f32; k in {1,2,3} (capped so that <= ~75 normal "
    "elements are perturbed); settings cell in {default, chol0 (max_cholesky_size=0, fast root off), lanczos "
    "(max_cholesky_size=0), mid (max_cholesky_size in {n-1,n}), rootsize (lanczos + max_root_decomposition_size in {n,n+2}), "
    "ciq (ciq_samples, PD generic heads, kappa<=1e3)}; mode 'precond' samples the pivoted-Cholesky preconditioner operator "
    "an AddedDiag hands to InvQuadLogdet). Non-trivial: specialised sampler OR non-empty batch OR k>1. Distinct by "
    "(class path, n, batch, k, cell, mode)."
)
BUDGET = {"quick": 400, "thorough": 1500}
WALL_GUARD = {"quick": 600, "thorough": 3000}
SHRINK_BUDGET = {"quick": 60, "thorough": 300}

CIQ_REL = {"f64": 1e-6, "f32": 2e-3}
CIQ_KAPPA_MAX = 1e3
LANCZOS_REL = 2e-6
GAMMA = 64.0
KRYLOV_REL = 1e-3
KRYLOV_ABS = 1e-4

ASSUMPTIONS = [
    "every draw of the library goes through torch.randn (checked: a replay of the recorded draws must reproduce run 0 bitwise)",
    "draws in which the sampler is not affine are root randomness (Lanczos start vectors): the covariance is asserted "
    "conditionally on them",
    "Lanczos roots are decided only when the Krylov space has full dimension with margin (beta_j >= 1e-3||A|| and >= 1e-4 in a "
    "float64 Lanczos run by the harness on the densified closure with the recorded start vector); below that the root is "
    "low-rank by design and the case is counted as skip:lanczos_degenerate",
    "ciq_samples: restricted to PD operators sampled as a whole by the generic sampler, kappa <= 1e3, default "
    "num_contour_quadrature=15; stated accuracy %r relative to ||A|| (Hale-Higham-Trefethen bound exp(-2 pi^2 N/(log kappa+3)) "
    "< 1e-12 there; the f32 figure is MINRES rounding u*kappa with margin)" % (CIQ_REL,),
    "KroneckerProductAddedDiag is generated with a strictly positive added diagonal (its algorithms scale by D^{-1/2}; a singular "
    "noise term is outside what callers of that class pass)",
    "max_root_decomposition_size < n (rank-limited roots) is not generated: the statement says 'to the accuracy of the root used'",
    "exceptions raised while *constructing* the preconditioner in mode 'precond' (pivoted Cholesky) belong to C10 and are counted "
    "as skip:precond_unavailable",
]

SPECIAL_HEADS = [
    "Diag", "ConstantDiag", "Identity", "KroneckerDiag", "BlockDiag", "BlockDiag", "BlockInterleaved", "BlockInterleaved",
    "SumBatch", "SumBatch", "Interpolated", "Interpolated", "Interpolated", "Interpolated", "PsdSum", "PsdSum", "PsdSum",
    "BatchRepeat", "BatchRepeat",
]  # fmt: skip
GENERIC_HEADS = [
    "Dense", "Minimal", "Toeplitz", "Kronecker", "Root", "LowRankRoot", "Chol", "Sum", "SumKronecker", "ConstantMul", "Mul",
    "Masked", "BatchRepeat", "Kernel", "KeOps", "AddedDiag", "LowRankRootAddedDiag", "KroneckerAddedDiag",
]  # fmt: skip
CIQ_HEADS = ["Dense", "Minimal", "Toeplitz", "Kronecker", "Sum", "ConstantMul", "Masked", "BatchRepeat", "Chol", "Root"]
PRECOND_BASES = ["Dense", "Toeplitz", "Root", "Kronecker", "Sum", "Kernel"]
BATCHES18 = [(), (), (), (1,), (2,), (2,), (3,), (2, 1), (1, 2), (2, 2)]
CELLS = ["default", "default", "default", "chol0", "lanczos", "lanczos", "mid", "mid", "rootsize", "ciq", "ciq", "fastoff"]
SUM_NODES = ("Sum", "PsdSum", "AddedDiag", "LowRankRootAddedDiag", "KroneckerAddedDiag", "SumKronecker")

EXCLUDE = ()


def set_exclude(names):
    global EXCLUDE
    EXCLUDE = tuple(names)


def _exclusions():
    from lov.findings import load

    ex = set(EXCLUDE)
    for e in load():
        if e.get("status", "open") == "open":
            for nm in e.get("exclude_nodes", []):
                ex.add(nm)
    return tuple(sorted(ex))


def _open_triggers():
    """Names of the triggers of all *open* known findings (of any property: the defects below live in code shared with
    C06 / C01, the lead may file them there)."""
    from lov.findings import load

    return {e.get("trigger") for e in load() if e.get("status", "open") == "open" and e.get("trigger")}


# ---- triggers of the genuine defects found by this check (DESIGN 1.6, README rule 3) ---------------------------------
def _unit_repeat_diag_nodes(r):
    """BatchRepeat with an all-ones repeat over a DiagLinearOperator instance: BatchRepeatLinearOperator._cholesky calls
    TriangularLinearOperator(<diag operator>), which reads the missing attribute `_tensor`."""
    return [
        nd for nd in R.walk(r)
        if nd["op"] == "BatchRepeat" and all(int(x) == 1 for x in nd["repeat"]) and gen.is_diag_instance(nd["base"])
    ]  # fmt: skip


def _kpad_const_kron_batched_nodes(r):
    """KroneckerProductAddedDiag whose diagonal is a Kronecker product of ConstantDiag factors, with > 1 batch members:
    the Lanczos-method root scales the eigenvector factors by a (*batch, 1) tensor as if it were a matrix."""
    out = []
    for nd in R.walk(r):
        if nd["op"] != "KroneckerAddedDiag":
            continue
        for a in nd["args"]:
            if a["op"] == "KroneckerDiag" and all(c["op"] == "ConstantDiag" for c in a["args"]):
                if gen.prod(refmodel.shape(nd)[:-2]) > 1:
                    out.append(nd)
    return out


def _lanczos_cell(cell):
    return "max_cholesky_size" in cell and cell.get("fast.covar_root_decomposition", True) and not cell.get("ciq_samples")


def _lanczos_nodes(case, ops):
    """Nodes of the given classes whose size exceeds the cell's max_cholesky_size while roots are taken by Lanczos."""
    cell = case.get("cell", {})
    if not _lanczos_cell(cell):
        return []
    return [nd for nd in R.walk(case["recipe"]) if nd["op"] in ops and refmodel.shape(nd)[-1] > cell["max_cholesky_size"]]


def _mul_leading_singleton_batch(case):
    """MulLinearOperator with batch shape (1, b, ...) built while roots are taken by Lanczos: RootDecomposition.forward drops
    the leading size-1 batch dimension of the operands' roots, so the product has batch shape (b, ...)."""
    for nd in _lanczos_nodes(case, ("Mul",)):
        shp = refmodel.shape(nd)
        if len(shp) >= 4 and shp[0] == 1:
            return True
    return False


def _kpad_singular_factor(case):
    """KroneckerProductAddedDiag over a Kronecker product with a *singular* factor, roots by Lanczos: the Lanczos
    diagonalisation masks a (rounded) negative eigenvalue -- eigenvalue := 1, eigenvector := 0 -- so Q is no longer
    orthogonal and the root loses the noise term on that direction."""
    for nd in _lanczos_nodes(case, ("KroneckerAddedDiag",)):
        for a in nd["args"]:
            if a["op"] != "Kronecker":
                continue
            for f in a["args"]:
                ev = torch.linalg.eigvalsh(refmodel.dense(f))
                if bool((ev.min(-1)[0] <= 1e-5 * ev.max(-1)[0].clamp_min(1e-300)).any()):
                    return True
    return False


def _block_1x1_lanczos(case):
    """A BlockDiag / BlockInterleaved operator with 1x1 blocks nested below another operator, roots by Lanczos:
    Block*._root_decomposition calls the private _root_decomposition of its base (bypassing the 1x1 shortcut of the public
    method) and lanczos_tridiag indexes t_mat[0, 1] of a 1x1 tridiagonal matrix."""
    if not _lanczos_cell(case.get("cell", {})):
        return False
    r = case["recipe"]
    for nd in R.walk(r):
        if nd is not r and nd["op"] in ("BlockDiag", "BlockInterleaved") and refmodel.shape(nd["base"])[-1] == 1:
            if refmodel.shape(nd)[-1] > case["cell"]["max_cholesky_size"]:
                return True
    return False


def _kron_block_child_expand(case):
    """Kronecker product (roots by Lanczos) with a BlockDiag / BlockInterleaved factor whose batch shape differs from the
    product's: the factor's Lanczos root is Block*(<Tensor>), and BlockLinearOperator._expand_batch calls
    `_expand_batch` on that raw tensor."""
    for nd in _lanczos_nodes(case, ("Kronecker",)):
        bs = refmodel.shape(nd)[:-2]
        for c in nd["args"]:
            if c["op"] in ("BlockDiag", "BlockInterleaved") and refmodel.shape(c)[:-2] != bs:
                return True
    return False


# findings that only exist while roots are taken by Lanczos: while open, the same recipe is sampled with Cholesky roots
LANCZOS_TRIGGERS = {
    "mul_lanczos_leading_singleton_batch": _mul_leading_singleton_batch,
    "kpad_singular_kron_factor_lanczos": _kpad_singular_factor,
    "block_1x1_lanczos_root": _block_1x1_lanczos,
    "kron_block_child_batch_expand_lanczos": _kron_block_child_expand,
}


def _normalise_for_open_findings(r, open_triggers):
    """Avoid exactly the triggering feature while the finding is open (same matrices, different class path)."""
    if "batchrepeat_unit_repeat_diag_base" in open_triggers:
        for nd in _unit_repeat_diag_nodes(r):
            base = nd["base"]
            nd["base"] = {"op": "Dense", "t": L.lit(refmodel.dense(base).tolist(), R.dtype_of(base))}
    if "kpad_constant_kron_diag_batched" in open_triggers:
        for nd in _kpad_const_kron_batched_nodes(r):
            for a in nd["args"]:
                if a["op"] == "KroneckerDiag":
                    c = a["args"][0]
                    vals = L.value(c["c"], torch.float64)
                    a["args"][0] = {"op": "Diag", "d": L.lit(vals.expand(*vals.shape[:-1], c["n"]).tolist(), c["c"]["dt"])}


# ------------------------------------------------------------------------------------------------
# generation
# ------------------------------------------------------------------------------------------------
def _permute_interp_slots(draw, r):
    """For symmetric interpolations (right == left): (1) mostly, make the k interpolation indices of every row distinct
    (i0, i0+1, ... mod p -- Hypothesis favours all-zero index rows, for which the slot order is invisible), then
    (2) rotate the k slots of the *right* side by a non-zero offset: W_r is unchanged as a matrix (the operator stays
    W K W^T), but right indices/values are no longer elementwise equal to the left ones -- a sampler that mixes up the two
    sides becomes visible."""
    for node in R.walk(r):
        if node["op"] != "Interpolated" or node["li"]["lit"] != node["ri"]["lit"] or node["lv"]["lit"] != node["rv"]["lit"]:
            continue
        shp = L.shape_of(node["li"])
        kk = shp[-1]
        if kk < 2:
            continue
        p = refmodel.shape(node["base"])[-1]
        if p >= 2 and draw(st.integers(0, 3)) > 0:

            def distinct(v, nd):
                if nd == 1:
                    return [(v[0] + t) % p for t in range(len(v))]
                return [distinct(x, nd - 1) for x in v]

            node["li"] = dict(node["li"], lit=distinct(node["li"]["lit"], len(shp)))
        rot = draw(st.integers(1, kk - 1))

        def rotate(v, nd):
            if nd == 1:
                return [v[(t + rot) % kk] for t in range(kk)]
            return [rotate(x, nd - 1) for x in v]

        node["ri"] = dict(node["li"], lit=rotate(node["li"]["lit"], len(shp)))
        node["rv"] = dict(node["lv"], lit=rotate(node["lv"]["lit"], len(shp)))


PSD_ONLY_HEADS = ("Interpolated", "LowRankRoot", "Kernel", "KeOps")
KRON_HEADS = ("Kronecker", "KroneckerDiag", "KroneckerAddedDiag", "SumKronecker")


def _head_first(draw, heads, doms, dts, batches, max_dim, max_depth, excl, classes=None):
    """Head class first (per-class quota), then a size / batch / domain the class accepts (construction, no rejection)."""
    head = draw(st.sampled_from(heads))
    cfg = gen.Cfg(dt=draw(st.sampled_from(list(dts))), max_dim=max_dim, exclude=excl, classes=classes)
    dom = "psd" if (head in PSD_ONLY_HEADS and "psd" in doms) else draw(st.sampled_from(doms))
    batch = draw(st.sampled_from(batches))
    if head == "BatchRepeat" and not batch:
        batch = draw(st.sampled_from([b for b in batches if b]))
    if head == "BatchRepeat" and draw(st.booleans()):
        # a batch dimension of composite size: base batch size > 1 AND repeat factor > 1 in the same dimension
        batch = draw(st.sampled_from([(4,), (4,), (6,), (2, 4), (4, 1)]))
        max_dim = min(max_dim, 3)
    if head in KRON_HEADS:
        n = draw(st.sampled_from([m for m in (4, 6, 4) if m <= max_dim]))
    elif head == "Interpolated":
        n = draw(st.integers(2, max_dim))
    else:
        n = draw(st.integers(1, max_dim))
    depth = max(2, draw(st.integers(1, max_depth)))
    if head in gen._applicable(cfg, dom, n, n, batch, depth):
        return gen.call_maker(head, draw, cfg, dom, n, n, batch, depth)
    return gen.gen(draw, cfg, dom, n, n, batch, depth)


def _positive_kpad_diag(r):
    """KroneckerProductAddedDiag is 'Kronecker kernel + noise': its root / solve algorithms scale by D^{-1/2}, so the added
    diagonal must be strictly positive (the precondition real callers respect).  Zeros in that diagonal become 1/8."""

    def fix(v):
        if isinstance(v, list):
            return [fix(x) for x in v]
        return v if v > 0 else 0.125

    for nd in R.walk(r):
        if nd["op"] != "KroneckerAddedDiag":
            continue
        for a in nd["args"]:
            if gen.is_diag_instance(a):
                for sub in R.walk(a):
                    for key in ("d", "c"):
                        if key in sub and L.is_lit(sub[key]):
                            sub[key] = dict(sub[key], lit=fix(sub[key]["lit"]))


def _shape_of_recipe(r):
    return refmodel.shape(r)


def _negative_shift(r):
    """K + D with D = -s I, 0 < s < lambda_min(K): a PSD operator whose diagonal summand is NOT PSD on its own (the property
    quantifies over PSD operators, not over sums of PSD terms; only PsdSum promises term-wise sampling)."""
    if gen.is_diag_instance(r) or r["op"] in ("Zero", "Identity"):
        return r
    try:
        A = refmodel.dense(r)
        if A.shape[-1] != A.shape[-2] or not torch.allclose(A, A.transpose(-1, -2)):
            return r
        lmin = float(torch.linalg.eigvalsh(A).min())
    except Exception:
        return r
    if not lmin > 2.0**-6:
        return r
    s = 2.0 ** math.floor(math.log2(lmin / 2.0))
    return {"op": "AddedDiag", "args": [r, {"op": "ConstantDiag", "c": {"lit": [-s], "dt": R.dtype_of(r)}, "n": int(A.shape[-1])}]}


@st.composite
def cases(draw, tier):
    excl = _exclusions()
    mode = "precond" if draw(st.integers(0, 15)) == 0 else "sample"
    cell_name = draw(st.sampled_from(CELLS))
    max_depth = draw(st.sampled_from([2, 2, 3] if tier == "quick" else [2, 3, 3]))
    dts = ("f64", "f64", "f32")
    if mode == "precond":
        cell_name = draw(st.sampled_from(["default", "default", "lanczos"]))
        n = draw(st.integers(2, 6))
        batch = draw(st.sampled_from(BATCHES18))
        dt = draw(st.sampled_from(dts))
        cfg = gen.Cfg(dt=dt, max_dim=6, exclude=excl, classes=PRECOND_BASES)
        base = gen.call_maker(draw(st.sampled_from(PRECOND_BASES[:3])), draw, cfg, "psd", n, n, batch, 2)
        diag = gen.gen_diaglike(draw, cfg, n, batch, "pd", allow_kron=False)
        r = {"op": "AddedDiag", "args": [base, diag]}
    elif cell_name == "ciq":
        r = _head_first(draw, CIQ_HEADS, ["pd"], ("f64", "f64", "f64", "f32"), [(), (2,), (2, 1), (1, 2), (3,), (1, 2), (2, 1), (2, 2)], 4, 2, excl,
                        classes=CIQ_HEADS + ["Diag", "ConstantDiag", "Tri", "TriT"])  # fmt: skip
    else:
        heads = SPECIAL_HEADS if draw(st.integers(0, 4)) < 3 else GENERIC_HEADS
        r = _head_first(draw, heads, ["psd", "psd", "pd"], dts, BATCHES18, 6, max_depth, excl)
    _permute_interp_slots(draw, r)
    _positive_kpad_diag(r)
    _normalise_for_open_findings(r, _open_triggers())
    if mode == "sample" and cell_name != "ciq" and draw(st.integers(0, 7)) == 0:
        r = _negative_shift(r)
    shp = _shape_of_recipe(r)
    n = shp[-1]
    members = gen.prod(shp[:-2])
    mult = len(r["args"]) if r["op"] in SUM_NODES else 1
    kmax = max(1, min(3, 75 // max(1, members * n * mult)))
    if cell_name == "ciq":
        kmax = min(kmax, 2)
    k = draw(st.integers(1, kmax))
    cell = {}
    if cell_name == "chol0":
        cell = {"max_cholesky_size": 0, "fast.covar_root_decomposition": False}
    elif cell_name == "fastoff":
        cell = {"fast.covar_root_decomposition": False}
    elif cell_name == "lanczos":
        cell = {"max_cholesky_size": 0}
    elif cell_name == "mid":
        cell = {"max_cholesky_size": max(0, n - draw(st.integers(0, 1)))}
    elif cell_name == "rootsize":
        # never below the largest node of the tree: rank-limited roots are outside the statement (see ASSUMPTIONS)
        cell = {"max_cholesky_size": 0, "max_root_decomposition_size": _n_max(r) + draw(st.sampled_from([0, 2]))}
    elif cell_name == "ciq":
        cell = {"ciq_samples": True}
    case = {"recipe": r, "k": k, "cell": cell, "cell_name": cell_name, "mode": mode}
    if mode == "sample" and r["op"] == "PsdSum" and cell_name != "ciq" and draw(st.integers(0, 2)) == 0:
        # an operator DERIVED by arithmetic from the generated one: PsdSum(A, .., B) - B/2 is still PSD, but not a sum of PSD
        # terms any more (whatever class the library gives the result, its sampler must use a root of the whole matrix)
        case["derive"] = "minus_half_last"
    open_tr = _open_triggers()
    if any(nm in open_tr and pred(case) for nm, pred in sorted(LANCZOS_TRIGGERS.items())):
        # same recipe, roots by Cholesky instead of Lanczos while the finding is open
        case["cell"] = dict(cell, **{"fast.covar_root_decomposition": False})
        case["cell_name"] = cell_name + "->chol"
    if mode == "precond":
        case["rank"] = draw(st.integers(1, n))
    return case


def strategy(tier):
    return cases(tier)


# ------------------------------------------------------------------------------------------------
# the recorder / replayer for torch.randn
# ------------------------------------------------------------------------------------------------
_REAL_RANDN = torch.randn


class _StructureChange(Exception):
    """shifting one recorded draw changed how many / which shapes of draws the sampler asks for"""


class Tape:
    """record: pass through to the real torch.randn and keep a copy of every output;
    replay: return the recorded outputs in order, optionally with `step` added to one element of one draw."""

    def __init__(self):
        self.rec = []
        self.recording = True
        self.pos = 0
        self.delta = None  # (draw index, flat element index, step)
        self.mismatch = None

    def begin(self, delta=None):
        self.pos = 0
        self.delta = delta
        self.mismatch = None

    def __call__(self, *args, **kwargs):
        if self.recording:
            out = _REAL_RANDN(*args, **kwargs)
            self.rec.append(out.detach().clone())
            return out
        if self.pos >= len(self.rec):
            self.mismatch = "more torch.randn calls (%d) than recorded (%d)" % (self.pos + 1, len(self.rec))
            self.pos += 1
            return _REAL_RANDN(*args, **kwargs)
        base = self.rec[self.pos]
        out = base.clone()
        shape = _requested_shape(args, kwargs)
        if shape is not None and tuple(shape) != tuple(out.shape):
            self.mismatch = "torch.randn call %d asked for shape %s, recorded %s" % (self.pos, tuple(shape), tuple(out.shape))
        if kwargs.get("dtype") is not None and kwargs["dtype"] != out.dtype:
            self.mismatch = "torch.randn call %d asked for dtype %s, recorded %s" % (self.pos, kwargs["dtype"], out.dtype)
        if self.delta is not None and self.delta[0] == self.pos:
            out.view(-1)[self.delta[1]] += self.delta[2]
        self.pos += 1
        return out


def _requested_shape(args, kwargs):
    if "size" in kwargs:
        return tuple(kwargs["size"])
    if len(args) == 1 and isinstance(args[0], (tuple, list, torch.Size)):
        return tuple(args[0])
    if all(isinstance(a, int) for a in args):
        return tuple(args)
    return None


# ------------------------------------------------------------------------------------------------
# harness-side Krylov analysis of every Lanczos call (precondition of the Lanczos-root tolerance)
# ------------------------------------------------------------------------------------------------
def _krylov_margin(A, q0):
    """min_j beta_j / ||A||_2 and min_j beta_j of a float64 Lanczos run with full re-orthogonalisation on one matrix."""
    n = A.shape[-1]
    if not torch.isfinite(A).all() or not torch.isfinite(q0).all():
        return 0.0, 0.0  # an earlier (degenerate) root already poisoned the closure
    nrm = float(torch.linalg.matrix_norm(A, ord=2))
    if not (nrm > 0) or float(q0.norm()) == 0.0:
        return 0.0, 0.0
    Q = [q0 / q0.norm()]
    betas = []
    for j in range(n - 1):
        w = A @ Q[-1]
        for _ in range(2):
            for q in Q:
                w = w - (q @ w) * q
        b = float(w.norm())
        betas.append(b)
        if b <= 1e-14 * nrm:
            return 0.0, 0.0
        Q.append(w / b)
    if not betas:
        return float("inf"), float("inf")
    return min(betas) / nrm, min(betas)


class LanczosWatch:
    """Wraps linear_operator.utils.lanczos.lanczos_tridiag (delegating, results untouched) while run 0 is recorded."""

    def __init__(self, tape):
        from linear_operator.utils import lanczos as lz

        self.mod = lz
        self.real = lz.lanczos_tridiag
        self.tape = tape
        self.calls = 0
        self.degenerate = 0
        self.analyse = True

    def __call__(self, matmul_closure, max_iter, dtype, device, matrix_shape, batch_shape=torch.Size(), init_vecs=None, **kw):
        before = len(self.tape.rec)
        out = self.real(matmul_closure, max_iter, dtype, device, matrix_shape, batch_shape=batch_shape, init_vecs=init_vecs, **kw)
        if not self.analyse:
            return out
        self.calls += 1
        try:
            n = matrix_shape[-1]
            if init_vecs is not None:
                start = init_vecs
            elif len(self.tape.rec) == before + 1:
                start = self.tape.rec[-1]
            else:
                self.degenerate += 1
                return out
            if max_iter < n:
                self.degenerate += 1
                return out
            with torch.no_grad():
                eye = torch.eye(n, dtype=dtype, device=device).expand(*batch_shape, n, n).contiguous()
                A = matmul_closure(eye).to(torch.float64).reshape(-1, n, n)
                A = 0.5 * (A + A.transpose(-1, -2))
                q = start.to(torch.float64).expand(*batch_shape, n, start.shape[-1]).reshape(-1, n, start.shape[-1])
            for b in range(A.shape[0]):
                for c in range(q.shape[-1]):
                    rel, ab = _krylov_margin(A[b], q[b, :, c])
                    if rel < KRYLOV_REL or ab < KRYLOV_ABS:
                        self.degenerate += 1
                        return out
        except Exception as e:  # the analysis is harness code: never let it look like a library failure
            raise HarnessError("Krylov analysis failed: %r" % (e,))
        return out


# ------------------------------------------------------------------------------------------------
# tolerance propagation through the recipe
# ------------------------------------------------------------------------------------------------
def _spec(A):
    if A.numel() == 0:
        return 0.0
    return float(torch.linalg.matrix_norm(A, ord=2).max())


def _bounds(r, eps_rel, eps_abs):
    """(err, mu) for the covariance realised by the sampler of recipe r.

    err: bound on ||dA||_2 (max over batch members) if every root taken inside the tree -- of the node itself or of any
         descendant -- is exact up to eps_abs + eps_rel * ||A_node||_2.
    mu:  bound on the 2-norm of every row of |L_1| |L_2| ... |L_d| where S = L_1 ... L_d z is the chain of linear maps the
         sampler applies to the normal vector z (root of a leaf: row norm sqrt(A_pp); interpolation: sum_t |W_pt| mu_t;
         sums of independent draws: sum of the summands' mu; ...).  The rounding error of one computed sample entry is then
         <= gamma * mu * ||z||_2.  Every node is charged max(own root, structural), i.e. whichever override ran."""
    op = r["op"]
    A = refmodel.dense(r)
    nrm = _spec(A)
    own = eps_abs + eps_rel * nrm
    # row norm of the node's own root: sqrt(A_pp), of the possibly jittered / perturbed matrix
    own_mu = (float(torch.diagonal(A, dim1=-2, dim2=-1).abs().max()) + own) ** 0.5 if A.numel() else 0.0
    sub = [_bounds(c, eps_rel, eps_abs) for c in R.children(r)] if op not in ("Root", "Chol", "LowRankRoot") else []
    if op in SUM_NODES:
        st_ = sum(e for e, _ in sub)
        mu = sum(m for _, m in sub)
    elif op == "ConstantMul":
        c = float(L.value(r["c"], torch.float64).abs().max())
        st_ = c * sub[0][0]
        mu = c**0.5 * sub[0][1]
    elif op in ("Kronecker", "KroneckerDiag", "Mul"):
        # (A1+E1) x (A2+E2) - A1 x A2  (Kronecker: norms multiply; Hadamard: ||A o B||_2 <= ||A||_2 ||B||_2, Schur)
        norms = [_spec(refmodel.dense(c)) for c in r["args"]]
        full = 1.0
        base = 1.0
        mu = 1.0
        for a, (e, m) in zip(norms, sub):
            full *= a + e
            base *= a
            mu *= m
        st_ = full - base
    elif op in ("BlockDiag", "BlockInterleaved", "BatchRepeat", "Masked"):
        st_, mu = sub[0]
    elif op == "SumBatch":
        bshape = refmodel.shape(r["base"])
        nb = len(bshape) - 2
        bd = r.get("block_dim", -3)
        pos = bd if bd >= 0 else bd + len(bshape)
        if not 0 <= pos < nb:
            raise HarnessError("SumBatch block_dim %r outside the base batch %r" % (bd, bshape))
        st_ = bshape[pos] * sub[0][0]
        mu = bshape[pos] * sub[0][1]
    elif op == "Interpolated":
        ncols = refmodel.shape(r["base"])[-1]
        W = refmodel.interp_matrix(L.value(r["li"]), L.value(r["lv"], torch.float64).abs(), ncols)
        st_ = _spec(W) ** 2 * sub[0][0]
        mu = float(W.sum(-1).max()) * sub[0][1]
    elif op in ("Root", "Chol", "LowRankRoot"):
        # operators that *are* their own root: samples = base @ z (children are not PSD operands; cancellation inside a
        # composite base is covered by evaluating the base on absolute values)
        st_ = 0.0
        Mb = refmodel.dense_abs(r["base"])
        if op == "Chol" and r.get("upper"):
            Mb = Mb.transpose(-1, -2)
        mu = float(Mb.pow(2).sum(-1).max().sqrt()) if Mb.numel() else 0.0
    elif op in ("Dense", "Minimal", "Diag", "ConstantDiag", "Identity", "Toeplitz", "Kernel", "KeOps"):
        st_ = 0.0
        mu = own_mu
    else:
        raise HarnessError("C18 tolerance propagation does not know node %r" % op)
    return own + st_, max(mu, own_mu)


def _n_max(r):
    m = 1
    for node in R.walk(r):
        if node["op"] == "Tensor":
            continue
        try:
            shp = refmodel.shape(node)
        except Exception:
            continue
        m = max(m, shp[-1], shp[-2])
    return m


# ------------------------------------------------------------------------------------------------
# the check
# ------------------------------------------------------------------------------------------------
_KINDS = {
    "LinearOperator": "generic",
    "DiagLinearOperator": "diag",
    "IdentityLinearOperator": "identity",
    "BlockLinearOperator": "block",
    "InterpolatedLinearOperator": "interp",
    "PsdSumLinearOperator": "psdsum",
}


_DECLINE_FRAMES = (
    "zero_mean_mvn_samples", "root_decomposition", "_root_decomposition", "cholesky", "_cholesky", "_choose_root_method",
    "_symeig", "symeig", "diagonalization", "evaluate_kernel", "_preconditioner",
)  # fmt: skip
_DECLINE_MSG = re.compile(r"sampl|positive.definite|root.decomposition|cholesky|symeig|eigen|not PSD|KeOps", re.I)


def _declined(e):
    """An explicit refusal *of sampling / of taking a root* (not-supported / not-PD), raised by a `raise` statement of the
    library in one of the sampling or factorisation entry points.  An error message produced by some inner helper that was
    handed internally-built operands (e.g. 'Cannot multiply LinearOperator of size ...' from mul) is NOT a refusal."""
    import traceback

    if not X.is_declined(e, None):
        return False
    tb = traceback.extract_tb(e.__traceback__)
    return bool(tb) and (tb[-1].name in _DECLINE_FRAMES or bool(_DECLINE_MSG.search(str(e))))


def _kind(op):
    for cls in type(op).__mro__:
        if "zero_mean_mvn_samples" in vars(cls):
            return _KINDS.get(cls.__name__, cls.__name__)
    return "?"


def _jitter_of(ws):
    from linear_operator.utils.warnings import NumericalWarning

    j = 0.0
    fell_back = False
    for w in ws:
        if not issubclass(w.category, NumericalWarning):
            continue
        msg = str(w.message)
        m = re.search(r"added jitter of ([0-9.eE+-]+)", msg)
        if m:
            j = max(j, float(m.group(1)))
        if "Using symeig" in msg:
            fell_back = True
    return j, fell_back


def _reference(case, op_for_precond=None):
    r = case["recipe"]
    if case["mode"] == "precond":
        P = op_for_precond
        root = P.linear_ops[0].root.to_dense().detach().to(torch.float64)
        dg = P.linear_ops[1]._diagonal().detach().to(torch.float64)
        A = root @ root.transpose(-1, -2)
        A = A + torch.diag_embed(dg.expand(*A.shape[:-1]))
        return A
    return _ref_dense(case)


def _ref_dense(case):
    r = case["recipe"]
    A = refmodel.dense(r)
    if case.get("derive") == "minus_half_last":
        A = A - 0.5 * refmodel.dense(r["args"][-1])
    return A


def _psd_subrecipes(r):
    """Proper sub-recipes that are themselves PSD operators (bottom-up), for compositional blame (DESIGN 1.6.5)."""
    op = r["op"]
    if op in SUM_NODES or op in ("Kronecker", "KroneckerDiag", "Mul"):
        cs = list(r["args"])
    elif op in ("BlockDiag", "BlockInterleaved", "SumBatch", "BatchRepeat", "Masked", "ConstantMul", "Interpolated"):
        cs = [r["base"]]
    else:
        cs = []
    out = []
    for c in cs:
        out.extend(_psd_subrecipes(c))
        out.append(c)
    return out


def check(case):
    """Run the oracle; on a violation attribute it to the smallest failing PSD sub-recipe (same k / settings cell)."""
    try:
        return _check(case)
    except Violation as v:
        if case.get("mode", "sample") != "sample":
            raise
        for sub in _psd_subrecipes(case["recipe"]):
            subcase = dict(case, recipe=sub)
            if "max_root_decomposition_size" in subcase.get("cell", {}):
                subcase["cell"] = dict(subcase["cell"], max_root_decomposition_size=max(subcase["cell"]["max_root_decomposition_size"], _n_max(sub)))
            state.reset(seed_obj=subcase)  # exactly the state the runner establishes when it replays the sub-case
            try:
                _check(subcase)
            except Violation as v2:
                v2.case = subcase
                raise v2
            except Exception:
                continue
        raise v


def _check(case):
    r, k, cell, mode = case["recipe"], int(case["k"]), case.get("cell", {}), case.get("mode", "sample")
    cell_name = case.get("cell_name", "custom")
    head = r["op"]
    dtname = R.dtype_of(r)
    u = tol.u_of(dtname)
    try:
        ref0 = _ref_dense(case)
    except Exception as e:
        raise HarnessError("reference model raised %r" % (e,))
    n = ref0.shape[-1]
    batch = tuple(ref0.shape[:-2])
    B = gen.prod(batch)
    # generator sanity: the recipe must denote symmetric PSD matrices
    asym = float((ref0 - ref0.transpose(-1, -2)).abs().max()) if ref0.numel() else 0.0
    scale0 = max(float(ref0.abs().max()), 1e-300) if ref0.numel() else 1.0
    if asym > 1e-9 * scale0:
        raise HarnessError("generated recipe is not symmetric (%.3g): %s" % (asym, R.class_path(r)))
    ev = torch.linalg.eigvalsh(0.5 * (ref0 + ref0.transpose(-1, -2)))
    if float(ev.min()) < -1e-9 * max(float(ev.abs().max()), 1e-300):
        raise HarnessError("generated recipe is not PSD (min eig %.3g): %s" % (float(ev.min()), R.class_path(r)))

    labels = ["head:" + head, "cell:" + cell_name, "k:%d" % k, "n:%d" % n, "dtype:" + dtname, "batch:%s" % (batch,), "mode:" + mode]
    labels += ["class:" + c for c in R.classes(r)]
    if cell.get("ciq_samples"):
        labels.append("ciq_batch:%s" % (batch,))
    key = {"path": R.class_path(r), "n": n, "batch": list(batch), "k": k, "cell": cell, "mode": mode}
    sample = {"class_path": R.class_path(r), "n": n, "batch": list(batch), "k": k, "cell": cell, "mode": mode, "dtype": dtname}

    def done(outcome, nontrivial=False, extra=()):
        return {"nontrivial": nontrivial, "key": key, "labels": labels + ["outcome:" + outcome] + list(extra), "sample": sample}

    if cell.get("ciq_samples"):
        kappa = float((ev.max(-1)[0] / ev.min(-1)[0].clamp_min(1e-300)).max())
        if not (kappa <= CIQ_KAPPA_MAX):
            return done("skip:ciq_kappa")

    tape = Tape()
    watch = LanczosWatch(tape)
    info = {"kind": "?", "precond": None}
    settings_cell = dict(cell)
    if mode == "precond":
        settings_cell.update({"min_preconditioning_size": 1, "max_preconditioner_size": int(case["rank"])})

    class _Unavailable(Exception):
        pass

    class _BuildFailed(Exception):
        pass

    def run(delta=None):
        tape.begin(delta)
        with state.apply_settings(settings_cell), mock.patch.object(torch, "randn", tape), mock.patch.object(
            watch.mod, "lanczos_tridiag", watch
        ):
            try:
                op = R._build(r, None)
            except Exception as e:
                raise _BuildFailed(X.describe(e))
            if mode == "precond":
                try:
                    P = op._preconditioner()[1]
                except Exception as e:
                    raise _Unavailable(repr(e))
                if P is None:
                    raise _Unavailable("no preconditioner")
                op = P
                if info["precond"] is None:
                    info["precond"] = op
            if case.get("derive") == "minus_half_last":
                op = op - op.linear_ops[-1] * 0.5
            if info["kind"] == "?":
                info["kind"] = _kind(op)
            s = op.zero_mean_mvn_samples(k)
        if not tape.recording and delta is not None and (tape.mismatch or tape.pos != len(tape.rec)):
            raise _StructureChange(tape.mismatch or "number of draws changed")
        if not tape.recording and (tape.mismatch or tape.pos != len(tape.rec)):
            raise HarnessError(
                "replay consumed the tape differently from the recording: %s (calls %d, recorded %d) for %s"
                % (tape.mismatch, tape.pos, len(tape.rec), R.class_path(r))
            )
        return s

    def fail(sub, symptom, detail):
        raise Violation("C18|%s|%s|%s|%s" % (sub, head, path, symptom), detail + " [%s, k=%d, cell=%s, %s]" % (R.class_path(r), k, cell, dtname))

    path = "?"
    # ---- run 0: record -------------------------------------------------------------------------
    with warnings.catch_warnings(record=True) as ws, state.linalg_log() as lines:
        warnings.simplefilter("always")
        try:
            S0 = run()
        except _Unavailable:
            return done("skip:precond_unavailable")
        except _BuildFailed as e:
            # constructing the operator under these settings failed (e.g. MulLinearOperator root-decomposes its operands
            # in __init__): there is no operator to sample from -- C01/C02/C06 territory, visible in the evidence only
            return done("skip:build_exc", extra=["build_exc:" + str(e)])
        except HarnessError:
            raise
        except Exception as e:
            if watch.degenerate:
                # the failure happened after a Lanczos run on a deficient Krylov space (C09 territory)
                return done("skip:lanczos_degenerate", extra=["lanczos_degenerate_exc:" + type(e).__name__])
            path = info["kind"] + ":" + ("+".join(state.algorithms(state._capture.lines)) or "none")
            if _declined(e):
                return done("declined:" + type(e).__name__, extra=["declined_head:" + head])
            fail("cov", "exc:" + X.describe(e), "sampling raised %r" % (e,))
    algos = [a for a in state.algorithms(lines) if a in ("cholesky", "lanczos", "symeig", "minres", "cg")]
    if cell.get("ciq_samples") and "minres" in algos:
        algos = ["ciq"]
    path = info["kind"] + ":" + ("+".join(algos) if algos else "exact")
    labels += ["kind:" + info["kind"], "path:" + path, "draws:%d" % len(tape.rec)]
    jitter, fell_back = _jitter_of(ws)
    if jitter:
        labels.append("jitter:%.0e" % jitter)
    if fell_back:
        labels.append("root:symeig_fallback")
    nontrivial = info["kind"] != "generic" or B != 1 or len(batch) > 0 or k > 1

    if not torch.is_tensor(S0):
        fail("shape", "type", "samples are %s, not a Tensor" % type(S0).__name__)
    want_shape = (k,) + batch + (n,)
    if tuple(S0.shape) != want_shape:
        fail("shape", "shape", "samples have shape %s, expected (k, *batch, n) = %s" % (tuple(S0.shape), want_shape))
    if watch.degenerate:
        return done("skip:lanczos_degenerate", extra=["lanczos_calls:%d" % watch.calls])
    if not torch.isfinite(S0).all():
        fail("cov", "nan", "samples contain non-finite values")

    # ---- replay sanity -------------------------------------------------------------------------
    tape.recording = False
    watch.analyse = False
    with warnings.catch_warnings():
        warnings.simplefilter("ignore")

        def safe_run(delta):
            try:
                return run(delta)
            except (HarnessError, _Unavailable, _BuildFailed, _StructureChange):
                raise
            except Exception as e:
                if delta is not None and tape.mismatch:
                    # the shifted draw is not a normal variate of the sample but a probe that decides the STRUCTURE of the
                    # computation (a Lanczos start vector: another Krylov dimension, another number / shape of later draws);
                    # the replayed tape no longer fits and the exception is the harness's doing
                    raise _StructureChange(tape.mismatch)
                fail("cov", "exc:" + X.describe(e), "sampling raised %r when the normal draw %s was shifted" % (e, (delta,)))

        S0b = safe_run(None)
        if not torch.equal(S0b, S0):
            raise HarnessError(
                "replaying the recorded torch.randn outputs does not reproduce run 0 (max diff %.3g) for %s: hidden randomness"
                % (float((S0b.double() - S0.double()).abs().max()), R.class_path(r))
            )

        # ---- finite differences ----------------------------------------------------------------
        s0 = S0.detach().to(torch.float64).reshape(-1)
        d1s, d2s, n0s, owner = [], [], [], []
        for d, t in enumerate(tape.rec):
            flat = t.reshape(-1)
            for j in range(flat.numel()):
                try:
                    s1 = safe_run((d, j, 1.0))
                    s2 = safe_run((d, j, 2.0))
                except _StructureChange as e:
                    return done("skip:draw_shift_changes_structure", extra=["structure_change:" + str(e)[:80]])
                if tuple(s1.shape) != want_shape or tuple(s2.shape) != want_shape:
                    fail("shape", "shape", "sample shape changes with the values of the normal draws")
                d1s.append(s1.detach().to(torch.float64).reshape(-1) - s0)
                d2s.append(s2.detach().to(torch.float64).reshape(-1) - s0)
                n0s.append(abs(float(flat[j])))
                owner.append(d)
    if not d1s:
        fail("cov", "value", "the sampler drew no normal variates at all")
    D1 = torch.stack(d1s, 1)  # M x m_all
    D2 = torch.stack(d2s, 1)
    if not (torch.isfinite(D1).all() and torch.isfinite(D2).all()):
        fail("cov", "nan", "samples become non-finite when one normal draw is shifted by 1 or 2")
    N0 = torch.tensor(n0s, dtype=torch.float64)
    owner_t = torch.tensor(owner)

    eps_rel, eps_abs, ciq_uniform = _tolerances(case, r, dtname, algos, jitter, ref0, float(N0.max()) if N0.numel() else 0.0)
    if mode == "precond":
        ref = _reference(case, info["precond"])
        eref = eps_abs + eps_rel * _spec(ref)
        root_abs = info["precond"].linear_ops[0].root.to_dense().detach().to(torch.float64).abs()
        mu = float(root_abs.pow(2).sum(-1).max().sqrt()) + float(torch.diagonal(ref, dim1=-2, dim2=-1).abs().max().sqrt())
    else:
        ref = ref0
        eref, mu = _bounds(r, eps_rel, eps_abs)
    # rounding error of one computed sample entry: S(x)_p = (R x)_p + r_p(x), |r_p| <= gamma * mu * ||x_sub||_2 with x_sub the
    # normal variates feeding one entry (at most n_max per root), each |x_c| <= max|N0| + 2 in the runs made here
    single = GAMMA * u * mu * (_n_max(r) ** 0.5) * (float(N0.max()) + 2.0) + 0.5 * ciq_uniform + 1e-300
    lin_thr = 4.0 * single  # |r(x+2e) - 2 r(x+e) + r(x)| <= 4 * single
    nonlin_draws = set()
    second = (D2 - 2.0 * D1).abs()
    for d in range(len(tape.rec)):
        cols = owner_t == d
        if bool((second[:, cols] > lin_thr).any()):
            nonlin_draws.add(d)
    keep = torch.tensor([o not in nonlin_draws for o in owner], dtype=torch.bool)
    labels.append("rootrand_draws:%d" % len(nonlin_draws))
    labels.append("elements:%s" % ("<=16" if len(owner) <= 16 else "<=48" if len(owner) <= 48 else "<=96" if len(owner) <= 96 else ">96"))
    J = D1[:, keep]
    m = J.shape[1]
    if m == 0:
        fail("cov", "value", "no normal draw enters the samples linearly")
    E = 2.0 * single  # bound on the error of every entry of J (difference of two computed samples)
    j1 = J.abs().sum(1)
    fd = (j1.unsqueeze(1) + j1.unsqueeze(0)) * E + m * E * E
    C = J @ J.transpose(0, 1)
    refb = ref.reshape(B, n, n)
    C6 = C.reshape(k, B, n, k, B, n)
    F6 = fd.reshape(k, B, n, k, B, n)
    worst = {"cov": (0.0, None), "independence": (0.0, None), "batchmix": (0.0, None)}
    for a in range(k):
        for b in range(B):
            blk = C6[a, b, :, a, b, :]
            bound = F6[a, b, :, a, b, :] + eref + 1e-300
            ratio = ((blk - refb[b]).abs() / bound).max()
            if float(ratio) > worst["cov"][0]:
                i = int(torch.argmax(((blk - refb[b]).abs() / bound).reshape(-1)))
                worst["cov"] = (float(ratio), "draw %d, batch member %d, entry (%d,%d): J J^T = %.9g, covariance = %.9g, bound %.3g"
                                % (a, b, i // n, i % n, float(blk.reshape(-1)[i]), float(refb[b].reshape(-1)[i]), float(bound.reshape(-1)[i])))  # fmt: skip
            for a2 in range(k):
                for b2 in range(B):
                    if (a2, b2) == (a, b):
                        continue
                    x = C6[a, b, :, a2, b2, :].abs()
                    bd = F6[a, b, :, a2, b2, :] + 1e-300
                    # cross blocks of a correct sampler are structurally zero: only finite-difference rounding remains
                    rt = float((x / (bd + 8.0 * u * eref)).max())
                    name = "independence" if a2 != a else "batchmix"
                    if rt > worst[name][0]:
                        worst[name] = (rt, "draws (%d,%d), batch members (%d,%d): max |cross block of J J^T| = %.6g (bound %.3g; covariance scale %.3g)"
                                       % (a, a2, b, b2, float(x.max()), float(bd.max()), _spec(ref)))  # fmt: skip
    for name in ("cov", "independence", "batchmix"):
        rt, msg = worst[name]
        if rt > 1.0:
            fail(name, "value", "excess %.3g: %s" % (rt, msg))
    return {
        "nontrivial": nontrivial,
        "key": key,
        "labels": labels + ["outcome:checked"],
        "sample": dict(sample, path=path, elements=len(owner), rootrand=len(nonlin_draws), eref=eref, fd_E=E,
                       excess={nm: round(worst[nm][0], 6) for nm in worst}),  # fmt: skip
    }


def _tolerances(case, r, dtname, algos, jitter, ref0, n0max):
    u = tol.u_of(dtname)
    eps_rel = tol.C_DIRECT * u * _n_max(r)
    if "lanczos" in algos:
        eps_rel += LANCZOS_REL
    ciq_uniform = 0.0
    if case.get("cell", {}).get("ciq_samples"):
        eps_rel += CIQ_REL[dtname]
        # |S_ciq(x) - A^{1/2} x|_inf <= CIQ_REL * sqrt(lambda_max) * ||x||_2, ||x||_2 <= sqrt(n) (max|N0| + 2); two runs are subtracted
        ciq_uniform = 2.0 * CIQ_REL[dtname] * (_spec(ref0) ** 0.5) * (n0max + 2.0) * (ref0.shape[-1] ** 0.5)
    return eps_rel, 1.01 * float(jitter), ciq_uniform


def gaps(labels):
    out = []
    for h in sorted(set(SPECIAL_HEADS + GENERIC_HEADS)):
        if not labels.get("head:" + h):
            out.append("head never generated: " + h)
    for kd in ("generic", "diag", "identity", "block", "interp", "psdsum"):
        if not labels.get("kind:" + kd):
            out.append("sampler kind never reached: " + kd)
    for c in sorted(set(CELLS)):
        if not labels.get("cell:" + c):
            out.append("settings cell never reached: " + c)
    return out


def coverage_extra():
    return {
        "tolerances": {
            "C_DIRECT": tol.C_DIRECT, "GAMMA": GAMMA, "LANCZOS_REL": LANCZOS_REL, "CIQ_REL": CIQ_REL,
            "CIQ_KAPPA_MAX": CIQ_KAPPA_MAX, "KRYLOV_REL": KRYLOV_REL, "KRYLOV_ABS": KRYLOV_ABS,
        }  # fmt: skip
    }


TRIGGERS = {
    "batchrepeat_unit_repeat_diag_base": lambda case: bool(_unit_repeat_diag_nodes(case["recipe"])),
    "kpad_constant_kron_diag_batched": lambda case: bool(_kpad_const_kron_batched_nodes(case["recipe"])),
}
TRIGGERS.update(LANCZOS_TRIGGERS)
