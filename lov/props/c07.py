"""C07 -- gradients through operators equal gradients through the dense computation (DESIGN section 4, C07).

Three oracles, all on float64 recipes whose float leaves (a generated SUBSET of them) require grad:

 1 `grad`     scalarise the entry point's output with a generated cotangent W (loss = sum(W * out)) and compare
              torch.autograd.grad(loss_lib, leaves + rhs/lhs) with the gradient of the same scalar computed from
              refmodel.dense(recipe, leafmap) ON THE SAME LEAVES by ordinary autograd.  Functions that are only defined on
              symmetric matrices (solve, inv_quad, logdet, root decompositions, cholesky, sqrt_inv_matmul) are evaluated by
              the reference on sym(A) = (A + A^T)/2, i.e. both gradients are compared along symmetric perturbations; for a
              symmetric Dense leaf that enters the matrix through a transpose-commuting path both leaf gradients are
              additionally symmetrised (the library may deliver an antisymmetric part there: it is not observable along
              symmetric perturbations).
 2 `bilinear` op._bilinear_derivative(U, V) equals autograd of (U * rebuilt._matmul(V)).sum() w.r.t. the detached
              representation() -- position by position (tuple length, every position that requires grad).
 3 `memeff`   the gradients under settings.memory_efficient on / off agree to rounding.

A forward pass that raises (also without any requires_grad) or whose VALUE is outside the forward tolerance is not C07's
business (C01..C06 own it): such cases are counted (`forward_failed`, `forward_mismatch`), never reported.  The same holds for
a single-probe Lanczos run whose Krylov space is deficient (`lanczos_krylov_deficient`, see _LanczosWatch).

Aliased leaves: in a generated fraction of the cases several literals of the recipe ("tie": g) are materialised as ONE tensor
object (K = A (x) A, k(X, X), [A | A], A + A, one parameter in two sub-operators); the reference ties them in the leaf map, so
that both sides deliver the TOTAL derivative w.r.t. the shared leaf (label `alias:tied`).
"""
import contextlib
import copy
import json
import math
import os

import torch
from hypothesis import strategies as st

from lov import exc as X
from lov import gen, lit as L, recipe as R, refmodel, state
from lov.core import HarnessError, Violation
from lov.findings import load as load_findings
from lov.props.c03 import to_index

ID = "C07"
RULE = (
    "case = (float64 operator recipe over the class zoo, nesting <= 3, n <= 5, batch kinds incl. sub-batch children; heads drawn with a "
    "quota from the classes with hand-written derivative code, 1/4 of the cases nest ONLY those classes; a generated SUBSET of the float "
    "leaves requires grad (all / one / random subset / none-but-rhs), some leaves are non-leaf tensors or stride-0 expansions of a smaller "
    "leaf; in 1/3 of the non-bilinear cases (made whenever the recipe admits it, ~20-25% of all cases) two or more float literals of equal kind / "
    "shape -- x1 / x2 of a kernel matrix, left / right interpolation values, a sibling argument replaced by a copy of an earlier one "
    "(Kronecker / Sum / Mul / Cat / Matmul), two leaves anywhere whose values may be exchanged without leaving the domain -- are "
    "materialised as ONE shared tensor object; an entry point from {matmul (vector also against batched operators / matrix / batched / "
    "broadcast rhs incl. fewer dims with an interior size-1 dim under a 3-dim batch and more dims + wider at size-1 dims), rmatmul, "
    "to_dense, diagonal, getitem (slice / int row "
    "/ tensor indices), sum (rows / columns / batch), add_diagonal, add_jitter, op + op, op * op, solve (+- left factor), inv_quad, "
    "inv_quad_logdet, logdet (Cholesky / closed-form paths only), cholesky, root_decomposition (loss on R R^T), pivoted_cholesky (full "
    "rank, loss on L L^T), sqrt_inv_matmul (+- lhs), _bilinear_derivative(U, V) with same / more / fewer batch dims}; a generated "
    "cotangent; settings {memory_efficient on/off (both always executed and compared)} x {max_cholesky_size default | 0 with "
    "cg_tolerance=1e-12, max_cg_iterations=200}). Non-trivial: (>= 1 leaf of a non-Dense class requires grad AND (a broadcast / expanded / "
    "sub-batch leaf OR a strict subset of the float leaves requires grad OR nesting >= 2)) OR a shared (aliased) leaf requires grad. "
    "Distinct by (class path, entry point, requires-grad pattern, expansion pattern, alias pattern, settings cell, rhs / lhs shape, "
    "index kind, sum dim, U/V kind)."
)
BUDGET = {"quick": 2600, "thorough": 2500}
ASSUMPTIONS = [
    "float64 only; Zero / Permutation operators are not generated (no float leaves; ZeroLinearOperator declares backward impossible)",
    "stochastic paths (Lanczos-quadrature logdet) are out of scope: logdet / inv_quad_logdet(logdet=True) run with the default "
    "max_cholesky_size only (Cholesky or closed-form overrides); partial-rank pivoted_cholesky is not differentiated here",
    "a forward pass that raises (also with no requires_grad anywhere) or returns a value outside the forward tolerance is counted, not "
    "reported (owned by C01-C06)",
    "a 1-D right-hand side is generated against batched operators too (for solve_left / sqrt_inv_matmul with lhs only 2-D ones)",
    "single-probe Lanczos runs (root / root-inverse decompositions and diagonalisations above max_cholesky_size) are a decomposition of "
    "the matrix only if the probe's Krylov space is the whole space: a run in which some beta <= 1e-6 (the library's own break-down "
    "threshold; repeated eigenvalues) or that returns fewer columns than requested is counted (lanczos_krylov_deficient), not compared "
    "(forward defect owned by C04 / C09: F-C04-lanczos-structured-solve, F-C09-first-step-breakdown, F-C09-mixed-breakdown-batch)",
    "aliased leaves: tied literals of the _bilinear_derivative oracle are NOT shared (that oracle is per slot of representation())",
    "cases whose effective condition number (head, operands of elementwise products, internally inverted summands, eigenvalue-gap "
    "factor of eigendecomposed Kronecker factors) exceeds 1e6 are counted as ill-conditioned and not compared",
    "sqrt_inv_matmul: the first right-hand-side column must have a relative component >= 1e-3 on the extreme eigenvectors (the "
    "quadrature interval is estimated from its Krylov space and re-used by the backward pass); other cases are counted only",
    "functions defined on symmetric matrices only: gradients are compared along symmetric perturbations (reference on (A+A^T)/2; "
    "sym-part for symmetric Dense leaves; the SUM over the tied left/right leaf pairs of symmetric Interpolated / Kernel nodes; the "
    "structurally zero triangle of triangular factors is not compared)",
    "_bilinear_derivative is called the way the library calls it (grad mode disabled); a result whose shape is sum-reducible to the "
    "argument's shape is accepted, as torch's autograd accepts it at the Function boundary",
]
MUTANTS = [
    "utils/toeplitz.py: drop `res[..., 0] -= ...` in sym_toeplitz_derivative_quadratic_form (killed)",
    "masked_linear_operator.py: `(None, None)` in front of the base derivative (killed)",
    "interpolated_linear_operator.py: right-values gradient gathers with the LEFT indices (killed)",
    "constant_mul_linear_operator.py: base derivative without scaling left_vecs by the constant (killed)",
    "functions/_matmul.py: rhs gradient with _matmul instead of _t_matmul (killed)",
    "constant_mul_linear_operator.py: no sum over size-1 dims of the constant (EQUIVALENT: autograd sum-reduces expandable gradients)",
    "functions/_matmul.py: no broadcast sum of rhs_grad (EQUIVALENT: autograd sum-reduces expandable gradients)",
    "seeded/C07_b: default _bilinear_derivative detaches a tensor occupying several representation() slots only once -> the shared "
    "tensor's gradient is doubled (killed at seeds 1 and 2 by the aliased-leaf cases: Kronecker / Cat / Kernel with one shared tensor)",
]

# ----------------------------------------------------------------------------------------------------------------------
# tolerances (DESIGN section 3)
# ----------------------------------------------------------------------------------------------------------------------
U64 = 2.0**-53
C_DIRECT = 1.0e4  # |g_lib - g_ref| <= C_DIRECT * u64 * kappa * S   (S: magnitude of the gradient's terms, see _scales)
KAPPA_MAX = 1.0e6  # beyond: counted as ill-conditioned, not compared  => effective relative tolerance <= 1.1e-6
CG_RESIDUAL = 1.0e-10  # linear_cg stops updating a column at relative residual 1e-10 (stop_updating_after); cg_tolerance=1e-12
CG_EPS_CONST = 1.0e-10  # linear_cg's `eps`: an update is skipped when p^T A p < eps on the normalised system
C_CG = 16.0  # gradient = products of <= 3 solves
LANCZOS_JITTER = 1.0e-6  # settings.tridiagonal_jitter (relative to min diag T): R R^T = A + O(1e-6 |A|), not differentiated
CIQ_TOL = 1.0e-7  # sqrt_inv_matmul: msMINRES tolerance set to 1e-10, quadrature error (Q=15, kappa<=1e6) <= 1e-8
C_MEMEFF = 64.0  # memory_efficient on/off: same operations on the same numbers, at most re-association
DIAG_KMAT_JITTER = 1.0e-10  # functions/_diagonalization.py backward: kmat = 1 / (s_i - s_j + 1e-10)
LANCZOS_BREAKDOWN = 1.0e-6  # utils/lanczos.py: the iteration stops when every |beta| <= 1e-6 (absolute)


def _diag_jitter_term(runs):
    """Error model of Diagonalization.backward (Lanczos diagonalisation of a matrix M = U S U^T, Ionescu et al.):
        dL/dM = U (K^T o (U^T dL/dU)) U^T + U diag(dL/dS) U^T,     K_ij = 1 / (s_i - s_j + 1e-10)   (the library's jitter)
    instead of 1 / (s_i - s_j): every off-diagonal entry of the first term carries the relative error 1e-10 / |s_i - s_j|.
    For a function of M alone the eigenvector term and the eigenvalue term are individually of size |G| s_max / gap and
    cancel down to |G| (G: the exact dL/dM), so the error relative to |G| is
        n * 1e-10 * s_max / gap^2           (n terms per entry of U (.) U^T with |U_ij| <= 1 and sum_i |U_ai| <= sqrt(n))
    with gap the smallest eigenvalue gap of the diagonalised matrix (read off the tridiagonal matrix the run produced).
    Exact ties never reach this model: Lanczos breaks down there (see _LanczosWatch)."""
    term = 0.0
    for r in runs:
        if r["caller"] == "diagonalization" and math.isfinite(r["smax_over_gap2"]):
            term = max(term, 2.0 * r["n"] * DIAG_KMAT_JITTER * r["smax_over_gap2"])
    return term


class _LanczosWatch:
    """Observes every single-probe Lanczos run the library makes (functions/_root_decomposition.py and
    functions/_diagonalization.py call  lanczos.lanczos_tridiag  through the module attribute) -- the library's result is
    returned unchanged.

    Domain: Q T Q^T is a decomposition of the matrix only when the Krylov space of the probe vector is the whole space.  It
    is not when the matrix has a repeated eigenvalue (identity / constant-diagonal factors, ...): then some beta_j is zero up
    to rounding -- the library stops with fewer columns than requested (|beta| <= 1e-6, utils/lanczos.py) or, at step 0 / for
    one member of a batch (neither is tested there), continues on normalised rounding noise.  What the consumers (structured
    solves of SumKronecker / KroneckerProductAddedDiag, Lanczos roots) then compute is not the function C07 differentiates:
    it is the forward defect recorded as F-C04-lanczos-structured-solve / F-C09-first-step-breakdown /
    F-C09-mixed-breakdown-batch (owned by C04 / C09).  Such a run is `deficient`; the case is counted, not compared."""

    def __init__(self):
        self.runs = []

    def __enter__(self):
        from linear_operator.utils import lanczos as lz

        self._mod = lz
        self._orig = lz.lanczos_tridiag
        watch = self

        def lanczos_tridiag(matmul_closure, max_iter, *args, **kwargs):
            import sys

            q_mat, t_mat = watch._orig(matmul_closure, max_iter, *args, **kwargs)
            try:
                fn = sys._getframe(1).f_code.co_filename
                caller = "diagonalization" if fn.endswith("_diagonalization.py") else "root"
                matrix_shape = kwargs.get("matrix_shape", args[2] if len(args) > 2 else None)
                watch.runs.append(watch._analyse(t_mat.detach(), max_iter, matrix_shape, caller))
            except Exception as e:  # the observation must never change the library's behaviour
                watch.runs.append({"caller": "?", "deficient": True, "n": 0, "smax_over_gap2": float("inf"), "error": repr(e)})
            return q_mat, t_mat

        lz.lanczos_tridiag = lanczos_tridiag
        return self

    def __exit__(self, *a):
        self._mod.lanczos_tridiag = self._orig
        return False

    @staticmethod
    def _analyse(t_mat, max_iter, matrix_shape, caller):
        n = int(matrix_shape[-1])
        k = int(t_mat.shape[-1])
        deficient = k < min(int(max_iter), n) or not bool(torch.isfinite(t_mat).all())
        ratio = 0.0
        if not deficient and k > 1:
            beta = t_mat.diagonal(offset=1, dim1=-2, dim2=-1)
            deficient = bool((beta.abs() <= LANCZOS_BREAKDOWN).any())
        if not deficient and k > 1:
            ev = torch.linalg.eigvalsh(t_mat.to(torch.float64))
            gap = (ev[..., 1:] - ev[..., :-1]).min(dim=-1)[0]
            smax = ev.abs().max(dim=-1)[0]
            ratio = float((smax / (gap * gap)).max()) if bool((gap > 0).all()) else float("inf")
        return {"caller": caller, "deficient": bool(deficient), "n": n, "smax_over_gap2": ratio}

    def deficient(self):
        return any(r["deficient"] for r in self.runs)


def _rtol(path, kappa, lmin=1.0):
    k = max(1.0, kappa)
    rt = C_DIRECT * U64 * k
    if path == "cg":
        # linear_cg works on the column-normalised system and makes progress only while |r|^2 >= eps / lambda_min (eps = 1e-10,
        # DESIGN C08): relative residual floor sqrt(eps / lambda_min); a column is frozen at 1e-10.  Relative solution error
        # <= kappa * floor; the gradient is bilinear in two such solves.
        floor = max(math.sqrt(CG_EPS_CONST / max(lmin, 1e-300)), CG_RESIDUAL)
        rt += C_CG * k * floor
    elif path == "lanczos":
        # the jitter shifts every Ritz value by j * min diag(T) <= j * lambda_max: relative to lambda_min (inverse-type entry
        # points differentiate A^{-1}) that is j * kappa
        rt += 16.0 * LANCZOS_JITTER * k + C_DIRECT * U64 * k * k
    elif path == "ciq":
        rt += CIQ_TOL * k
    return rt


# ----------------------------------------------------------------------------------------------------------------------
# entry points
# ----------------------------------------------------------------------------------------------------------------------
EPS_ANY = ["matmul", "matmul", "rmatmul", "to_dense", "diagonal", "getitem", "sum", "add_diagonal", "add_jitter", "op_add", "bilinear", "bilinear"]
EPS_PD = ["solve", "solve", "solve_left", "inv_quad", "inv_quad_logdet", "logdet", "cholesky", "root_decomposition", "pivoted_cholesky", "sqrt_inv_matmul", "sqrt_inv_matmul_lhs", "op_mul"]
SQUARE_EPS = {"diagonal", "add_diagonal", "add_jitter"}
SYM_EPS = set(EPS_PD) - {"op_mul"}
CG_EPS = {"solve", "solve_left", "inv_quad", "root_decomposition"}  # max_cholesky_size=0 is meaningful
NEEDS_RHS = {"matmul", "op_add", "op_mul", "solve", "solve_left", "inv_quad", "inv_quad_logdet", "sqrt_inv_matmul", "sqrt_inv_matmul_lhs"}
NEEDS_LHS = {"rmatmul", "solve_left", "sqrt_inv_matmul_lhs"}

# classes with hand-written derivative code (DESIGN C07 "G"): sampled as heads with a quota, and as a closed nesting alphabet
CUSTOM_HEADS = ["Toeplitz", "Interpolated", "Diag", "ConstantDiag", "Dense", "ConstantMul", "Matmul", "Mul", "Sum", "PsdSum", "AddedDiag",
                "BlockDiag", "BlockInterleaved", "SumBatch", "BatchRepeat", "Masked", "Kronecker", "KroneckerDiag", "Kernel", "KeOps",
                "KroneckerAddedDiag", "LowRankRootAddedDiag"]
KRON_HEADS = ("Kronecker", "KroneckerDiag", "KroneckerAddedDiag", "KroneckerTri", "SumKronecker")
FOCUS = ["Dense", "Diag", "ConstantDiag", "Toeplitz", "Interpolated", "ConstantMul", "Matmul", "Mul", "Sum", "AddedDiag", "BlockDiag",
         "BlockInterleaved", "SumBatch", "BatchRepeat", "Masked", "Kronecker", "Kernel"]

NONBATCH = {
    ("Dense", "t"): 2, ("Minimal", "t"): 2, ("Tri", "t"): 2, ("Diag", "d"): 1, ("ConstantDiag", "c"): 1, ("Toeplitz", "c"): 1,
    ("ConstantMul", "c"): 0, ("Interpolated", "lv"): 2, ("Interpolated", "rv"): 2, ("Kernel", "x1"): 2, ("Kernel", "x2"): 2,
    ("KeOps", "x1"): 2, ("KeOps", "x2"): 2, ("Kernel", "params.lengthscale"): 2, ("Kernel", "params.outputscale"): 0,
    ("Kernel", "params.variance"): 2, ("Kernel", "params.task_root"): 2,
}


_FINDINGS = []


def _findings():
    """The known-findings file, read ONCE per process (it is read-only at run time; the generator consults it for every case, and
    a reader that meets the file while it is being rewritten would make the data generation depend on external state)."""
    if not _FINDINGS:
        import time

        for attempt in range(6):
            try:
                _FINDINGS.append(load_findings())
                break
            except ValueError:
                if attempt == 5:
                    raise
                time.sleep(0.3)
    return _FINDINGS[0]


def _open_entries():
    return [e for e in _findings() if e.get("property") == ID and e.get("status", "open") == "open"]


def _open_triggers():
    names = set(t for t in os.environ.get("LOV_C07_EXCLUDE", "").split(",") if t)
    for e in _open_entries():
        if e.get("trigger"):
            names.add(e["trigger"])
    return names


def _exclusions():
    ex = {"Zero", "Permutation", "TransposePermutation"}
    for e in _findings():
        if e.get("status", "open") == "open":
            ex.update(e.get("exclude_nodes", []))
            if e.get("property") == ID:
                ex.update(e.get("exclude_nodes_c07", []))
    return tuple(sorted(ex))


# ----------------------------------------------------------------------------------------------------------------------
# generation
# ----------------------------------------------------------------------------------------------------------------------
def _node_literals(node):
    for k, v in node.items():
        if L.is_lit(v) and v["dt"] in ("f64", "f32"):
            yield k, v
        elif k == "params" and isinstance(v, dict):
            for pk, pv in sorted(v.items()):
                if L.is_lit(pv) and pv["dt"] in ("f64", "f32"):
                    yield "params." + pk, pv


def _all_literals(rs):
    out = []
    for r in rs:
        for node in R.walk(r):
            for k, v in _node_literals(node):
                out.append((node, k, v))
    return out


def _slice_first(v, dims, d=0):
    """Keep index 0 (as a size-1 dim) along the listed dims of a nested list."""
    if not isinstance(v, list):
        return v
    if d in dims:
        return [_slice_first(v[0], dims, d + 1)]
    return [_slice_first(x, dims, d + 1) for x in v]


def _mark_leaves(draw, rs, allow_exp=True):
    """Choose the subset of float leaves that requires grad, non-leaf tensors and stride-0 expansions (in place)."""
    lits = _all_literals(rs)
    mode = draw(st.sampled_from(["all", "all", "one", "subset", "subset", "none"]))
    n = len(lits)
    if mode == "all" or n == 0:
        flags = [True] * n
    elif mode == "none":
        flags = [False] * n
    elif mode == "one":
        k = draw(st.integers(0, n - 1))
        flags = [i == k for i in range(n)]
    else:
        flags = [draw(st.booleans()) for _ in range(n)]
    # literals with identical content inside one node (the symmetric left/right pairs of psd Interpolated / Kernel nodes)
    # share the expansion decision, so that the operator stays in its domain
    decided = {}
    for (node, k, v), f in zip(lits, flags):
        if f:
            v["rg"] = True
            if draw(st.integers(0, 5)) == 0:
                v["lay"] = "nl"
        nb = NONBATCH.get((node["op"], k))
        shp = L.shape_of(v)
        if not allow_exp or nb is None or "exp" in v:
            continue
        bdims = [i for i in range(len(shp) - nb) if shp[i] > 1]
        if not bdims:
            continue
        key = (id(node), json.dumps(v["lit"]))
        if key not in decided:
            dims = []
            if draw(st.integers(0, 3)) == 0:
                dims = [i for i in bdims if draw(st.booleans())] or [bdims[0]]
            decided[key] = dims
        dims = decided[key]
        if dims:
            v["lit"] = _slice_first(v["lit"], set(dims))
            v["exp"] = list(shp)
    return mode


# ---- aliased leaves: ONE tensor object in several slots ------------------------------------------------------------------
# A literal carrying "tie": g is materialised as the SAME tensor object as every other literal of group g with identical
# content (see _tied_materialise); the reference differentiates w.r.t. that one leaf through the dense model (total derivative).
MAT_KINDS = {("Dense", "t"), ("Minimal", "t"), ("Tri", "t")}
TIE_KINDS = MAT_KINDS | {("Diag", "d"), ("ConstantDiag", "c"), ("ConstantMul", "c"), ("Toeplitz", "c")}
PAIR_KEYS = {"Kernel": ("x1", "x2"), "KeOps": ("x1", "x2"), "Interpolated": ("lv", "rv")}
ALIAS_HEADS = ["Kronecker", "Kronecker", "Kronecker", "Cat", "Cat", "Kernel", "Kernel", "KeOps", "Interpolated", "Sum", "Matmul", "Mul",
               "KroneckerDiag", "KroneckerTri", "PsdSum", "SumKronecker", "KroneckerAddedDiag"]


SIBLING_COPY = ("Kronecker", "KroneckerDiag", "KroneckerTri", "Sum", "PsdSum", "Mul", "Cat", "Matmul")
ALIAS_CLASSES = ["Dense", "Diag", "ConstantDiag", "Toeplitz", "Kronecker", "Sum", "Cat", "Matmul", "Mul", "Kernel", "Interpolated", "ConstantMul",
                 "AddedDiag", "BlockDiag", "Masked", "TriT", "KroneckerTri", "KroneckerDiag", "SumBatch", "Root"]


def _lit_preds(op, key, v):
    """The domain predicates (gen.py domains: any / psd / pd / tril / triu / '+') that the VALUES of a literal satisfy.  A
    literal may take over the values of another one iff it keeps every predicate it satisfied before: whatever domain its node
    was generated for is a conjunction of these predicates, so the recipe stays in its domain by construction."""
    t = L.value(v, torch.float64)
    P = set()
    if (op, key) in MAT_KINDS:
        if t.dim() >= 2 and t.shape[-1] == t.shape[-2] and t.numel():
            if bool((t == t.mT).all()):
                w = torch.linalg.eigvalsh(t)
                top = max(1.0, float(w.abs().max()))
                if float(w.min()) >= -1e-9 * top:
                    P.add("psd")
                if float(w.min()) >= 0.5:
                    P.add("pd")
            if bool((t.triu(1) == 0).all()):
                P.add("tril")
            if bool((t.tril(-1) == 0).all()):
                P.add("triu")
            if bool((t.diagonal(dim1=-2, dim2=-1) >= 0.5).all()):
                P.add("posdiag")
    elif (op, key) == ("Toeplitz", "c"):
        if t.numel():
            s_ = t[..., 1:].abs().sum(-1)
            if bool((t[..., 0] >= 2.0 * s_).all()):
                P.add("psd")
            if bool((t[..., 0] >= 2.0 * s_ + 0.5).all()):
                P.add("pd")
    else:
        if bool((t >= 0).all()):
            P.add("nonneg")
        if bool((t > 0).all()):
            P.add("pos")
    return P


def _tie_options(rs):
    """('same', a, b): two literals of ONE node that already hold the same values (x1 / x2 of a symmetric kernel matrix k(X, X),
    left / right values of a symmetric interpolation) or may hold them (equal shapes in a node generated for the domain 'any');
    ('copy', src, dst): two literals of the same kind and shape anywhere in the recipes where dst may take src's values."""
    lits = _all_literals(rs)
    opts = []
    for node in (n for x in rs for n in R.walk(x)):
        ks = PAIR_KEYS.get(node["op"])
        if ks and all(L.is_lit(node.get(k)) for k in ks):
            a, b = node[ks[0]], node[ks[1]]
            if "tie" in a or "tie" in b or a["dt"] != b["dt"] or L.shape_of(a) != L.shape_of(b):
                continue
            if node["op"] == "Interpolated" and json.dumps(node["li"]["lit"]) == json.dumps(node["ri"]["lit"]) and not _same_lit(a, b):
                continue
            opts.append(("same", a, b))
    # ('sub', node, i, j): argument j of a node whose arguments share one domain (later ones at most a weaker one: gen.py mk_kron /
    # mk_sum / mk_mul / mk_cat / mk_matmul) becomes a copy of the earlier argument i of the same matrix shape: K = A (x) A, A + A, [A | A]
    for node in (n for x in rs for n in R.walk(x)):
        if node["op"] not in SIBLING_COPY or any("tie" in v for _, _, v in _all_literals(node["args"])):
            continue
        shapes = [refmodel.shape(a) for a in node["args"]]
        for i in range(len(shapes)):
            for j in range(i + 1, len(shapes)):
                same = shapes[i] == shapes[j] if node["op"] in ("Cat", "Matmul") else shapes[i][-2:] == shapes[j][-2:]
                if same and _all_literals([node["args"][i]]) and json.dumps(node["args"][i]) != json.dumps(node["args"][j]):
                    # (the node must keep its shape: the argument that carries the full batch shape is not always the first one)
                    trial = dict(node, args=[node["args"][i] if q == j else a for q, a in enumerate(node["args"])])
                    try:
                        keeps = refmodel.shape(trial) == refmodel.shape(node)
                    except Exception:
                        keeps = False
                    if keeps:
                        opts.append(("sub", node, (i, j)))
    cand = [(node, k, v) for node, k, v in lits if (node["op"], k) in TIE_KINDS]
    preds = {}
    for i, (n1, k1, v1) in enumerate(cand):
        for n2, k2, v2 in cand[i + 1:]:
            if v1 is v2 or v1["dt"] != v2["dt"] or L.shape_of(v1) != L.shape_of(v2) or "exp" in v1 or "exp" in v2:
                continue
            if not ((n1["op"], k1) == (n2["op"], k2) or ((n1["op"], k1) in MAT_KINDS and (n2["op"], k2) in MAT_KINDS)):
                continue
            for (na, ka, va), (nb, kb, vb) in (((n1, k1, v1), (n2, k2, v2)), ((n2, k2, v2), (n1, k1, v1))):
                if "tie" in vb:
                    continue
                for nn, kk, vv in ((na, ka, va), (nb, kb, vb)):
                    if id(vv) not in preds:
                        preds[id(vv)] = _lit_preds(nn["op"], kk, vv)
                if preds[id(va)] >= preds[id(vb)]:
                    opts.append(("copy", va, vb))
                    break
    return opts


def _tie_leaves(draw, rs):
    """Tie one (sometimes two) pairs of literals (in place).  Returns the number of ties made."""
    made = 0
    for rnd in range(2):
        opts = _tie_options(rs)
        if not opts or (rnd == 1 and draw(st.integers(0, 2)) != 0):
            break
        kind, a, b = opts[draw(st.integers(0, len(opts) - 1))]
        nxt = 1 + max([v.get("tie", 0) for _, _, v in _all_literals(rs)] + [0])
        if kind == "sub":
            node, (i, j) = a, b
            node["args"][j] = copy.deepcopy(node["args"][i])
            for (_, _, va), (_, _, vb) in zip(_all_literals([node["args"][i]]), _all_literals([node["args"][j]])):
                va["tie"] = vb["tie"] = nxt
                nxt += 1
        else:
            if "tie" not in a:
                a["tie"] = nxt
            b["lit"] = copy.deepcopy(a["lit"])
            b["tie"] = a["tie"]
        made += 1
    return made


def _harmonise_ties(draw, rs):
    """After the requires-grad / layout / expansion decisions: the members of a tie group are one tensor -- one set of flags."""
    groups = {}
    for _, _, v in _all_literals(rs):
        if "tie" in v:
            groups.setdefault(v["tie"], []).append(v)
    for g in sorted(groups):
        first = groups[g][0]
        if draw(st.integers(0, 4)) != 0:
            first["rg"] = True
        for m in groups[g][1:]:
            for key in ("lit", "rg", "lay", "exp"):
                if key in first:
                    m[key] = copy.deepcopy(first[key])
                else:
                    m.pop(key, None)


def _tie_groups(recs):
    """Groups (>= 2 members with identical content) of tied float literals: {group id: [literal, ...]}."""
    groups = {}
    for _, _, v in _all_literals(recs):
        if "tie" in v:
            groups.setdefault((v["tie"], _tie_content(v)), []).append(v)
    return {k: vs for k, vs in groups.items() if len(vs) >= 2}


def _tie_content(v):
    return json.dumps({k: v[k] for k in sorted(v) if k != "tie"}, sort_keys=True)


def _ones(shape):
    if not shape:
        return 1.0
    return [_ones(shape[1:]) for _ in range(shape[0])]


def _replace_identity(r, keep_head):
    for i, node in enumerate(list(R.walk(r))):
        if node["op"] == "Identity" and not (i == 0 and keep_head):
            n, batch = node["n"], list(node["batch"])
            node.clear()
            node.update({"op": "ConstantDiag", "c": L.lit(_ones(batch + [1]), "f64"), "n": n})


def _flit(draw, shape, lo=-16, hi=16, rg=None):
    l = gen.flit(draw, gen.Cfg(dt="f64", wide=False), tuple(shape), lo, hi)
    if rg is None:
        rg = draw(st.integers(0, 4)) != 0
    if rg:
        l["rg"] = True
    return l


def _gen_index(draw, shape):
    """A slice of rows (+ columns), an int row, or tensor indices -- non-negative entries only (C03 owns the rest)."""
    *batch, m, n = shape
    kind = draw(st.sampled_from(["slice", "int_row", "tensor"]))
    items = []
    if batch and draw(st.booleans()):
        items.append({"k": "int", "v": draw(st.integers(0, batch[0] - 1))})
        if kind == "tensor":
            items[0] = {"k": "tensor", "v": [draw(st.integers(0, batch[0] - 1)) for _ in range(2)]}
    else:
        items.append({"k": "ellipsis"})
    if kind == "slice":
        a = draw(st.integers(0, m - 1))
        b = draw(st.integers(a + 1, m))
        items.append({"k": "slice", "v": [a, b, None]})
        if draw(st.booleans()):
            c = draw(st.integers(0, n - 1))
            d = draw(st.integers(c + 1, n))
            items.append({"k": "slice", "v": [c, d, None]})
    elif kind == "int_row":
        items.append({"k": "int", "v": draw(st.integers(0, m - 1))})
        if items[0]["k"] == "int" and len(batch) > 1:
            items.insert(1, {"k": "ellipsis"})
    else:
        k = 2
        items.append({"k": "tensor", "v": [draw(st.integers(0, m - 1)) for _ in range(k)]})
        items.append({"k": "tensor", "v": [draw(st.integers(0, n - 1)) for _ in range(k)]})
        if items[0]["k"] == "tensor" and len(batch) > 1:
            items.insert(1, {"k": "ellipsis"})
    return kind, items


@st.composite
def cases(draw, tier):
    trig = _open_triggers()
    ex = _exclusions()
    pool = EPS_ANY + EPS_PD
    ep = draw(st.sampled_from(pool))
    pdonly = ep in EPS_PD
    square = pdonly or ep in SQUARE_EPS
    dom = "pd" if pdonly else draw(st.sampled_from(["any", "any", "psd", "pd"]))
    names = sorted(nm for nm in gen.PREDS if nm not in ex)
    custom = [nm for nm in CUSTOM_HEADS if nm not in ex]
    mode = draw(st.integers(0, 3))
    classes = None
    if mode == 0:
        head = draw(st.sampled_from(names)) if draw(st.booleans()) else None
    elif mode in (1, 2):
        head = draw(st.sampled_from(custom))
    else:
        # nestings among the classes with hand-written derivative code only
        head = draw(st.sampled_from(custom))
        classes = [nm for nm in FOCUS if nm not in ex]
    # aliased leaves (one tensor object in several slots of the operator tree): requested for 1/3 of the cases, with a head
    # class / size / batch that makes two literals of the same kind and shape likely; made whenever the recipe admits it
    want_alias = ep != "bilinear" and draw(st.integers(0, 2)) == 0
    alias_head = want_alias and draw(st.integers(0, 3)) != 0
    if alias_head:
        classes = [nm for nm in ALIAS_CLASSES if nm not in ex] if draw(st.integers(0, 2)) else None
        if not pdonly and draw(st.integers(0, 2)) == 0:
            dom = "psd"  # (symmetric kernel matrices k(X, X) / symmetric interpolations exist in this domain only)
    # (the body of gen.recipes, with sizes chosen so that the requested head class is applicable: Kronecker forms need n = 4)
    cfg = gen.Cfg(dt="f64", max_dim=5, exclude=ex, classes=classes)
    batch = draw(st.sampled_from(gen.BATCHES[:-1]))
    if want_alias and draw(st.booleans()):
        batch = ()  # (a batched Kronecker constructor expands its factors into distinct tensors)
    # three batch dimensions (only here: cost) for the right-hand sides with FEWER batch dimensions and an interior size-1 dim
    deep = ep in ("matmul", "op_add") and not want_alias and draw(st.integers(0, 5)) == 0
    if deep:
        batch = draw(st.sampled_from([(2, 3, 2), (2, 2, 2), (3, 2, 2), (2, 2, 3)]))
    n = draw(st.integers(1, 3 if deep else 5))
    if (head in KRON_HEADS or (alias_head and draw(st.booleans()))) and draw(st.integers(0, 3)) and not deep:
        n = 4
    if dom == "any" and not square:
        m = n if draw(st.integers(0, 2)) else draw(st.integers(1, 5))
    else:
        m = n
    depth = draw(st.sampled_from([1, 2, 2] if deep else [1, 2, 2, 3, 3]))
    if alias_head:
        cand = [nm for nm in ALIAS_HEADS if nm in gen._applicable(cfg, dom, m, n, batch, max(depth, 2))]
        if cand:
            head = draw(st.sampled_from(cand))
    if head is not None and head in gen._applicable(cfg, dom, m, n, batch, max(depth, 2)):
        r = gen.call_maker(head, draw, cfg, dom, m, n, batch, max(depth, 2))
    else:
        r = gen.gen(draw, cfg, dom, m, n, batch, depth)
    shp = refmodel.shape(r)
    *batch, m, n = shp
    batch = tuple(batch)
    case = {"ep": ep, "recipe": r}
    if ep == "root_decomposition" and draw(st.integers(0, 2)) == 0 and not any(
        nd["op"] in ("KroneckerAddedDiag", "SumKronecker", "Kronecker", "KroneckerDiag", "KroneckerTri", "ConstantDiag", "Identity", "Diag") for nd in R.walk(r)
    ):
        # (not over (scaled) identities / diagonal and Kronecker-structured nodes: a Lanczos run from one start vector breaks
        #  down at the first step there - the open findings F-C09-first-step-breakdown / F-C04-lanczos-structured-solve)
        # call history on the same object: the Lanczos inverse root is computed first and caches its by-product root;
        # the differentiated root_decomposition() is then a cache hit on an output of that earlier Function call
        case["after_root_inv"] = True
    rs = [r]
    if ep in ("op_add", "op_mul"):
        cfg = gen.Cfg(dt="f64", max_dim=5, exclude=ex)
        d2 = dom if ep == "op_add" else "pd"
        b2 = gen.sub_batch(draw, batch)
        r2 = gen.gen(draw, cfg, d2, m, n, b2, draw(st.integers(1, 2)))
        case["recipe2"] = r2
        rs.append(r2)
    if "identity_derivative_arity" in trig:
        # open finding: avoid exactly the trigger -- the same matrix written as a ConstantDiag of ones
        for i, x in enumerate(rs):
            _replace_identity(x, keep_head=(ep != "bilinear"))
    if "interpolated_rect_base" in trig:
        # open finding: avoid exactly the trigger -- a square base of size min(p, q), interpolation indices folded into range
        cfg2 = gen.Cfg(dt="f64", max_dim=5, exclude=ex)
        cfg2.nested = True
        for x in rs:
            for node in R.walk(x):
                if node["op"] == "Interpolated":
                    bshp = refmodel.shape(node["base"])
                    if bshp[-1] != bshp[-2]:
                        k = min(bshp[-2:])
                        node["base"] = gen.gen(draw, cfg2, "any", k, k, tuple(bshp[:-2]), draw(st.integers(1, 2)))
                        for key in ("li", "ri"):
                            node[key]["lit"] = gen._map2(node[key]["lit"], lambda v: v % k)
    n_ties = _tie_leaves(draw, rs) if want_alias else 0
    case["rg_mode"] = _mark_leaves(draw, rs, allow_exp="no_expanded_leaves" not in trig)
    if n_ties:
        _harmonise_ties(draw, rs)
    if "singular_kronecker_factor_symeig" in trig or "symeig_negative_rounded_eigenvalue" in trig:
        # avoid exactly the trigger: the singular PSD sub-matrix F is replaced by the (positive definite) dense matrix F + I
        found = _singular_kron_factors(rs) if "singular_kronecker_factor_symeig" in trig else _neg_rounded_kron_factors(rs)
        for parent, (key, i), f in found:
            M = refmodel.dense(f)
            M = 0.5 * (M + M.mT) + torch.eye(M.shape[-1], dtype=M.dtype)
            repl = {"op": "Dense", "t": L.lit(M.tolist(), "f64")}
            if key == "args":
                parent["args"][i] = repl
            else:
                parent["base"] = repl
    if "batched_interp_values_under_autograd_derivative" in trig:
        for node in _batched_interp_under_autograd(rs):
            node["lv"].pop("rg", None)
            node["rv"].pop("rg", None)
    case["exp_leaf"] = draw(st.sampled_from(["base", "base", "view"]))
    # right / left operands
    if ep in NEEDS_RHS:
        # (a 1-D right-hand side against a BATCHED operator: open finding F-C07-matmul-vector-rhs-batched-operator for the
        #  products; avoided exactly there while it is open)
        allow_vec = len(batch) == 0 or not (ep in ("matmul", "op_add", "op_mul") and "matmul_vector_rhs_batched_operator" in trig)
        kinds = ["matrix", "matrix", "batched"]
        if ep in ("matmul", "op_add", "op_mul", "solve", "sqrt_inv_matmul"):
            kinds += ["broadcast_more", "broadcast_fewer", "size1"]
            if any(x == 1 for x in batch):
                kinds.append("broadcast_wider")
        if allow_vec and ep not in ("sqrt_inv_matmul_lhs", "solve_left"):
            kinds.append("vector")
        kind = draw(st.sampled_from(kinds))
        if deep and draw(st.integers(0, 3)):
            kind = "fewer_inner1"
        c = draw(st.integers(1, 3))
        if kind == "vector":
            rshape = (n,)
        elif kind == "fewer_inner1":
            # fewer batch dimensions than the operator AND a size-1 dim behind a larger one: (b1, 1) against (b0, b1, b2)
            rshape = (batch[1], 1, n, c)
        elif kind == "broadcast_wider":
            # more batch dimensions than the operator and LARGER than the operator at its size-1 batch dims
            rshape = draw(st.sampled_from([(2,), (1,)])) + tuple(x if x > 1 else draw(st.integers(2, 3)) for x in batch) + (n, c)
        elif kind == "matrix":
            rshape = (n, c)
        elif kind == "batched":
            rshape = batch + (n, c)
        elif kind == "broadcast_more":
            rshape = draw(st.sampled_from([(2,), (1,), (3, 1)])) + batch + (n, c)
        elif kind == "broadcast_fewer":
            rshape = batch[draw(st.integers(0, len(batch))):] + (n, c)
        else:
            rshape = tuple(1 if draw(st.booleans()) else x for x in batch) + (n, c)
        if ep in ("inv_quad", "inv_quad_logdet") and kind == "matrix":
            rshape = batch + (n, c)
        case["rhs_kind"] = kind
        case["rhs"] = _flit(draw, rshape, rg=True if kind in ("fewer_inner1", "broadcast_wider") else None)
        if "matmul_rhs_fewer_dims_inner_singleton" in trig and ep in MATMUL_EPS and _rhs_fold_scrambles(batch, rshape):
            case["rhs"].pop("rg", None)  # open finding: avoid exactly the trigger (the rhs gradient is not requested)
    if ep in NEEDS_LHS:
        p = draw(st.integers(1, 3))
        if ep == "rmatmul":
            kind = draw(st.sampled_from(["matrix", "batched", "vector"] if not batch else ["matrix", "batched", "more"]))
            lshape = {"matrix": (p, m), "batched": batch + (p, m), "vector": (m,), "more": (2,) + batch + (p, m)}[kind]
            case["lhs_kind"] = kind
        else:
            lshape = (batch if draw(st.booleans()) else ()) + (p, n)
            if len(L.shape_of(case["rhs"])) > len(lshape) and ep == "solve_left":
                lshape = tuple(L.shape_of(case["rhs"])[:-2]) + (p, n)
        case["lhs"] = _flit(draw, lshape)
    if ep == "getitem":
        case["index_kind"], case["index"] = _gen_index(draw, shp)
    if ep == "sum":
        dims = [-1, -2] + list(range(len(batch)))
        case["dim"] = draw(st.sampled_from(dims))
    if ep == "add_diagonal":
        dshape = draw(st.sampled_from([(n,), batch + (n,), (1,)]))
        case["diag"] = _flit(draw, dshape, 1, 16)
    if ep == "add_jitter":
        case["jitter"] = draw(st.sampled_from([0.5, 1e-3, 2.0]))
    if ep in ("inv_quad", "inv_quad_logdet"):
        case["reduce"] = draw(st.sampled_from([True, True, False]))
    if ep == "bilinear":
        D = draw(st.integers(1, 3))
        uv = draw(st.sampled_from(["same", "same", "more", "v_fewer"] + (["wider"] if any(x == 1 for x in batch) else []) if batch else ["same", "same", "more"]))
        wide = (2,) + tuple(x if x > 1 else draw(st.integers(2, 3)) for x in batch)
        ub = {"same": batch, "more": (2,) + batch, "v_fewer": batch, "wider": wide}[uv]
        vb = {"same": batch, "more": (2,) + batch, "v_fewer": (), "wider": wide}[uv]
        case["uv"] = uv
        case["U"] = _flit(draw, ub + (m, D), rg=False)
        case["V"] = _flit(draw, vb + (n, D), rg=False)
    case["w"] = gen.grid(draw, (16,), -16, 16)
    cell = {"memory_efficient": draw(st.booleans())}
    if ep in CG_EPS and draw(st.integers(0, 2)) == 0:
        cell["max_cholesky_size"] = 0
        if "lanczos_diagonalization" in trig and _has_kron_added_diag(r):
            del cell["max_cholesky_size"]
    case["cell"] = cell
    if "toeplitz_derivative_wider_vectors" in trig:
        for node in _toeplitz_wider_nodes(case):
            node["c"].pop("rg", None)  # open finding: avoid exactly the trigger (that column's gradient is not requested)
    return case


def strategy(tier):
    return cases(tier)


# ----------------------------------------------------------------------------------------------------------------------
# building with leaves
# ----------------------------------------------------------------------------------------------------------------------
@contextlib.contextmanager
def _base_leaf_expansions(enabled):
    """While active, a float literal with rg + exp is materialised as  leaf(base shape).expand(target)  -- the caller-side
    broadcast of a smaller parameter -- instead of a stride-0 tensor that itself requires grad (lov.lit's default)."""
    orig = L.materialise
    if not enabled:
        yield
        return

    def mat(l, registry=None):
        if l.get("rg") and "exp" in l and l["dt"] in ("f64", "f32") and registry is not None:
            leaf = torch.tensor(l["lit"], dtype=L.DT[l["dt"]]).requires_grad_(True)
            t = leaf * 1.0 if l.get("lay") == "nl" else leaf
            registry.append((l, leaf))
            return t.expand(*l["exp"])
        return orig(l, registry)

    L.materialise = mat
    try:
        yield
    finally:
        L.materialise = orig


@contextlib.contextmanager
def _tied_materialise(enabled, aliases):
    """While active, float literals of one tie group ("tie": g, identical content) are materialised ONCE: every further member
    receives the very same tensor object (the caller passing one parameter tensor to several constructors / slots).  The first
    member is registered as the leaf; the others are recorded in `aliases` as (literal, leaf or None)."""
    inner = L.materialise
    if not enabled:
        yield
        return
    memo = {}

    def mat(l, registry=None):
        if "tie" not in l or l["dt"] not in ("f64", "f32"):
            return inner(l, registry)
        key = (l["tie"], _tie_content(l))
        if key in memo:
            t, leaf = memo[key]
            aliases.append((l, leaf))
            return t
        n0 = len(registry) if registry is not None else 0
        t = inner(l, registry)
        leaf = registry[-1][1] if registry is not None and len(registry) > n0 else None
        memo[key] = (t, leaf)
        return t

    L.materialise = mat
    try:
        yield
    finally:
        L.materialise = inner


class Built:
    pass


def _build(case, with_grad=True, tie=True):
    b = Built()
    ctx = R.BuildCtx()
    c = case if with_grad else _strip_rg(case)
    b.aliases = []
    with _base_leaf_expansions(c.get("exp_leaf", "base") == "base"), _tied_materialise(tie, b.aliases):
        b.op = R.build(c["recipe"], ctx)
        b.op2 = R.build(c["recipe2"], ctx) if "recipe2" in c else None
        b.t = {}
        for k in ("rhs", "lhs", "diag", "U", "V"):
            if k in c:
                b.t[k] = L.materialise(c[k], ctx.leaves)
    b.leaves = list(ctx.leaves)
    b.tensors = list(ctx.tensors)
    b.case = c
    return b


def _leafmap(b):
    """id(literal) -> leaf tensor, for the reference model; the literals of a tie group all map to their one shared leaf."""
    m = {id(l): t for l, t in b.leaves}
    for l, leaf in b.aliases:
        if leaf is not None:
            m[id(l)] = leaf
    return m


def _strip_rg(obj):
    if isinstance(obj, dict):
        return {k: _strip_rg(v) for k, v in obj.items() if not (L.is_lit(obj) and k == "rg")}
    if isinstance(obj, list):
        return [_strip_rg(v) for v in obj]
    return obj


# ----------------------------------------------------------------------------------------------------------------------
# the entry points: library side / reference side
# ----------------------------------------------------------------------------------------------------------------------
def _dense(x):
    return x if torch.is_tensor(x) else x.to_dense()


def lib_out(ep, b):
    op, t, c = b.op, b.t, b.case
    if ep == "matmul":
        return (op @ t["rhs"],)
    if ep == "rmatmul":
        return (t["lhs"] @ op,)
    if ep == "to_dense":
        return (op.to_dense(),)
    if ep == "diagonal":
        return (op.diagonal(),)
    if ep == "getitem":
        return (_dense(op[to_index(c["index"])]),)
    if ep == "sum":
        return (_dense(op.sum(c["dim"])),)
    if ep == "add_diagonal":
        return (_dense(op.add_diagonal(t["diag"])),)
    if ep == "add_jitter":
        return (_dense(op.add_jitter(c["jitter"])),)
    if ep == "op_add":
        return (_dense((op + b.op2) @ t["rhs"]),)
    if ep == "op_mul":
        return (_dense((op * b.op2) @ t["rhs"]),)
    if ep == "solve":
        return (op.solve(t["rhs"]),)
    if ep == "solve_left":
        return (op.solve(t["rhs"], t["lhs"]),)
    if ep == "inv_quad":
        return (op.inv_quad(t["rhs"], reduce_inv_quad=c["reduce"]),)
    if ep == "inv_quad_logdet":
        iq, ld = op.inv_quad_logdet(t["rhs"], logdet=True, reduce_inv_quad=c["reduce"])
        return (iq, ld)
    if ep == "logdet":
        return (op.logdet(),)
    if ep == "cholesky":
        return (_dense(op.cholesky()),)
    if ep == "root_decomposition":
        if c.get("after_root_inv"):
            op.root_inv_decomposition(method="lanczos")
        root = _dense(op.root_decomposition().root)
        return (root @ root.mT,)
    if ep == "pivoted_cholesky":
        Lf = op.pivoted_cholesky(rank=op.size(-1), error_tol=0.0)
        return (Lf @ Lf.mT,)
    if ep == "sqrt_inv_matmul":
        return (op.sqrt_inv_matmul(t["rhs"]),)
    if ep == "sqrt_inv_matmul_lhs":
        a, q = op.sqrt_inv_matmul(t["rhs"], t["lhs"])
        return (a, q)
    raise HarnessError("unknown entry point %r" % ep)


class _SymFn(torch.autograd.Function):
    """f(A) = Q f(w) Q^T for symmetric A with the Daleckii-Krein derivative (divided differences, f' on ties)."""

    @staticmethod
    def forward(ctx, A, power):
        w, Q = torch.linalg.eigh(A)
        fw = w.pow(power)
        ctx.save_for_backward(w, Q)
        ctx.power = power
        return (Q * fw.unsqueeze(-2)) @ Q.mT

    @staticmethod
    def backward(ctx, G):
        w, Q = ctx.saved_tensors
        p = ctx.power
        fw = w.pow(p)
        dw = w.unsqueeze(-1) - w.unsqueeze(-2)
        df = fw.unsqueeze(-1) - fw.unsqueeze(-2)
        mid = 0.5 * (w.unsqueeze(-1) + w.unsqueeze(-2))
        close = dw.abs() <= 1e-7 * mid.abs()
        F = torch.where(close, p * mid.pow(p - 1.0), df / torch.where(close, torch.ones_like(dw), dw))
        Gs = 0.5 * (G + G.mT)
        inner = Q.mT @ Gs @ Q
        return Q @ (F * inner) @ Q.mT, None


def _sym(A):
    return 0.5 * (A + A.mT)


def ref_out(ep, A, A2, t, c):
    if ep == "matmul":
        return (torch.matmul(A, t["rhs"]),)
    if ep == "rmatmul":
        return (torch.matmul(t["lhs"], A),)
    if ep == "to_dense":
        return (A,)
    if ep == "diagonal":
        return (A.diagonal(dim1=-2, dim2=-1),)
    if ep == "getitem":
        return (A[to_index(c["index"])],)
    if ep == "sum":
        return (A.sum(c["dim"]),)
    if ep == "add_diagonal":
        d = t["diag"]
        return (A + torch.diag_embed(d.expand(*torch.broadcast_shapes(d.shape[:-1], A.shape[:-2]), A.shape[-1])),)
    if ep == "add_jitter":
        return (A + c["jitter"] * torch.eye(A.shape[-1], dtype=A.dtype),)
    if ep == "op_add":
        return (torch.matmul(A + A2, t["rhs"]),)
    if ep == "op_mul":
        return (torch.matmul(A * A2, t["rhs"]),)
    As = _sym(A)
    if ep in ("solve", "solve_left"):
        rhs = t["rhs"]
        vec = rhs.dim() == 1
        x = torch.linalg.solve(As, rhs.unsqueeze(-1) if vec else rhs)
        if ep == "solve_left":
            x = torch.matmul(t["lhs"], x)
        return (x.squeeze(-1) if vec else x,)
    if ep in ("inv_quad", "inv_quad_logdet"):
        rhs = t["rhs"]
        r2 = rhs.unsqueeze(-1) if rhs.dim() == 1 else rhs
        iq = (r2 * torch.linalg.solve(As, r2)).sum(-2)
        if c["reduce"]:
            iq = iq.sum(-1)
        if ep == "inv_quad":
            return (iq,)
        return (iq, torch.linalg.slogdet(As)[1])
    if ep == "logdet":
        return (torch.linalg.slogdet(As)[1],)
    if ep == "cholesky":
        return (torch.linalg.cholesky(As),)
    if ep in ("root_decomposition", "pivoted_cholesky"):
        return (As,)
    if ep == "sqrt_inv_matmul":
        rhs = t["rhs"]
        vec = rhs.dim() == 1
        x = torch.matmul(_SymFn.apply(As, -0.5), rhs.unsqueeze(-1) if vec else rhs)
        return (x.squeeze(-1) if vec else x,)
    if ep == "sqrt_inv_matmul_lhs":
        lhs, rhs = t["lhs"], t["rhs"]
        a = torch.matmul(lhs, torch.matmul(_SymFn.apply(As, -0.5), rhs))
        q = (torch.matmul(lhs, torch.linalg.inv(As)) * lhs).sum(-1)
        return (a, q)
    raise HarnessError("unknown entry point %r" % ep)


def _cotangents(outs, w):
    wt = torch.tensor(w, dtype=torch.float64)
    res = []
    off = 0
    for o in outs:
        n = o.numel()
        idx = (torch.arange(n) + off) % wt.numel()
        res.append(wt[idx].reshape(o.shape))
        off += 5
    return res


def _settings_cell(case, memeff):
    cell = {"memory_efficient": bool(memeff)}
    if case["cell"].get("max_cholesky_size") == 0:
        cell.update({"max_cholesky_size": 0, "cg_tolerance": 1e-12, "max_cg_iterations": 200})
    if case["ep"].startswith("sqrt_inv_matmul"):
        cell.update({"minres_tolerance": 1e-10})
    return cell


# ----------------------------------------------------------------------------------------------------------------------
# structure helpers
# ----------------------------------------------------------------------------------------------------------------------
TRANSPOSE_COMMUTING = {"Sum", "PsdSum", "AddedDiag", "ConstantMul", "Kronecker", "KroneckerAddedDiag", "SumKronecker", "BlockDiag",
                       "BlockInterleaved", "SumBatch", "BatchRepeat", "Masked", "Mul", "LowRankRootAddedDiag", "KroneckerDiag"}


def _same_lit(a, b):
    return a.get("exp") == b.get("exp") and json.dumps(a["lit"]) == json.dumps(b["lit"])


def _sym_structure(case):
    """Leaves whose individual perturbation leaves the domain of a symmetric-only function.

    Symmetric-only contexts: the head for the entry points defined on symmetric matrices, and both operands of every
    elementwise product (MulLinearOperator multiplies through root decompositions of its operands).  Inside such a context,
    following nodes that commute with transposition:
      * a symmetric Dense / Minimal literal -> the library may return any antisymmetric part: compare sym(gradient);
      * the (left, right) value pair of a symmetric Interpolated node and the (x1, x2) pair of a symmetric Kernel node
        -> only the joint perturbation is symmetric: compare the SUM of the two leaf gradients.
    Returns (symmetrise: set of id(literal), ties: list of (id(literal), id(literal)))."""
    ep = case["ep"]
    recs = [case["recipe"]] + ([case["recipe2"]] if "recipe2" in case else [])
    roots = []
    if ep in SYM_EPS:
        roots.append(case["recipe"])
    if ep == "op_mul":
        roots += recs
    for x in recs:
        for node in R.walk(x):
            if node["op"] == "Mul":
                roots += node["args"]
    symset, ties = set(), []

    def visit(node):
        op = node["op"]
        if op in ("Dense", "Minimal"):
            v = L.value(node["t"], torch.float64)
            if v.shape[-1] == v.shape[-2] and bool((v == v.mT).all()):
                symset.add(id(node["t"]))
        elif op == "Interpolated":
            if json.dumps(node["li"]["lit"]) == json.dumps(node["ri"]["lit"]) and _same_lit(node["lv"], node["rv"]):
                ties.append((id(node["lv"]), id(node["rv"])))
                visit(node["base"])
        elif op in ("Kernel", "KeOps"):
            if _same_lit(node["x1"], node["x2"]):
                ties.append((id(node["x1"]), id(node["x2"])))
        elif op in TRANSPOSE_COMMUTING:
            for ch in R.children(node):
                visit(ch)

    for x in roots:
        visit(x)
    return symset, ties


def _spectrum(M):
    """(kappa, lambda_min) of the symmetrised (batch of) matrices; (inf, 0) if not positive definite."""
    if M.shape[-1] != M.shape[-2]:
        return 1.0, 1.0
    w = torch.linalg.eigvalsh(_sym(M.detach()))
    if w.numel() == 0:
        return 1.0, 1.0
    lo, hi = w.min(dim=-1)[0], w.abs().max(dim=-1)[0]
    if bool((lo <= 0).any()):
        return float("inf"), 0.0
    return float((hi / lo).max()), float(lo.min())


def _kappa(M):
    return _spectrum(M)[0]


def _ciq_domain_ok(A, rhs):
    """contour_integral_quad estimates [lambda_min, lambda_max] from the Krylov space of the FIRST right-hand-side column
    (slice 0 of any extra leading batch dims) and re-uses those quadrature nodes in the backward pass for the cotangent.
    Its accuracy statement therefore needs that column to have a component on the extreme eigenvectors; otherwise the
    quadrature interval misses part of the spectrum (e.g. a zero column).  Required here: relative component >= 1e-3."""
    w, Q = torch.linalg.eigh(_sym(A.detach()))
    r0 = rhs.detach().to(torch.float64)
    if r0.dim() == 1:
        r0 = r0.unsqueeze(-1)
    while r0.dim() > A.dim():
        r0 = r0[0]
    r0 = r0[..., :, :1]
    comp = torch.matmul(Q.mT, r0).squeeze(-1).abs()
    nr = r0.norm(dim=-2)
    if bool((nr == 0).any()):
        return False
    rel = comp / nr
    top = w[..., -1:].abs()
    lo = ((rel * ((w - w[..., :1]).abs() <= 1e-8 * top)) ** 2).sum(-1).sqrt()
    hi = ((rel * ((w - w[..., -1:]).abs() <= 1e-8 * top)) ** 2).sum(-1).sqrt()
    return bool((lo >= 1e-3).all()) and bool((hi >= 1e-3).all())


def _gap_factor(M):
    """lambda_max / (smallest gap between two DISTINCT eigenvalues): differentiating through an eigendecomposition divides
    rounding errors by the gaps (exact ties are structural and excluded)."""
    if M.shape[-1] != M.shape[-2] or M.shape[-1] < 2:
        return 1.0
    w = torch.linalg.eigvalsh(_sym(M.detach()))
    top = w.abs().max(dim=-1, keepdim=True)[0].clamp_min(1e-300)
    d = (w[..., 1:] - w[..., :-1]) / top
    d = d[d > 1e-13]
    return float(1.0 / d.min()) if d.numel() else 1.0


def _internal_kappa(r):
    """Condition numbers of the sub-matrices that the classes themselves factorise / invert (root decompositions of the
    operands of Mul, the invertible summand of SumKronecker, the diagonal parts of the Woodbury / Kronecker-added-diag forms),
    and the eigenvalue-gap factors of the Kronecker factors those closed forms eigendecompose."""
    k = 1.0
    for node in R.walk(r):
        op = node["op"]
        subs = []
        if op in ("KroneckerAddedDiag", "SumKronecker"):
            for a in node["args"]:
                if a["op"] == "Kronecker":
                    for f in a["args"]:
                        k = max(k, _gap_factor(refmodel.dense(f)))
        if op == "Mul":
            subs = node["args"]
        elif op == "SumKronecker":
            subs = [node["args"][1]] + list(node["args"][1]["args"])
        elif op in ("LowRankRootAddedDiag", "KroneckerAddedDiag", "AddedDiag"):
            subs = [a for a in node["args"] if gen.is_diag_instance(a)]
        for s in subs:
            k = max(k, _kappa(refmodel.dense(s)))
        if op == "LowRankRootAddedDiag":
            # Woodbury: (L L^T + D)^-1 b = D^-1 b - D^-1 L (I + L^T D^-1 L)^-1 L^T D^-1 b  -- a difference of two terms of size
            # |D^-1| |b| that cancels down to |A^-1 b| >= |b| / |A|: rounding errors are amplified by  lambda_max(A) / lambda_min(D)
            # (>= kappa(A), much larger when the low-rank part dominates the diagonal)
            A_ = refmodel.dense(node)
            for s in subs:
                d_ = refmodel.dense(s).diagonal(dim1=-2, dim2=-1)
                if d_.numel() and A_.shape[-1] == A_.shape[-2]:
                    top = torch.linalg.eigvalsh(_sym(A_)).abs().max(dim=-1)[0]
                    lo = d_.min(dim=-1)[0]
                    k = max(k, float((top / lo).max()) if bool((lo > 0).all()) else float("inf"))
    return k


def _has_rg(l):
    return bool(l.get("rg"))


TRI_PRESERVING = {"Kronecker", "KroneckerTri", "KroneckerDiag", "BlockDiag", "ConstantMul", "BatchRepeat", "Tri"}


def _tri_masks(recs):
    """id(literal) -> upper flag, for matrix literals that a TriangularLinearOperator treats as triangular: perturbing the
    structurally zero triangle leaves the class's domain (its solves read one triangle only), so those entries are not compared."""
    out = {}

    def visit(node, upper):
        op = node["op"]
        if op in ("Tri", "KroneckerTri"):
            upper = bool(node.get("upper"))
            if "t" in node:
                out[id(node["t"])] = upper
        elif upper is not None and op in ("Dense", "Minimal"):
            out[id(node["t"])] = upper
        elif upper is not None and op not in TRI_PRESERVING:
            upper = None
        for ch in R.children(node):
            visit(ch, upper)

    for x in recs:
        visit(x, None)
    return out


def _copy_nodes(r):
    """Copy of the recipe's node dicts that shares the literal dicts (so that id(literal) keys stay valid)."""
    out = {}
    for k, v in r.items():
        if k == "args":
            out[k] = [_copy_nodes(a) for a in v]
        elif k == "base":
            out[k] = _copy_nodes(v)
        else:
            out[k] = v
    return out


@contextlib.contextmanager
def _toeplitz_normwise():
    """Magnitude model of a Toeplitz node (as refmodel.dense_abs): the library multiplies through FFTs of the whole column, so the
    rounding error of EVERY entry of a product is proportional to ||c||_1 (normwise) -- also where T itself is exactly zero:
    |T|  ->  |T| + ||c||_1 / 2."""
    orig = refmodel.toeplitz

    def toeplitz(c):
        return orig(c) + 0.5 * c.sum(-1, keepdim=True).unsqueeze(-1).expand(*c.shape, c.shape[-1])

    refmodel.toeplitz = toeplitz
    try:
        yield
    finally:
        refmodel.toeplitz = orig


def _abs_recipe(r):
    """The recipe used for the magnitude model: an elementwise product (computed by the library through root decompositions
    of both operands, hence with NORMWISE rounding errors) is modelled as  max|a| * |b| + |a| * max|b|  >= |a| * |b|."""
    r = _copy_nodes(r)

    def fix(node):
        for k in ("args",):
            if k in node:
                node[k] = [fix(a) for a in node[k]]
        if "base" in node:
            node["base"] = fix(node["base"])
        if node["op"] == "Mul":
            a_, b_ = node["args"]
            ma = float(refmodel.dense_abs(a_).max()) if refmodel.dense_abs(a_).numel() else 0.0
            mb = float(refmodel.dense_abs(b_).max()) if refmodel.dense_abs(b_).numel() else 0.0
            return {"op": "Sum", "args": [
                {"op": "ConstantMul", "base": b_, "c": L.lit(ma, "f64")},
                {"op": "ConstantMul", "base": a_, "c": L.lit(mb, "f64")},
            ]}
        return node

    return fix(r)


# ----------------------------------------------------------------------------------------------------------------------
# the check
# ----------------------------------------------------------------------------------------------------------------------
def _zeros_if_none(g, like):
    return torch.zeros_like(like) if g is None else g


def _scales(b, hooks, G_hooks, g_ref, lossmag):
    """S per leaf: magnitude of the terms a gradient entry is a sum of -- the gradient of  sum((|G| + max|G|) * A_abs)  w.r.t.
    |leaf| in the monotone 'absolute value' model of the recipe (G: reference gradient w.r.t. the dense matrix) -- never
    below |g_ref| + max|g_ref| (the usual normwise relative criterion), plus the backward-error floor  L / max|leaf|  with
    L = sum(|W| * |out|): a relative perturbation eps of the leaf changes the loss by about eps * L, so a gradient error
    of rtol * L / |leaf| is what a relative rounding error rtol in the leaf itself produces (it also covers the
    reference's own rounding noise where the exact gradient is zero)."""
    S = []
    abs_leaves = []
    amap = {}
    by_leaf = {}
    for l, t in b.leaves:
        a = t.detach().abs().clone().requires_grad_(True)
        abs_leaves.append(a)
        amap[id(l)] = a
        by_leaf[id(t)] = a
    for l, leaf in b.aliases:
        if leaf is not None and id(leaf) in by_leaf:
            amap[id(l)] = by_leaf[id(leaf)]
    try:
        total = 0.0
        for (rec, _), G in zip(hooks, G_hooks):
            if G is None:
                continue
            with _toeplitz_normwise():
                Aabs = refmodel.dense(_abs_recipe(rec), amap)  # (no abs() here: its derivative vanishes at exact zeros)
            Gm = G.detach().abs()
            Gm = Gm + (Gm.max() if Gm.numel() else 0.0)
            total = total + (Gm * Aabs).sum()
        sg = torch.autograd.grad(total, abs_leaves, allow_unused=True) if torch.is_tensor(total) and total.requires_grad else [None] * len(abs_leaves)
    except Exception:
        sg = [None] * len(abs_leaves)
    for (l, t), s, g in zip(b.leaves, sg, g_ref):
        base = g.abs() + (g.abs().max() if g.numel() else 0.0)
        if s is not None and bool(torch.isfinite(s).all()):
            base = torch.maximum(base, s.abs())
        lm = float(t.detach().abs().max()) if t.numel() else 0.0
        S.append(base + lossmag / (lm if lm > 0 else 1.0) + 1e-300)
    return S


class _Run:
    """One library evaluation: forward under the settings cell, then (separately) backward under the same cell."""

    def __init__(self, case, memeff):
        self.case = case
        self.cell = _settings_cell(case, memeff)
        torch.manual_seed(state.case_seed(case))
        self.b = _build(case)
        self.lines = []
        self.lanczos = []  # one record per single-probe Lanczos run (see _LanczosWatch)

    def forward(self):
        with state.apply_settings(self.cell), state.linalg_log() as lines, _LanczosWatch() as watch:
            try:
                self.outs = lib_out(self.case["ep"], self.b)
            finally:
                self.lanczos += watch.runs
        self.lines += lines
        return self.outs

    def backward(self):
        inputs = [t for _, t in self.b.leaves]
        Ws = _cotangents(self.outs, self.case["w"])
        loss = sum((W * o).sum() for W, o in zip(Ws, self.outs))
        with state.apply_settings(self.cell), state.linalg_log() as lines, _LanczosWatch() as watch:
            try:
                if inputs and loss.requires_grad:
                    grads = list(torch.autograd.grad(loss, inputs, allow_unused=True))
                else:
                    grads = [None] * len(inputs)
            finally:
                self.lanczos += watch.runs
        self.lines += lines
        return grads

    def lanczos_deficient(self):
        return any(r["deficient"] for r in self.lanczos)

    def algos(self):
        return state.algorithms(self.lines)


def _forward_alone_ok(case, memeff, labels, head):
    """Does the same call succeed when nothing requires grad?"""
    try:
        torch.manual_seed(state.case_seed(case))
        b0 = _build(case, with_grad=False)
        with state.apply_settings(_settings_cell(case, memeff)), torch.no_grad():
            lib_out(case["ep"], b0)
        return True
    except Exception as e0:
        labels.append("fwd_exc:%s:%s" % (head, X.describe(e0)))
        return False


def check(case):
    case = json.loads(json.dumps(case))
    ep = case["ep"]
    r = case["recipe"]
    head = r["op"]
    recs = [r] + ([case["recipe2"]] if "recipe2" in case else [])
    lits = _all_literals(recs)
    depth = max(R.depth(x) for x in recs)
    shp = refmodel.shape(r)
    labels = ["ep:" + ep, "head:" + head, "depth:%d" % depth, "batch:%d" % (len(shp) - 2), "rg:" + case.get("rg_mode", "?"),
              "memeff:%s" % case["cell"]["memory_efficient"], "chol:%s" % ("0" if case["cell"].get("max_cholesky_size") == 0 else "default")]
    labels += ["class:" + c for c in sorted({n["op"] for x in recs for n in R.walk(x)})]
    if "rhs_kind" in case:
        labels.append("rhs:" + case["rhs_kind"])
    if "index_kind" in case:
        labels.append("index:" + case["index_kind"])
    n_rg = sum(1 for _, _, v in lits if _has_rg(v))
    any_exp = any("exp" in v for _, _, v in lits)
    if any_exp:
        labels.append("expanded_leaf:" + case.get("exp_leaf", "base"))
    if any(v.get("lay") == "nl" for _, _, v in lits):
        labels.append("nonleaf_param")
    nondense_rg = any(_has_rg(v) and node["op"] not in ("Dense", "Minimal") for node, _, v in lits)
    head_batch = tuple(shp[:-2])
    subbatch = any(
        NONBATCH.get((node["op"], k)) is not None and tuple(L.shape_of(v)[: len(L.shape_of(v)) - NONBATCH[(node["op"], k)]]) != head_batch and len(head_batch) > 0 and _has_rg(v)
        for node, k, v in lits
    )
    if subbatch:
        labels.append("subbatch_leaf")
    nontrivial = nondense_rg and (any_exp or subbatch or 0 < n_rg < len(lits) or depth >= 2)
    # aliased leaves: one tensor object in several slots
    tgroups = _tie_groups(recs) if ep != "bilinear" else {}
    lit_pos = {id(v): i for i, (_, _, v) in enumerate(lits)}
    alias_key = sorted(sorted(lit_pos[id(v)] for v in vs) for vs in tgroups.values())
    alias_rg = any(_has_rg(vs[0]) for vs in tgroups.values())
    if tgroups:
        labels.append("alias:tied")
        labels.append("alias:tied_rg" if alias_rg else "alias:tied_no_grad")
        labels.append("alias:slots:%d" % max(len(vs) for vs in tgroups.values()))
        names_of = {id(v): "%s.%s" % (node["op"], k) for node, k, v in lits}
        labels += sorted({"alias:kind:" + "+".join(sorted({names_of[id(v)] for v in vs})) for vs in tgroups.values()})
        labels += sorted({"alias:in:" + node["op"] for node in (n_ for x in recs for n_ in R.walk(x)) if sum(1 for ch in R.children(node) for _, _, v in _all_literals([ch]) if "tie" in v) >= 2 or sum(1 for _, v in _node_literals(node) if "tie" in v) >= 2})
    else:
        labels.append("alias:none")
    nontrivial = nontrivial or alias_rg
    info = {
        "nontrivial": False,
        "key": {"cp": [R.class_path(x) for x in recs], "ep": ep, "rg": [bool(_has_rg(v)) for _, _, v in lits], "exp": [("exp" in v) for _, _, v in lits], "alias": alias_key,
                "cell": case["cell"], "rhs": L.shape_of(case["rhs"]) if "rhs" in case else None, "lhs": L.shape_of(case["lhs"]) if "lhs" in case else None,
                "idx": case.get("index_kind"), "dim": case.get("dim"), "uv": case.get("uv")},
        "labels": labels,
        "sample": {"ep": ep, "recipe": [R.class_path(x) for x in recs], "shape": list(shp), "rg": "%d/%d" % (n_rg, len(lits)), "cell": case["cell"]},
    }

    def done(tag):
        labels.append(tag)
        labels.append("%s:%s" % (tag.split(":")[0], ep))
        return info

    def fail(sub, symptom, detail):
        raise Violation("C07|%s|%s|%s|%s" % (ep, sub, head, symptom), "%s :: ep=%s cell=%s recipe=%s" % (detail, ep, case["cell"], [R.class_path(x) for x in recs]))

    if ep == "bilinear":
        return _check_bilinear(case, info, done, fail, nontrivial)

    # ---- library forward under the case's memory_efficient value --------------------------------------------------------
    me = bool(case["cell"]["memory_efficient"])
    declined_kind = "matmul" if ep in ("matmul", "rmatmul") else ep
    try:
        run = _Run(case, me)
        b = run.b
        outs = run.forward()
    except Exception as e:
        # does the forward pass fail on its own (no requires_grad anywhere)?  then it is not C07's failure
        if not _forward_alone_ok(case, me, labels, head):
            return done("forward_failed")
        if X.is_declined(e, declined_kind):
            return done("declined")
        fail("grad", "exc:" + X.describe(e), "the forward pass raised %r only when tensors require grad" % (e,))

    # ---- reference ---------------------------------------------------------------------------------------------------------
    leafmap = _leafmap(b)
    try:
        A = refmodel.dense(r, leafmap)
        A2 = refmodel.dense(case["recipe2"], leafmap) if "recipe2" in case else None
        A_h = A if A.requires_grad else A.clone().requires_grad_(True)
        A2_h = None if A2 is None else (A2 if A2.requires_grad else A2.clone().requires_grad_(True))
        tref = {k: v.to(torch.float64) for k, v in b.t.items()}
        if ep == "op_mul":
            P = A_h * A2_h
            routs = ref_out("matmul", P, None, tref, case)
            hooks = [({"op": "Mul", "args": [r, case["recipe2"]]}, P)]
        else:
            routs = ref_out(ep, A_h, A2_h, tref, case)
            hooks = [(r, A_h)] + ([(case["recipe2"], A2_h)] if A2_h is not None else [])
    except Exception as e:
        raise HarnessError("reference model raised %r for %s" % (e, json.dumps(case)[:400]))
    if len(routs) != len(outs):
        raise HarnessError("entry point arity mismatch")
    for o, ro in zip(outs, routs):
        if tuple(o.shape) != tuple(ro.shape):
            labels.append("fwd_shape:%s" % head)
            return done("forward_mismatch")
    # ---- conditioning / path ---------------------------------------------------------------------------------------------
    kappa, lmin = 1.0, 1.0
    for x in recs:
        kappa = max(kappa, _internal_kappa(x))
    if ep == "op_mul":
        kappa = max(kappa, _kappa(A), _kappa(A2))
    if ep in SYM_EPS:
        k_, lmin = _spectrum(A)
        kappa = max(kappa, k_)
    if not math.isfinite(kappa) or kappa > KAPPA_MAX:
        return done("illconditioned")
    if ep.startswith("sqrt_inv_matmul") and not _ciq_domain_ok(A, tref["rhs"]):
        return done("ciq_spectrum_not_covered")
    if run.lanczos_deficient():
        return done("lanczos_krylov_deficient")
    # the tolerance follows the algorithm that actually RAN (the library's verbose_linalg log), not the settings cell: the
    # structured classes answer max_cholesky_size=0 with their closed forms (eigendecompositions of the factors)
    path = "direct"
    algos = run.algos()
    if ep.startswith("sqrt_inv_matmul"):
        path = "ciq"
    elif "cg" in algos:
        path = "cg"
    elif "lanczos" in algos:
        path = "lanczos"
    rt = _rtol(path, kappa, lmin) + _diag_jitter_term(run.lanczos)
    # ---- forward gate ------------------------------------------------------------------------------------------------------
    for o, ro in zip(outs, routs):
        if not bool(torch.isfinite(ro).all()):
            return done("reference_nonfinite")
        scale = float(ro.abs().max()) if ro.numel() else 0.0
        err = float((o.detach() - ro.detach()).abs().max()) if ro.numel() else 0.0
        if not (err <= rt * (scale + 1e-300) * 16.0):
            labels.append("fwd_value:%s" % head)
            return done("forward_mismatch")
    # ---- library backward --------------------------------------------------------------------------------------------------
    try:
        g_lib = run.backward()
    except Exception as e:
        if X.is_declined(e, declined_kind):
            return done("declined")
        fail("grad", "exc:" + X.describe(e), "the backward pass raised %r" % (e,))
    if run.lanczos_deficient():
        return done("lanczos_krylov_deficient")
    algos = run.algos()
    if path in ("direct", "lanczos") and "cg" in algos:
        path = "cg"
    elif path == "direct" and "lanczos" in algos:
        path = "lanczos"
    rt = _rtol(path, kappa, lmin) + _diag_jitter_term(run.lanczos)
    labels.append("path:" + path)
    if any(r["caller"] == "diagonalization" for r in run.lanczos):
        labels.append("lanczos_diagonalization")
    labels += ["algo:" + a for a in algos]
    # ---- reference gradients -------------------------------------------------------------------------------------------------
    Ws = _cotangents(routs, case["w"])
    loss_ref = sum((W * o).sum() for W, o in zip(Ws, routs))
    inputs = [t for _, t in b.leaves]
    extra = [h for _, h in hooks]
    if loss_ref.requires_grad:
        allg = torch.autograd.grad(loss_ref, inputs + extra, allow_unused=True, retain_graph=True)
    else:
        allg = [None] * (len(inputs) + len(extra))
    g_ref = [_zeros_if_none(g, t) for g, t in zip(allg[: len(inputs)], inputs)]
    G_hooks = list(allg[len(inputs):])
    for g in g_ref:
        if not bool(torch.isfinite(g).all()):
            return done("reference_nonfinite")
    lossmag = float(sum((W.abs() * o.detach().abs()).sum() for W, o in zip(Ws, routs)))
    S = _scales(b, hooks, G_hooks, g_ref, lossmag)
    # sign-free cotangent: contributions that cancel exactly because of the SIGNS of W (e.g. identical batch members of a
    # repeated / expanded parameter weighted +w and -w) are sums of terms of this magnitude
    if loss_ref.requires_grad and inputs:
        g_abs = torch.autograd.grad(sum((W.abs() * o).sum() for W, o in zip(Ws, routs)), inputs, allow_unused=True)
        S = [s_ + (ga.abs() + ga.abs().max() if ga is not None and ga.numel() and bool(torch.isfinite(ga).all()) else 0.0) for s_, ga in zip(S, g_abs)]
    symlits, ties = _sym_structure(case)
    trimask = _tri_masks(recs)
    pos = {id(l): i for i, (l, _) in enumerate(b.leaves)}
    leaf_pos = {id(t): i for i, (_, t) in enumerate(b.leaves)}
    members = {i: [l] for i, (l, _) in enumerate(b.leaves)}  # leaf index -> every literal materialised as that leaf
    for l, leaf in b.aliases:
        if leaf is not None and id(leaf) in leaf_pos:
            pos[id(l)] = leaf_pos[id(leaf)]
            members[leaf_pos[id(leaf)]].append(l)
    groups, skip = [], set()
    for a_, b_ in ties:
        if a_ in pos and b_ in pos and pos[a_] == pos[b_]:
            # both members of the symmetric pair ARE one tensor (k(X, X)): its gradient is the total derivative, a symmetric perturbation
            labels.append("tie_shared_leaf")
        elif a_ in pos and b_ in pos:
            groups.append((pos[a_], pos[b_]))
            skip.update((pos[a_], pos[b_]))
        elif a_ in pos or b_ in pos:
            # only one member of a symmetric pair requires grad: its own perturbation leaves the function's domain
            skip.add(pos.get(a_, pos.get(b_)))
            labels.append("tie_partial")
    if groups:
        labels.append("tie_summed")

    def compare(glist, reflist, sub, factor, what):
        worst = (0.0, None)
        gl = []
        for (l, t), g in zip(b.leaves, glist):
            g = _zeros_if_none(g, t)
            if tuple(g.shape) != tuple(t.shape):
                fail(sub, "shape", "%s: gradient of shape %s for a leaf of shape %s" % (what, tuple(g.shape), tuple(t.shape)))
            if not bool(torch.isfinite(g).all()):
                fail(sub, "nan", "%s: non-finite gradient for leaf %s" % (what, _leaf_name(case, l)))
            gl.append(g.detach())
        items = [((i,), gl[i] - reflist[i], S[i]) for i in range(len(gl)) if i not in skip]
        items += [((i, j), (gl[i] - reflist[i]) + (gl[j] - reflist[j]), S[i] + S[j]) for i, j in groups if gl[i].shape == gl[j].shape]
        for idx, d, s in items:
            l = b.leaves[idx[0]][0]
            # (a shared leaf inherits the restrictions of EVERY slot it occupies: the unobservable parts add up in its total gradient)
            ups = {trimask[id(m)] for m in members[idx[0]] if id(m) in trimask}
            if ups and d.dim() >= 2:
                for up in ups:
                    d = d.triu() if up else d.tril()
            if any(id(m) in symlits for m in members[idx[0]]) and d.dim() >= 2 and d.shape[-1] == d.shape[-2]:
                d = 0.5 * (d + d.mT)
                s = 0.5 * (s + s.mT)
            if not d.numel():
                continue
            q = d.abs() / (factor * s)
            ratio = float(q.max())
            if ratio > worst[0]:
                i = int(torch.argmax(q.reshape(-1)))
                k = idx[0]
                worst = (ratio, "leaf %s%s flat %d: lib=%.12g ref=%.12g (scale %.3g)" % (_leaf_name(case, l), " (+ tied partner)" if len(idx) > 1 else "", i, gl[k].reshape(-1)[i].item(), reflist[k].reshape(-1)[i].item(), s.reshape(-1)[i].item()))
        return worst

    ratio, where = compare(g_lib, g_ref, "grad", rt, "grad")
    if ratio > 1.0:
        fail("grad", "value", "max |g_lib-g_ref|/bound = %.3g (rtol %.2g, kappa %.3g, path %s) at %s" % (ratio, rt, kappa, path, where))
    labels.append("ratio:%s" % ("<1e-3" if ratio < 1e-3 else ("<0.1" if ratio < 0.1 else "<1")))
    # ---- memory_efficient on / off -------------------------------------------------------------------------------------------
    try:
        run2 = _Run(case, not me)
        outs2 = run2.forward()
        g_lib2 = run2.backward()
    except Exception as e:
        fail("memeff", "exc:" + X.describe(e), "with memory_efficient=%s the same call raised %r" % (not me, e))
    if run2.lanczos_deficient():
        return done("lanczos_krylov_deficient")
    g_first = [_zeros_if_none(g, t).detach() for g, (_, t) in zip(g_lib, b.leaves)]
    ratio2, where2 = compare(g_lib2, g_first, "memeff", C_MEMEFF * U64, "memory_efficient=%s vs %s" % (not me, me))
    if ratio2 > 1.0:
        fail("memeff", "value", "gradients differ between memory_efficient settings: ratio %.3g at %s" % (ratio2, where2))
    for o, o2 in zip(outs, outs2):
        if o.numel() and not bool(((o.detach() - o2.detach()).abs() <= C_MEMEFF * U64 * (o.detach().abs() + o.detach().abs().max())).all()):
            fail("memeff", "fwd_value", "forward values differ between memory_efficient settings")
    info["nontrivial"] = bool(nontrivial and n_rg > 0)
    if tgroups:
        labels.append("alias:compared_rg" if alias_rg else "alias:compared_no_grad")
    if n_rg == 0:
        labels.append("only_rhs_grad")
    return done("compared")


def _leaf_name(case, l):
    recs = [case["recipe"]] + ([case["recipe2"]] if "recipe2" in case else [])
    for node, k, v in _all_literals(recs):
        if v is l:
            return "%s.%s%s" % (node["op"], k, "(exp)" if "exp" in v else "")
    for k in ("rhs", "lhs", "diag"):
        if case.get(k) is l:
            return k
    return "?"


# ----------------------------------------------------------------------------------------------------------------------
# oracle 2: _bilinear_derivative
# ----------------------------------------------------------------------------------------------------------------------
def _rep_owners(op):
    """(class name, argument index) of the operator that owns each position of op.representation()."""
    import itertools

    out = []
    for i, arg in enumerate(itertools.chain(op._args, op._differentiable_kwargs.values())):
        if torch.is_tensor(arg):
            out.append((type(op).__name__, i))
        elif hasattr(arg, "representation"):
            out += _rep_owners(arg)
    return out


def _check_bilinear(case, info, done, fail, nontrivial):
    labels = info["labels"]
    labels.append("uv:" + case["uv"])
    try:
        b = _build(case, tie=False)  # (per-slot oracle: every position of representation() is its own argument)
        op = b.op
        rep = op.representation()
        tree = op.representation_tree()
    except Exception as e:
        labels.append("fwd_exc:%s:%s" % (case["recipe"]["op"], X.describe(e)))
        return done("forward_failed")
    U, V = b.t["U"], b.t["V"]
    # reference.  A position of representation() that IS a tensor handed to a constructor (matched by identity) is
    # differentiated in the independent dense model of the recipe (needed where the class's own multiplication is not
    # differentiable by autograd, e.g. the sparse interpolation matrices); every other position (tensors the constructors
    # derived, e.g. batch-expanded Kronecker factors) by autograd through the operator's own _matmul on a detached rebuild.
    try:
        handed = {id(t): l for l, t in b.tensors}
        args, lmap, matched = [], {}, []
        for a in rep:
            if a.dtype.is_floating_point:
                c_ = a.detach().clone().requires_grad_(True)
                args.append(c_)
                if id(a) in handed:
                    lmap[id(handed[id(a)])] = c_
                    matched.append(True)
                else:
                    matched.append(False)
            else:
                args.append(a.detach())
                matched.append(False)
        fl = [a for a in args if a.requires_grad]
        with torch.enable_grad():
            A = refmodel.dense(case["recipe"], lmap)
            loss_d = (U * torch.matmul(A, V)).sum()
            gd = list(torch.autograd.grad(loss_d, fl, allow_unused=True)) if fl and loss_d.requires_grad else [None] * len(fl)
            if not all(m for a, m in zip(args, matched) if a.requires_grad):
                op2 = tree(*args)
                loss = (U * op2._matmul(V)).sum()
                ga = list(torch.autograd.grad(loss, fl, allow_unused=True)) if fl and loss.requires_grad else [None] * len(fl)
                labels.append("bilinear_ref:own_matmul")
            else:
                ga = [None] * len(fl)
    except Exception as e:
        labels.append("fwd_exc:%s:%s" % (case["recipe"]["op"], X.describe(e)))
        return done("forward_failed")
    ref = []
    it = iter(zip(gd, ga))
    owners = _rep_owners(op)
    unverifiable = set()
    for i, (a, m) in enumerate(zip(args, matched)):
        if a.requires_grad:
            d_, a_ = next(it)
            ref.append(d_ if m else a_)
            if not m and len(owners) == len(args) and owners[i][0] == "InterpolatedLinearOperator" and owners[i][1] in (2, 4):
                # a tensor the constructors derived (e.g. batch-expanded) AND not differentiable through the class's own
                # multiplication (sparse interpolation matrix): no reference for this position
                unverifiable.add(i)
                labels.append("bilinear_pos_without_reference")
        else:
            ref.append(None)
    try:
        # (called the way the library's Functions call it: from a backward pass, i.e. with grad mode disabled)
        with state.apply_settings({"memory_efficient": bool(case["cell"]["memory_efficient"])}), torch.no_grad():
            got = op._bilinear_derivative(U, V)
    except Exception as e:
        if X.is_declined(e, None):
            return done("declined")
        fail("bilinear", "exc:" + X.describe(e), "_bilinear_derivative raised %r" % (e,))
    if not isinstance(got, (tuple, list)):
        fail("bilinear", "type", "_bilinear_derivative returned %s" % type(got).__name__)
    if len(got) != len(rep):
        fail("bilinear", "length", "_bilinear_derivative returned %d entries for a representation of %d tensors" % (len(got), len(rep)))
    worst = 0.0
    for i, (a, g, gref) in enumerate(zip(rep, got, ref)):
        if not (a.dtype.is_floating_point and a.requires_grad) or i in unverifiable:
            continue
        gref = torch.zeros_like(a) if gref is None else gref
        if g is None:
            g = torch.zeros_like(a)
        if not torch.is_tensor(g):
            fail("bilinear", "type", "position %d holds a %s" % (i, type(g).__name__))
        if tuple(g.shape) != tuple(a.shape):
            try:
                g = g.sum_to_size(a.shape)
                labels.append("bilinear_reduced")
            except RuntimeError:
                fail("bilinear", "shape", "position %d: shape %s is not reducible to the argument's shape %s" % (i, tuple(g.shape), tuple(a.shape)))
        s = gref.abs() + (gref.abs().max() if gref.numel() else 0.0)
        s = s + float(U.abs().max()) * float(V.abs().max()) * 1e-3 + 1e-300
        bound = C_DIRECT * U64 * _internal_kappa(case["recipe"]) * s
        if g.numel():
            ratio = float(((g.detach() - gref.detach()).abs() / bound).max())
            if not (ratio <= 1.0):
                j = int(torch.argmax(((g.detach() - gref.detach()).abs() / bound).reshape(-1)))
                fail("bilinear", "value", "position %d of %d (shape %s): lib=%.12g autograd=%.12g at flat %d (ratio %.3g)" % (i, len(rep), tuple(a.shape), g.reshape(-1)[j].item(), gref.reshape(-1)[j].item(), j, ratio))
            worst = max(worst, ratio)
    info["nontrivial"] = bool(nontrivial and any(a.dtype.is_floating_point and a.requires_grad for a in rep))
    return done("compared")


# ----------------------------------------------------------------------------------------------------------------------
# triggers of known findings (predicates over the generated case)
# ----------------------------------------------------------------------------------------------------------------------
def _has(name):
    def f(case):
        recs = [case["recipe"]] + ([case["recipe2"]] if "recipe2" in case else [])
        return any(n["op"] == name for x in recs for n in R.walk(x))

    return f


def _identity_arity(case):
    recs = [case["recipe"]] + ([case["recipe2"]] if "recipe2" in case else [])
    for x in recs:
        for i, n in enumerate(R.walk(x)):
            if n["op"] == "Identity" and (i > 0 or case["ep"] == "bilinear" or len(recs) > 1):
                return True
    return False


def _lin_ops(op, seen=None):
    from linear_operator.operators import LinearOperator

    seen = [] if seen is None else seen
    seen.append(op)
    for a in list(op._args) + list(op._kwargs.values()):
        if isinstance(a, LinearOperator):
            _lin_ops(a, seen)
    return seen


def _mul_rebuild_reorders(case):
    """A MulLinearOperator whose stored (root-decomposed) operands satisfy left.root cols < right.root cols: its constructor
    swaps them again when the operator is rebuilt from its representation."""
    from linear_operator.operators import MulLinearOperator

    try:
        b = _build(case, with_grad=False)
        ops = _lin_ops(b.op)
        if b.op2 is not None:
            ops += _lin_ops(b.op2)
            if case["ep"] == "op_mul":
                ops += _lin_ops(b.op * b.op2)
        for o in ops:
            if isinstance(o, MulLinearOperator) and o.left_linear_op._root_decomposition_size() < o.right_linear_op._root_decomposition_size():
                return True
    except Exception:
        return False
    return False


def _interp_permuted(case):
    """An Interpolated node below a block / batch-sum node whose block_dim is not the last batch dimension: the base is
    permuted (_permute_batch) and its interpolation tensors become non-contiguous views."""
    recs = [case["recipe"]] + ([case["recipe2"]] if "recipe2" in case else [])

    def visit(node, permuted):
        if node["op"] == "Interpolated" and permuted:
            return True
        if node["op"] in ("BlockDiag", "BlockInterleaved", "SumBatch") and "block_dim" in node:
            nd = len(refmodel.shape(node["base"]))
            bd = node["block_dim"]
            if (bd if bd < 0 else bd - nd) != -3:
                permuted = True
        return any(visit(ch, permuted) for ch in R.children(node))

    return any(visit(x, False) for x in recs)


def _interp_rect_base(case):
    if case["ep"] == "getitem" and case.get("index_kind") in ("tensor", "int_row"):
        return True  # tensor-indexing builds an InterpolatedLinearOperator over the (possibly rectangular) indexed operator
    recs = [case["recipe"]] + ([case["recipe2"]] if "recipe2" in case else [])
    for x in recs:
        for n in R.walk(x):
            if n["op"] == "Interpolated":
                shp = refmodel.shape(n["base"])
                if shp[-1] != shp[-2]:
                    return True
    return False


AUTOGRAD_DERIVATIVE = {"Cat", "Chol", "Kronecker", "KroneckerTri", "KroneckerDiag", "LowRankRoot", "Root", "Tri"}


def _batched_interp_under_autograd(recs, only_rg=True):
    """Interpolated nodes whose interpolation values require grad, lying below a class whose _bilinear_derivative is the default
    (autograd through its own _matmul).  (Only an unbatched Interpolated without zero values that no ancestor batch-expands
    keeps its gradient there.)"""
    found = []

    def visit(node, below):
        op = node["op"]
        if op == "Interpolated" and below:
            if not only_rg or node["lv"].get("rg") or node["rv"].get("rg"):
                found.append(node)
        nxt = below or op in AUTOGRAD_DERIVATIVE
        if op == "BatchRepeat":
            shp = refmodel.shape(node)
            nxt = nxt or shp[-1] != shp[-2]
        for ch in R.children(node):
            visit(ch, nxt)

    for x in recs:
        visit(x, False)
    return found


SYMEIG_FAMILY = ("Kronecker", "KroneckerAddedDiag", "SumKronecker")
SYMEIG_PASSES_DOWN = SYMEIG_FAMILY + ("AddedDiag", "ConstantMul", "BatchRepeat")


def _singular_kron_factors(recs):
    """(parent node, slot, node): symmetric PSD sub-matrices with an eigenvalue that is zero to rounding, lying below a
    Kronecker-family node and reached through nodes that hand _symeig down to their children (Kronecker factors, the base of
    an AddedDiag with a constant diagonal, ...): `evals.clamp_min(0.0)` in LinearOperator._symeig has derivative 0 there."""
    found = []

    def slots(node):
        out = [(("args", i), a) for i, a in enumerate(node.get("args", []))]
        if "base" in node:
            out.append((("base", None), node["base"]))
        return out

    def visit(node, below):
        inside = below or node["op"] in SYMEIG_FAMILY
        for slot, ch in slots(node):
            if inside and node["op"] in SYMEIG_PASSES_DOWN:
                M = refmodel.dense(ch)
                if M.shape[-1] == M.shape[-2] and bool(torch.allclose(M, M.mT)):
                    w = torch.linalg.eigvalsh(0.5 * (M + M.mT))
                    top = w.abs().max(dim=-1)[0]
                    if bool(((w.min(dim=-1)[0] <= 1e-9 * top) & (w.min(dim=-1)[0] >= -1e-9 * top)).any()) and ch["op"] not in SYMEIG_FAMILY:
                        found.append((node, slot, ch))
                        continue
                visit(ch, True)
            else:
                visit(ch, inside and node["op"] in SYMEIG_PASSES_DOWN)

    for x in recs:
        visit(x, False)
    return found


def _symeig_rounds_negative(f):
    """May LinearOperator._symeig see a NEGATIVE eigenvalue for this singular PSD sub-matrix?  It calls torch.linalg.eigh on a
    dense matrix -- the sub-matrix itself or, in the non-constant-diagonal forms of KroneckerProductAddedDiag, D^-1/2 K D^-1/2 --
    and replaces negative eigenvalues by a constant (`torch.where(evals < 0, 0, evals)`, gradient lost).  A zero eigenvalue comes
    back as exactly 0.0 only for (batch members that are) diagonal matrices -- zero matrices, diagonal factors: their
    tridiagonalisation is the identity, diagonal scalings keep the zeros exact; gradient kept since /repo 5c6550c.  For every
    other singular matrix (a rank-deficient Gram matrix v v^T) the zero eigenvalue is +-1e-17 of rounding noise whose sign depends
    on the matrix eigh finally sees: all of these count."""
    M = refmodel.dense(f)
    w = torch.linalg.eigvalsh(0.5 * (M + M.mT))
    top = w.abs().max(dim=-1)[0]
    singular = w.min(dim=-1)[0].abs() <= 1e-9 * top
    offdiag = (M - torch.diag_embed(M.diagonal(dim1=-2, dim2=-1))).abs().flatten(-2).max(dim=-1)[0] > 0
    return bool((singular & offdiag).any())


def _neg_rounded_kron_factors(recs):
    return [(p, s, f) for p, s, f in _singular_kron_factors(recs) if _symeig_rounds_negative(f)]


def _has_kron_added_diag(r):
    return any(n["op"] in ("KroneckerAddedDiag", "SumKronecker") for n in R.walk(r))


def _symeig_root_repeated(case):
    """An operand that is root-decomposed through symeig (Cholesky is unavailable with a KeOps component) and has a repeated
    eigenvalue: torch.linalg.eigh's eigenvector gradient is infinite there."""
    recs = [case["recipe"]] + ([case["recipe2"]] if "recipe2" in case else [])
    cands = []
    if case["ep"] == "op_mul":
        cands += recs
    if case["ep"] == "root_decomposition":
        cands.append(case["recipe"])
    for x in recs:
        for n in R.walk(x):
            if n["op"] == "Mul":
                cands += n["args"]
    def repeated(c):
        M = refmodel.dense(c)
        if M.shape[-1] == M.shape[-2] and M.shape[-1] > 1:
            w = torch.linalg.eigvalsh(0.5 * (M + M.mT))
            return bool(((w[..., 1:] - w[..., :-1]) <= 1e-9 * w.abs().max(dim=-1, keepdim=True)[0].clamp_min(1e-300)).any())
        return False

    for c in cands:
        if any(n["op"] == "KeOps" for n in R.walk(c)) and repeated(c):
            return True
    # the same differentiation through eigenVECTORS: the eigen-structured roots of KroneckerAddedDiag / SumKronecker
    # (root_decomposition builds Q diag(.) from the symeig of every Kronecker factor) for a factor with a repeated eigenvalue
    if case["ep"] == "root_decomposition":
        for x in recs:
            for n in R.walk(x):
                if n["op"] in ("KroneckerAddedDiag", "SumKronecker"):
                    for k in R.walk(n):
                        if k["op"] == "Kronecker" and any(repeated(f) for f in k["args"]):
                            return True
    return False


MATMUL_EPS = ("matmul", "op_add", "op_mul")  # entry points that multiply through functions/_matmul.py with the CALLER's right-hand side


def _rhs_fold_scrambles(op_batch, rshape):
    """Matmul.backward folds the broadcast rhs gradient with  rhs_grad.reshape(-1, *rhs.shape).sum(0)  whenever it has more
    dimensions than the rhs: that is the sum over the broadcast dimensions only if every batch dim of the rhs that was
    broadcast (size 1 against > 1) lies in FRONT of all its larger dims -- not for (b1, 1) against (b0, b1, b2)."""
    if len(rshape) < 2:
        return False
    rb = tuple(rshape[:-2])
    try:
        full = tuple(torch.broadcast_shapes(tuple(op_batch), rb))
    except RuntimeError:
        return False
    if len(full) <= len(rb):
        return False
    big = False
    for r_, f_ in zip(rb, full[len(full) - len(rb):]):
        if r_ == 1 and f_ > 1 and big:
            return True
        big = big or r_ > 1
    return False


def _matmul_rhs_fold(case):
    if case["ep"] not in MATMUL_EPS or "rhs" not in case or not case["rhs"].get("rg"):
        return False
    return _rhs_fold_scrambles(refmodel.shape(case["recipe"])[:-2], L.shape_of(case["rhs"]))


def _matmul_vector_batched(case):
    return case["ep"] in MATMUL_EPS and "rhs" in case and len(L.shape_of(case["rhs"])) == 1 and len(refmodel.shape(case["recipe"])) > 2


BLOCK_NODES = ("BlockDiag", "BlockInterleaved", "SumBatch")


def _toeplitz_wider_nodes(case, only_rg=True):
    """Toeplitz nodes whose column has a size-1 batch dim BEHIND a larger one while the vectors of the derivative can carry more
    batch dimensions than the column (some node of the tree, or an operand, has a batch of higher rank; a block / batch-sum
    ancestor adds the block dimension to the vectors and may permute the column's batch dims, so below one ANY size-1 dim next to
    a larger one counts):  ToeplitzLinearOperator._bilinear_derivative folds with  res.view(-1, *column.shape).sum(0)  -- the
    same pattern as Matmul.backward."""
    recs = [case["recipe"]] + ([case["recipe2"]] if "recipe2" in case else [])
    rank = 0
    for x in recs:
        for n in R.walk(x):
            try:
                rank = max(rank, len(refmodel.shape(n)) - 2)
            except Exception:
                pass
    for k in ("rhs", "lhs", "U", "V"):
        if k in case:
            rank = max(rank, len(L.shape_of(case[k])) - 2)
    found = []

    def visit(n, nblock):
        if n["op"] == "Toeplitz" and (n["c"].get("rg") or not only_rg):
            cb = tuple(L.shape_of(n["c"])[:-1])
            big, inner1 = False, False
            for d_ in cb:
                inner1 = inner1 or (d_ == 1 and big)
                big = big or d_ > 1
            if nblock:
                inner1 = big and any(d_ == 1 for d_ in cb)
            if inner1 and rank + nblock > len(cb):
                found.append(n)
        for ch in R.children(n):
            visit(ch, nblock + (1 if n["op"] in BLOCK_NODES else 0))

    for x in recs:
        visit(x, 0)
    return found


TRIGGERS = {
    "matmul_rhs_fewer_dims_inner_singleton": _matmul_rhs_fold,
    "matmul_vector_rhs_batched_operator": _matmul_vector_batched,
    "toeplitz_derivative_wider_vectors": lambda case: bool(_toeplitz_wider_nodes(case)),
    "symeig_root_repeated_eigenvalues": _symeig_root_repeated,
    "lanczos_diagonalization": lambda case: case["cell"].get("max_cholesky_size") == 0 and _has_kron_added_diag(case["recipe"]),
    "singular_kronecker_factor_symeig": lambda case: bool(_singular_kron_factors([case["recipe"]] + ([case["recipe2"]] if "recipe2" in case else []))),
    "symeig_negative_rounded_eigenvalue": lambda case: bool(_neg_rounded_kron_factors([case["recipe"]] + ([case["recipe2"]] if "recipe2" in case else []))),
    "batched_interp_values_under_autograd_derivative": lambda case: bool(
        _batched_interp_under_autograd([case["recipe"]] + ([case["recipe2"]] if "recipe2" in case else []))
    ),
    "has_Mul": lambda case: case["ep"] == "op_mul" or _has("Mul")(case),
    "identity_derivative_arity": _identity_arity,
    "mul_rebuild_reorders": _mul_rebuild_reorders,
    "interpolated_rect_base": _interp_rect_base,
    "interpolated_permuted_batch": _interp_permuted,
}


def coverage_extra():
    return {
        "tolerances": {
            "direct": "|g_lib - g_ref| <= C_DIRECT(1e4) * u64(1.1e-16) * kappa * S, kappa <= 1e6 (else not compared)",
            "S": "entrywise: d/d|leaf| of sum((|G|+max|G|) * A_abs(|leaves|)) in the monotone absolute-value model (elementwise "
                 "products modelled normwise), never below |g_ref| + max|g_ref|, plus L/max|leaf| with L = sum(|W||out|)",
            "cg": "+ C_CG(16) * kappa * max(sqrt(1e-10 / lambda_min), 1e-10)  (linear_cg's eps = 1e-10 progress floor, DESIGN C08)",
            "lanczos": "+ 16 * tridiagonal_jitter(1e-6) + C_DIRECT * u64 * kappa^2; if functions/_diagonalization.py ran: + 2 n * 1e-10 * "
                       "s_max / gap^2 (its backward uses 1 / (s_i - s_j + 1e-10)); path = the algorithm the verbose_linalg log reports",
            "ciq": "+ 1e-7 * kappa (minres_tolerance 1e-10, Q = 15 quadrature nodes: error <= 2e-8 for kappa <= 1e6)",
            "forward_gate": "max|out_lib - out_ref| <= 16 * rtol * max|out_ref|, else forward_mismatch (not reported)",
            "memeff": "C_MEMEFF(64) * u64 * S",
            "bilinear": "C_DIRECT * u64 * kappa_internal * (|g| + max|g| + 1e-3 max|U| max|V|)",
        },
        "mutants": MUTANTS,
    }


def gaps(labels):
    out = []
    for ep in sorted(set(EPS_ANY + EPS_PD)):
        if not labels.get("compared:" + ep):
            out.append("entry point never compared: " + ep)
    if not labels.get("alias:compared_rg"):
        out.append("no case with an aliased (shared) leaf that requires grad was compared")
    heads = {k.split(":", 1)[1] for k in labels if k.startswith("class:")}
    allc = {n if n not in ("TriT", "TriBase") else "Tri" for n in gen.PREDS} - {"Zero", "Permutation", "TransposePermutation"}
    out += sorted("class never generated: " + c for c in allc - heads)
    return out
