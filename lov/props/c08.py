"""C08 -- linear conjugate gradients (DESIGN section 4, C08).

Code under test: linear_operator.utils.linear_cg.linear_cg called directly with a dense matmul closure.

A case is a small JSON dict: an SPD *spec* (lov.spd: spectrum family, kappa, Householder vectors), right-hand-side grid values
plus per-column kinds, an optional initial guess, a preconditioner description, the linear_cg arguments / settings and a
*family* of sub-checks to run (a full budget sweep costs J runs, so a case runs one family only):

  sweep    budgets max_iter = 1..J (tolerance 0)       -> monotone (i), chebyshev (ii), frozen (vi), zero (iv)
  conv     the real stopping rule, one run (+ one run per extra preconditioner)
                                                        -> residual (iii), chebyshev at the performed count, precond (vii), zero
  scale    cg(B) against cg(alpha B)                    -> scaling (v)
  tridiag  budgets 1..m and one run with n_tridiag > 0  -> tridiag (viii): structure, Ritz values, quadrature identities
  error    NaN in A / rhs, max_tridiag_iter > max_iter  -> raises (ix)

Everything the oracle needs (lambda_min/max of A, of the preconditioner P and of M = P^-1/2 A P^-1/2) is measured in float64
on the matrices *actually handed to the routine* (after the cast to the case dtype), so float32 rounding of the inputs is
part of the reference problem and not of the tolerance.
"""
import math
import warnings

import torch
from hypothesis import strategies as st

from lov import exc as X
from lov import spd, state
from lov.core import HarnessError, Violation

ID = "C08"
BUDGET = {"quick": 150, "thorough": 600}
SHARDS = 16
SHRINK_BUDGET = {"quick": 60, "thorough": 300}

# ---------------------------------------------------------------------------------------------------------------
# tolerance constants (all derived in the docstrings of the bound helpers below; recorded in evidence)
# ---------------------------------------------------------------------------------------------------------------
U = {"f32": 2.0**-24, "f64": 2.0**-53}
DT = {"f32": torch.float32, "f64": torch.float64}
C_FP = 64.0  # constant of every first-order rounding term  C_FP * (n + j) * u * (magnitude)
C_FLOOR = 2.0  # safety factor on the code's own residual thresholds (rounding of the tested inner products / norms)
C_KAPPA = 8.0  # kappa' = kappa (1 + C_KAPPA n u kappa kappa(P)): spectrum of the operator the rounded recurrences see
DOMAIN_MAX = 0.25  # sub-checks that need kappa' are run only while C_KAPPA n u kappa(M) kappa(P) <= DOMAIN_MAX
EPS_DEFAULT = 1e-10
SUA_DEFAULT = 1e-10

RULE = (
    "case = SPD system Q diag(w) Q^T (families uniform/two_clusters/geometric/one_outlier/repeated, kappa in "
    "{1,10,1e2,1e4,1e6}; f32 only kappa<=1e4), n 1..32 quick / 1..64 thorough, batch shapes (rhs batch equal / broadcast), "
    "1..4 columns with kinds normal/zero/tiny(<eps)/small/huge(2^27), optional initial guess, preconditioner in "
    "{none, jacobi, scalar, exact inverse, random low-rank+diag, spectral low-rank+diag}, linear_cg arguments "
    "(tolerance, max_iter, max_tridiag_iter, n_tridiag, eps, stop_updating_after), settings (terminate_cg_by_size, "
    "cg_tolerance, max_cg_iterations), dtype; and ONE family of sub-checks: sweep | conv | scale | tridiag | error. "
    "Non-trivial: (kappa>=10 and n>=4) or a zero/tiny/huge column or a preconditioner or n_tridiag>0 or an error input. "
    "Distinct by hash of the whole case."
)
ASSUMPTIONS = [
    "float32 systems are generated with kappa <= 1e4 only: n*u*kappa must stay below 1/16 for the float32 matrix to be "
    "certainly SPD (the property's precondition); kappa=1e6 is float64 only",
    "chebyshev / monotone / Ritz sub-checks run only while 8*n*u*kappa(M)*kappa(P) <= 0.25 (otherwise labelled "
    "'domain:skipped'); the kappa-based bound is the one known to survive rounding (Greenbaum 1989), sharper "
    "spectrum-dependent bounds (finite termination) are NOT asserted",
    "an initial guess is generated only together with columns of norm >= eps: the routine's zero-rhs rule is stated for the "
    "default zero initial guess (with a guess such a column is frozen after one step - reported, not asserted)",
    "columns with ||b|| < eps are what the routine declares zero: in (iii) their relative residual counts as 0 and their "
    "error bound is ||x*||_A itself (the floor term ||b||/sqrt(lambda_min))",
    "general (non power-of-two) scale factors are compared only through the two error bounds (rounded CG trajectories of "
    "perturbed right-hand sides separate); power-of-two factors are compared to 8u",
    "Ritz values and quadrature identities are asserted on the leading block of T whose rows are certified un-frozen "
    "(true residual above the code's eps / stop_updating_after thresholds); rows written after a column froze are only "
    "required to keep T symmetric, tridiagonal and finite",
    "rhs and initial guess have the same number of dimensions (1-D with 1-D)",
]

FAMS = ["sweep", "sweep", "sweep", "conv", "conv", "conv", "scale", "tridiag", "tridiag", "tridiag", "error"]
PRECONDS = ["none", "none", "none", "jacobi", "scalar", "exact", "lrd_rand", "lrd_spec"]
COLKINDS = ["normal", "normal", "normal", "normal", "zero", "tiny", "small", "huge"]


def _open_triggers():
    from lov.findings import load

    return {e.get("trigger") for e in load() if e.get("property") == ID and e.get("status", "open") == "open" and e.get("trigger")}


def _nest(flat, shape):
    if len(shape) == 1:
        return list(flat[: shape[0]])
    step = 1
    for s in shape[1:]:
        step *= s
    return [_nest(flat[i * step : (i + 1) * step], shape[1:]) for i in range(shape[0])]


def _ints(draw, shape, lo, hi):
    n = 1
    for s in shape:
        n *= s
    return _nest(draw(st.lists(st.integers(lo, hi), min_size=n, max_size=n)), list(shape))


@st.composite
def cases(draw, tier):
    fam = draw(st.sampled_from(FAMS))
    dt = draw(st.sampled_from(["f64", "f64", "f32"]))
    big = draw(st.integers(0, 9)) == 0
    nmax = (32 if tier == "quick" else 64) if big else 12
    kappas = [k for k in spd.KAPPAS if dt == "f64" or k <= 1e4]
    spec = draw(spd.specs(max_n=nmax, min_n=1, kappas=kappas, batches=((), (), (), (2,), (1,), (2, 1), (3,))))
    n, ab = spec["n"], list(spec["batch"])
    # right-hand side: batch equal to A's, dropped (broadcast against a batched A) or extra (against an unbatched A)
    rb = draw(st.sampled_from([ab, ab, [] if ab else [2]]))
    vector = (not ab) and (not rb) and draw(st.integers(0, 7)) == 0
    t = 1 if vector else draw(st.sampled_from([1, 1, 2, 2, 3, 4]))
    vals = _ints(draw, rb + [n, t], -32, 32)
    kinds = [draw(st.sampled_from(COLKINDS)) for _ in range(t)]
    case = {"fam": fam, "dt": dt, "spec": spec, "rhs": {"batch": rb, "t": t, "vals": vals, "kinds": kinds, "vector": vector}}
    pre = {"kind": draw(st.sampled_from(PRECONDS))}
    if pre["kind"] == "scalar":
        pre["c"] = draw(st.sampled_from([0.25, 3.0, 100.0]))
    elif pre["kind"] == "lrd_rand":
        r = draw(st.integers(1, min(3, n)))
        pre["V"] = _ints(draw, [n, r], -8, 8)
        pre["d"] = draw(st.lists(st.integers(1, 16), min_size=n, max_size=n))
    elif pre["kind"] == "lrd_spec":
        pre["k"] = draw(st.integers(1, min(3, n)))
    case["pre"] = pre
    args = {}
    if fam == "error":
        case["err"] = draw(st.sampled_from(["nan_A", "nan_rhs", "limits", "limits_default"]))
        case["pos"] = draw(st.integers(0, 10**6))
        case["rhs"]["kinds"] = ["normal"] * t
        args["max_iter"] = draw(st.integers(1, 30))
        args["n_tridiag"] = draw(st.sampled_from([0, 0, 1]))
        case["args"] = args
        case["x0"] = None
        return case
    degenerate = any(k in ("zero", "tiny") for k in kinds)
    if not degenerate and draw(st.integers(0, 3)) == 0:
        case["x0"] = _ints(draw, rb + [n, t], -16, 16)
    else:
        case["x0"] = None
    # the code's thresholds are arguments: mostly the defaults, sometimes others (the floor formula is parametric)
    if draw(st.integers(0, 3)) == 0:
        args["eps"] = draw(st.sampled_from([1e-6, 1e-8, 1e-14]))
    if fam == "sweep":
        if draw(st.integers(0, 1)) == 0:
            args["sua"] = draw(st.sampled_from([0.25, 1e-1, 1e-2, 1e-3, 1e-6]))
        case["J"] = draw(st.integers(2, min(40, 2 * n + 8)))
        case["by_size"] = draw(st.sampled_from([False, False, True]))
    elif fam == "conv":
        args["tolerance"] = draw(st.sampled_from([None, None, 1.0, 1e-1, 1e-2, 1e-3, 1e-6, 1e-9]))
        args["max_iter"] = draw(st.sampled_from([None, None, 1, 2, 5, 11, 12, 30, 100, 400]))
        case["settings"] = {
            "cg_tolerance": draw(st.sampled_from([1.0, 1.0, 0.1, 1e-2, 1e-4])),
            "max_cg_iterations": draw(st.sampled_from([1000, 1000, 50, 200])),
            "terminate_cg_by_size": draw(st.booleans()),
        }
        if draw(st.integers(0, 3)) == 0:
            args["sua"] = draw(st.sampled_from([1e-2, 1e-4, 1e-6]))
        case["pre2"] = draw(st.sampled_from(["none", "jacobi", "exact", "scalar3"]))
        case["Jconv"] = 300 if tier == "quick" else 2000
    elif fam == "scale":
        case["alpha"] = draw(st.sampled_from([2.0, 0.5, 2.0**20, 2.0**-20, -4.0, 3.0, 1e-3, 1e5, -0.7]))
        args["max_iter"] = draw(st.sampled_from([1, 3, 10, 40, 200]))
        args["tolerance"] = draw(st.sampled_from([0.0, 1e-3, 1.0]))
    elif fam == "tridiag":
        nt = draw(st.integers(1, t))
        args["n_tridiag"] = nt
        mti = draw(st.sampled_from([None, 1, 2, 3, 5, 8, 12, 20, 33, 64]))
        args["max_tridiag_iter"] = mti
        lo = 20 if mti is None else mti
        args["max_iter"] = lo + draw(st.sampled_from([0, 0, 1, 5, 40]))
        args["tolerance"] = draw(st.sampled_from([0.0, 1e-3, 1.0]))
        if draw(st.integers(0, 2)) == 0:
            args["sua"] = draw(st.sampled_from([0.0, 1e-3, 1e-6]))
        case["by_size"] = draw(st.sampled_from([False, False, True]))
    case["args"] = args
    return case


def strategy(tier):
    return cases(tier)


# ---------------------------------------------------------------------------------------------------------------
# deterministic reconstruction of the system from the JSON case
# ---------------------------------------------------------------------------------------------------------------
class Sys:
    pass


def _sym(m):
    return 0.5 * (m + m.transpose(-1, -2))


def _pinv64(kind, pre, A, A64, w, Q, n):
    """float64 matrix of P^{-1} (SPD by construction) for a preconditioner description, or None."""
    I = torch.eye(n, dtype=torch.float64)
    if kind == "none":
        return None
    if kind == "jacobi":
        return torch.diag_embed(1.0 / torch.diagonal(A, dim1=-2, dim2=-1))
    if kind == "scalar":
        return pre["c"] * I
    if kind == "scalar3":
        return 3.0 * I
    if kind == "exact":
        return _sym(torch.linalg.inv(A64))
    if kind == "lrd_rand":
        V = torch.tensor(pre["V"], dtype=torch.float64) / 4.0
        d = torch.tensor(pre["d"], dtype=torch.float64) / 4.0
        return _sym(torch.linalg.inv(V @ V.T + torch.diag(d)))
    if kind == "lrd_spec":
        # P = s I + Q_k diag(w_k - s) Q_k^T  (top-k eigenpairs deflated to the level s of the next eigenvalue)
        k = min(pre["k"], n)
        s = w[..., min(k, n - 1)].unsqueeze(-1)
        Qk = Q[..., :, :k]
        coef = 1.0 / w[..., :k] - 1.0 / s
        return _sym(I / s.unsqueeze(-1) + (Qk * coef.unsqueeze(-2)) @ Qk.transpose(-1, -2))
    raise HarnessError("unknown preconditioner %r" % kind)


def _precond(S, kind, pre=None):
    """-> dict(closure, lamM (.., n) ascending, lamPmax (..,), kP (..,)) for the matrices as rounded to the case dtype."""
    n = S.n
    out = {"kind": kind}
    P64 = _pinv64(kind, pre or {}, S.A, S.A64, S.w, S.Q, n)
    if P64 is None:
        out["closure"] = None
        out["lamM"] = S.lamA
        out["lamPmax"] = torch.ones(S.lamA.shape[:-1], dtype=torch.float64)
        out["kP"] = torch.ones(S.lamA.shape[:-1], dtype=torch.float64)
        out["Pinv"] = None
        return out
    Pl = P64.to(S.dtype)
    Pinv = _sym(Pl.double())
    try:
        C = torch.linalg.cholesky(Pinv)
    except Exception as e:  # P^-1 lost definiteness in the cast: generator domain error, not a library failure
        raise HarnessError("preconditioner %s not SPD after the cast to %s: %r" % (kind, S.dtype, e))
    M = _sym(C.transpose(-1, -2) @ S.A @ C)
    lamP = torch.linalg.eigvalsh(Pinv)
    out["closure"] = lambda r: Pl.matmul(r)
    out["lamM"] = torch.linalg.eigvalsh(M)
    out["lamPmax"] = 1.0 / lamP[..., 0]
    out["kP"] = lamP[..., -1] / lamP[..., 0]
    out["Pinv"] = Pinv
    if float(out["lamM"].min()) <= 0:
        raise HarnessError("preconditioned operator not SPD")
    return out


def _system(case):
    S = Sys()
    S.dtn = case["dt"]
    S.dtype = DT[S.dtn]
    S.u = U[S.dtn]
    spec = case["spec"]
    S.n = n = spec["n"]
    A64, w, Q = spd.build(spec)
    S.A64, S.w, S.Q = A64, w, Q
    S.A_lib = A64.to(S.dtype)
    S.A = _sym(S.A_lib.double())
    S.lamA = torch.linalg.eigvalsh(S.A)
    if float(S.lamA.min()) <= 0:
        raise HarnessError("generated matrix is not SPD after the cast")
    if S.dtn == "f64" and float((S.lamA - w.flip(-1)).abs().max()) > 1e-10 * float(w.max()):
        raise HarnessError("spectrum of the built matrix differs from the requested one")
    r = case["rhs"]
    S.t = t = r["t"]
    S.eps = float(case.get("args", {}).get("eps", EPS_DEFAULT))
    S.eps_dt = float(torch.tensor(S.eps, dtype=S.dtype))
    vals = torch.tensor(r["vals"], dtype=torch.float64) / 8.0
    nrm = vals.norm(dim=-2, keepdim=True)
    nrm = torch.where(nrm > 0, nrm, torch.ones_like(nrm))
    cols = []
    for c, kind in enumerate(r["kinds"]):
        v = vals[..., c]
        if kind == "zero":
            v = torch.zeros_like(v)
        elif kind == "tiny":
            v = v / nrm[..., 0, c].unsqueeze(-1) * (S.eps / 128.0)
        elif kind == "small":
            v = v / nrm[..., 0, c].unsqueeze(-1) * (S.eps * 128.0)
        elif kind == "huge":
            v = v * 2.0**27
        cols.append(v)
    b = torch.stack(cols, -1)
    S.b_lib = b.to(S.dtype)
    S.x0_lib = None
    if case.get("x0") is not None:
        S.x0_lib = (torch.tensor(case["x0"], dtype=torch.float64) / 8.0).to(S.dtype)
    S.vector = bool(r.get("vector"))
    S.bshape = torch.broadcast_shapes(tuple(spec["batch"]), tuple(r["batch"]))
    S.full = lambda x: x.expand(*S.bshape, *x.shape[-2:])
    S.Af = S.full(S.A)
    S.b = S.full(S.b_lib.double())
    S.x0 = None if S.x0_lib is None else S.full(S.x0_lib.double())
    S.lamAf = S.lamA.expand(*S.bshape, n)
    S.lmin = S.lamAf[..., 0].unsqueeze(-1)  # (*B, 1) broadcast over columns
    S.lmax = S.lamAf[..., -1].unsqueeze(-1)
    S.beta = S.b.norm(dim=-2)  # (*B, t)
    S.iszero = S.beta < S.eps_dt * (1 - 1e-3)
    borderline = (S.beta - S.eps_dt).abs() <= 1e-3 * S.eps_dt
    if bool(borderline.any()):
        raise HarnessError("column norm on the eps threshold")
    S.xs = torch.linalg.solve(S.Af, S.b)
    # one step of refinement in float64 keeps the reference error at n u64 kappa relative
    S.xs = S.xs + torch.linalg.solve(S.Af, S.b - S.Af @ S.xs)
    return S


# ---------------------------------------------------------------------------------------------------------------
# running the routine
# ---------------------------------------------------------------------------------------------------------------
def _fail(check, what, symptom, detail):
    raise Violation("C08|%s|%s|%s" % (check, what, symptom), detail)


def _run(S, pc, args, b_lib=None, x0_lib="same", settings=None, what="linear_cg", A_lib=None, expect_raise=False):
    """One call of the real linear_cg.  -> dict(x (float64, full batch), T, iters, warned)."""
    from linear_operator.utils.linear_cg import linear_cg
    from linear_operator.utils.warnings import NumericalWarning

    A_lib = S.A_lib if A_lib is None else A_lib
    b_lib = S.b_lib if b_lib is None else b_lib
    x0_lib = S.x0_lib if isinstance(x0_lib, str) else x0_lib
    calls = [0]

    def mm(x):
        calls[0] += 1
        return A_lib.matmul(x)

    kw = {"n_tridiag": args.get("n_tridiag", 0), "preconditioner": pc["closure"]}
    for name, key in (("tolerance", "tolerance"), ("max_iter", "max_iter"), ("max_tridiag_iter", "max_tridiag_iter"), ("eps", "eps"), ("stop_updating_after", "sua")):
        if args.get(key) is not None:
            kw[name] = args[key]
    rhs = b_lib.clone()
    x0 = None if x0_lib is None else x0_lib.clone()
    if S.vector:
        rhs = rhs[..., 0]
        x0 = None if x0 is None else x0[..., 0]
    if x0 is not None:
        kw["initial_guess"] = x0
    try:
        with state.apply_settings(settings or {}), warnings.catch_warnings(record=True) as wl:
            warnings.simplefilter("always")
            out = linear_cg(mm, rhs, **kw)
    except Exception as e:
        if expect_raise:
            return {"raised": e}
        _fail(what, "linear_cg", "exc:" + X.describe(e), "linear_cg raised %r with %s" % (e, _brief(S, pc, args)))
    if expect_raise:
        return {"raised": None, "out": out}
    T = None
    if kw["n_tridiag"]:
        if not (isinstance(out, tuple) and len(out) == 2):
            _fail(what, "linear_cg", "type", "n_tridiag>0 must return (result, tridiags), got %s" % type(out).__name__)
        out, T = out
    if not torch.is_tensor(out):
        _fail(what, "linear_cg", "type", "result is %s" % type(out).__name__)
    want = (S.n,) if S.vector else tuple(S.bshape) + (S.n, S.t)
    if tuple(out.shape) != want:
        _fail(what, "linear_cg", "shape", "result shape %s != %s (%s)" % (tuple(out.shape), want, _brief(S, pc, args)))
    if out.dtype != S.dtype:
        _fail(what, "linear_cg", "dtype", "result dtype %s != %s" % (out.dtype, S.dtype))
    x = out.double()
    if S.vector:
        x = x.unsqueeze(-1)
    if not bool(torch.isfinite(x).all()):
        _fail(what, "linear_cg", "nan", "non-finite entries in the result for an SPD system (%s)" % _brief(S, pc, args))
    warned = any(issubclass(w.category, NumericalWarning) for w in wl)
    return {"x": x, "T": T, "iters": max(calls[0] - 1, 0), "warned": warned}


def _brief(S, pc, args):
    return "n=%d dt=%s batch=%s t=%d kappaA=%.3g pre=%s kappaM=%.3g args=%s" % (
        S.n,
        S.dtn,
        tuple(S.bshape),
        S.t,
        float((S.lamA[..., -1] / S.lamA[..., 0]).max()),
        pc["kind"],
        float((pc["lamM"][..., -1] / pc["lamM"][..., 0]).max()),
        {k: v for k, v in args.items() if v is not None},
    )


def _anorm(S, d):
    return (d * (S.Af @ d)).sum(-2).clamp_min(0).sqrt()
