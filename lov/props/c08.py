"""C08 -- linear conjugate gradients (DESIGN section 4, C08).

Code under test: linear_operator.utils.linear_cg.linear_cg called directly with a dense matmul closure.

A case is a small JSON dict: an SPD *spec* (lov.spd: spectrum family, kappa, Householder vectors), right-hand-side grid values
plus per-column kinds, an optional initial guess, a preconditioner description, the linear_cg arguments / settings and a
*family* of sub-checks to run (a full budget sweep costs J runs, so a case runs one family only):

  sweep    budgets max_iter = 1..J (tolerance 0)       -> monotone (i), chebyshev (ii), frozen (vi), zero (iv)
  conv     the real stopping rule, one run (+ one run per extra preconditioner)
                                                        -> residual (iii), chebyshev at the performed count, precond (vii), zero
  scale    cg(B) against cg(alpha B)                    -> scaling (v)
  tridiag  budgets 1..m and one run with n_tridiag > 0  -> tridiag (viii): structure, Ritz values, quadrature identities
  error    NaN in A / rhs, max_tridiag_iter > max_iter  -> raises (ix)

Everything the oracle needs (lambda_min/max of A, of the preconditioner P and of M = P^-1/2 A P^-1/2) is measured in float64
on the matrices *actually handed to the routine* (after the cast to the case dtype), so float32 rounding of the inputs is
part of the reference problem and not of the tolerance.
"""
import math
import warnings

import torch
from hypothesis import strategies as st

from lov import exc as X
from lov import spd, state
from lov.core import HarnessError, Violation

ID = "C08"
BUDGET = {"quick": 600, "thorough": 1500}
SHARDS = 16
SHRINK_BUDGET = {"quick": 60, "thorough": 300}

# ---------------------------------------------------------------------------------------------------------------
# tolerance constants (all derived in the docstrings of the bound helpers below; recorded in evidence)
# ---------------------------------------------------------------------------------------------------------------
U = {"f32": 2.0**-24, "f64": 2.0**-53}
DT = {"f32": torch.float32, "f64": torch.float64}
C_FP = 64.0  # constant of every first-order rounding term  C_FP * (n + j) * u * (magnitude)
C_FLOOR = 2.0  # safety factor on the code's own residual thresholds (rounding of the tested inner products / norms)
C_KAPPA = 8.0  # kappa' = kappa (1 + C_KAPPA n u kappa kappa(P)): spectrum of the operator the rounded recurrences see
DOMAIN_MAX = 0.25  # sub-checks that need kappa' are run only while C_KAPPA n u kappa(M) kappa(P) <= DOMAIN_MAX
EPS_DEFAULT = 1e-10
SUA_DEFAULT = 1e-10

RULE = (
    "case = SPD system Q diag(w) Q^T (families uniform/two_clusters/geometric/one_outlier/repeated, kappa in "
    "{1,10,1e2,1e4,1e6}; f32 only kappa<=1e4), n 1..32 quick / 1..64 thorough, batch shapes (rhs batch equal / broadcast), "
    "1..4 columns with kinds normal/zero/tiny(<eps)/small/huge(2^27), optional initial guess, preconditioner in "
    "{none, jacobi, scalar, exact inverse, random low-rank+diag, spectral low-rank+diag}, linear_cg arguments "
    "(tolerance, max_iter, max_tridiag_iter, n_tridiag, eps, stop_updating_after), settings (terminate_cg_by_size, "
    "cg_tolerance, max_cg_iterations), dtype; and ONE family of sub-checks: sweep | conv | scale | tridiag | error. "
    "Non-trivial: (kappa>=10 and n>=4) or a zero/tiny/huge column or a preconditioner or n_tridiag>0 or an error input. "
    "Distinct by hash of the whole case."
)
ASSUMPTIONS = [
    "float32 systems are generated with kappa <= 1e4 only: n*u*kappa must stay below 1/16 for the float32 matrix to be "
    "certainly SPD (the property's precondition); kappa=1e6 is float64 only",
    "chebyshev / monotone / Ritz sub-checks run only while 8*n*u*kappa(M)*kappa(P) <= 0.25 (otherwise labelled "
    "'domain:skipped'); the kappa-based bound is the one known to survive rounding (Greenbaum 1989), sharper "
    "spectrum-dependent bounds (finite termination) are NOT asserted",
    "an initial guess is generated only together with columns of norm >= eps: the routine's zero-rhs rule is stated for the "
    "default zero initial guess (with a guess such a column is frozen after one step - reported, not asserted)",
    "columns with ||b|| < eps are what the routine declares zero: in (iii) their relative residual counts as 0 and their "
    "error bound is ||x*||_A itself (the floor term ||b||/sqrt(lambda_min))",
    "general (non power-of-two) scale factors are compared only through the two error bounds (rounded CG trajectories of "
    "perturbed right-hand sides separate); power-of-two factors are compared to 8u",
    "Ritz values and quadrature identities are asserted on the leading block of T whose rows are certified un-frozen "
    "(true residual above the code's eps / stop_updating_after thresholds); rows written after a column froze are only "
    "required to keep T symmetric, tridiagonal and finite",
    "rhs and initial guess have the same number of dimensions (1-D with 1-D)",
]

FAMS = ["sweep", "sweep", "sweep", "conv", "conv", "conv", "scale", "scale", "tridiag", "tridiag", "tridiag", "error"]
PRECONDS = ["none", "none", "none", "jacobi", "scalar", "exact", "lrd_rand", "lrd_spec"]
COLKINDS = ["normal", "normal", "normal", "normal", "zero", "tiny", "small", "huge"]


# Findings reported to the lead but possibly not yet merged into known_findings.json: the generator avoids a trigger while
# an *open* entry names it, or while NO entry names it and it is listed here; once an entry exists its status decides
# (status 'fixed: ...' re-opens the region to the search).
PENDING = ("tridiag_max_iter_1",)


def _avoided():
    import os

    from lov.findings import load

    if os.environ.get("LOV_C08_AVOID") is not None:  # experiments only (e.g. verifying a proposed patch): "" = avoid nothing
        return {t for t in os.environ["LOV_C08_AVOID"].split(",") if t}

    ents = [e for e in load() if e.get("property") == ID and e.get("trigger")]
    named = {e["trigger"] for e in ents}
    out = {e["trigger"] for e in ents if e.get("status", "open") == "open"}
    out.update(t for t in PENDING if t not in named)
    return out


def _nest(flat, shape):
    if len(shape) == 1:
        return list(flat[: shape[0]])
    step = 1
    for s in shape[1:]:
        step *= s
    return [_nest(flat[i * step : (i + 1) * step], shape[1:]) for i in range(shape[0])]


def _ints(draw, shape, lo, hi):
    n = 1
    for s in shape:
        n *= s
    return _nest(draw(st.lists(st.integers(lo, hi), min_size=n, max_size=n)), list(shape))


@st.composite
def cases(draw, tier):
    fam = draw(st.sampled_from(FAMS))
    dt = draw(st.sampled_from(["f64", "f64", "f32"]))
    sizes = [1, 2, 3, 4, 5, 6, 7, 8, 8, 10, 12, 12, 16, 16, 20, 24, 32, 32] + ([40, 48, 64, 64] if tier != "quick" else [])
    nn = draw(st.sampled_from(sizes))
    kappas = [k for k in (1.0, 10.0, 10.0, 1e2, 1e2, 1e4, 1e4, 1e6, 1e6) if dt == "f64" or k <= 1e4]
    spec = draw(spd.specs(max_n=nn, min_n=nn, kappas=kappas, batches=((), (), (), (2,), (1,), (2, 1), (3,))))
    n, ab = spec["n"], list(spec["batch"])
    # right-hand side: batch equal to A's, dropped (broadcast against a batched A) or extra (against an unbatched A)
    rb = draw(st.sampled_from([ab, ab, [] if ab else [2]]))
    vector = (not ab) and (not rb) and draw(st.integers(0, 7)) == 0
    t = 1 if vector else draw(st.sampled_from([1, 1, 2, 2, 3, 4]))
    vals = _ints(draw, rb + [n, t], -32, 32)
    kinds = [draw(st.sampled_from(COLKINDS)) for _ in range(t)]
    case = {"fam": fam, "dt": dt, "spec": spec, "rhs": {"batch": rb, "t": t, "vals": vals, "kinds": kinds, "vector": vector}}
    pre = {"kind": draw(st.sampled_from(PRECONDS))}
    if pre["kind"] == "scalar":
        pre["c"] = draw(st.sampled_from([0.25, 3.0, 100.0]))
    elif pre["kind"] == "lrd_rand":
        r = draw(st.integers(1, min(3, n)))
        pre["V"] = _ints(draw, [n, r], -8, 8)
        pre["d"] = draw(st.lists(st.integers(1, 16), min_size=n, max_size=n))
    elif pre["kind"] == "lrd_spec":
        pre["k"] = draw(st.integers(1, min(3, n)))
    case["pre"] = pre
    args = {}
    if fam == "error":
        case["err"] = draw(st.sampled_from(["nan_A", "nan_rhs", "limits", "limits_default"]))
        case["pos"] = draw(st.integers(0, 10**6))
        case["rhs"]["kinds"] = ["normal"] * t
        args["max_iter"] = draw(st.integers(1, 30))
        args["n_tridiag"] = draw(st.sampled_from([0, 0, 1]))
        case["args"] = args
        case["x0"] = None
        if draw(st.booleans()):
            case["flags"] = draw(st.sampled_from([{"debug": False}, {"debug": False}, {"memory_efficient": True}, {"trace_mode": True}, {"terminate_cg_by_size": True}]))
        return case
    degenerate = any(k in ("zero", "tiny") for k in kinds)
    if not degenerate and draw(st.integers(0, 3)) == 0:
        case["x0"] = _ints(draw, rb + [n, t], -16, 16)
    else:
        case["x0"] = None
    # the code's thresholds are arguments: mostly the defaults, sometimes others (the floor formula is parametric)
    if draw(st.integers(0, 3)) == 0:
        args["eps"] = draw(st.sampled_from([1e-6, 1e-8, 1e-14]))
    if fam == "sweep":
        if draw(st.integers(0, 1)) == 0:
            args["sua"] = draw(st.sampled_from([0.25, 1e-1, 1e-2, 1e-3, 1e-6]))
        case["J"] = draw(st.integers(2, min(40, 2 * n + 8)))
        case["by_size"] = draw(st.sampled_from([False, False, True]))
    elif fam == "conv":
        args["tolerance"] = draw(st.sampled_from([None, None, 1.0, 1e-1, 1e-2, 1e-3, 1e-4, 1e-6, 1e-6, 1e-9]))
        args["max_iter"] = draw(st.sampled_from([None, None, 1, 2, 5, 11, 12, 30, 30, 100, 100, 400]))
        case["settings"] = {
            "cg_tolerance": draw(st.sampled_from([1.0, 1.0, 0.1, 1e-2, 1e-4])),
            "max_cg_iterations": draw(st.sampled_from([1000, 1000, 50, 200])),
            "terminate_cg_by_size": draw(st.booleans()),
        }
        if draw(st.integers(0, 3)) == 0:
            args["sua"] = draw(st.sampled_from([1e-2, 1e-4, 1e-6]))
        case["pre2"] = draw(st.sampled_from(["none", "jacobi", "exact", "scalar3"]))
        case["Jconv"] = 300 if tier == "quick" else 2000
    elif fam == "scale":
        case["alpha"] = draw(st.sampled_from([2.0, 0.5, 2.0**20, 2.0**-20, -4.0, 3.0, 1e-3, 1e5, -0.7]))
        args["max_iter"] = draw(st.sampled_from([1, 3, 10, 40, 200]))
        args["tolerance"] = draw(st.sampled_from([0.0, 1e-3, 1.0]))
    elif fam == "tridiag":
        nt = draw(st.integers(1, t))
        args["n_tridiag"] = nt
        mti = draw(st.sampled_from([None, 1, 2, 3, 5, 8, 12, 20, 33, 64]))
        args["max_tridiag_iter"] = mti
        lo = 20 if mti is None else mti
        args["max_iter"] = lo + draw(st.sampled_from([0, 0, 1, 5, 40]))
        args["tolerance"] = draw(st.sampled_from([0.0, 1e-3, 1.0]))
        if args["max_iter"] == 1 and "tridiag_max_iter_1" in _avoided():
            # F-C08-1: T = [[0]] is returned when the loop exits (tolerance met) in its first iteration; with tolerance 0 the
            # exit cannot fire, so max_iter = 1 itself stays covered
            args["tolerance"] = 0.0
        if draw(st.integers(0, 2)) == 0:
            args["sua"] = draw(st.sampled_from([0.0, 1e-3, 1e-6]))
        case["by_size"] = draw(st.sampled_from([False, False, True]))
    case["args"] = args
    return case


def strategy(tier):
    return cases(tier)


# ---------------------------------------------------------------------------------------------------------------
# deterministic reconstruction of the system from the JSON case
# ---------------------------------------------------------------------------------------------------------------
class Sys:
    pass


def _sym(m):
    return 0.5 * (m + m.transpose(-1, -2))


def _pinv64(kind, pre, A, A64, w, Q, n):
    """float64 matrix of P^{-1} (SPD by construction) for a preconditioner description, or None."""
    I = torch.eye(n, dtype=torch.float64)
    if kind == "none":
        return None
    if kind == "jacobi":
        return torch.diag_embed(1.0 / torch.diagonal(A, dim1=-2, dim2=-1))
    if kind == "scalar":
        return pre["c"] * I
    if kind == "scalar3":
        return 3.0 * I
    if kind == "exact":
        return _sym(torch.linalg.inv(A64))
    if kind == "lrd_rand":
        V = torch.tensor(pre["V"], dtype=torch.float64) / 4.0
        d = torch.tensor(pre["d"], dtype=torch.float64) / 4.0
        return _sym(torch.linalg.inv(V @ V.T + torch.diag(d)))
    if kind == "lrd_spec":
        # P = s I + Q_k diag(w_k - s) Q_k^T  (top-k eigenpairs deflated to the level s of the next eigenvalue)
        k = min(pre["k"], n)
        s = w[..., min(k, n - 1)].unsqueeze(-1)
        Qk = Q[..., :, :k]
        coef = 1.0 / w[..., :k] - 1.0 / s
        return _sym(I / s.unsqueeze(-1) + (Qk * coef.unsqueeze(-2)) @ Qk.transpose(-1, -2))
    raise HarnessError("unknown preconditioner %r" % kind)


def _precond(S, kind, pre=None):
    """-> dict(closure, lamM (.., n) ascending, lamPmax (..,), kP (..,)) for the matrices as rounded to the case dtype."""
    n = S.n
    out = {"kind": kind}
    P64 = _pinv64(kind, pre or {}, S.A, S.A64, S.w, S.Q, n)
    if P64 is None:
        out["closure"] = None
        out["lamM"] = S.lamA
        out["lamPmax"] = torch.ones(S.lamA.shape[:-1], dtype=torch.float64)
        out["kP"] = torch.ones(S.lamA.shape[:-1], dtype=torch.float64)
        out["Pinv"] = None
        return out
    Pl = P64.to(S.dtype)
    Pinv = _sym(Pl.double())
    try:
        C = torch.linalg.cholesky(Pinv)
    except Exception as e:  # P^-1 lost definiteness in the cast: generator domain error, not a library failure
        raise HarnessError("preconditioner %s not SPD after the cast to %s: %r" % (kind, S.dtype, e))
    M = _sym(C.transpose(-1, -2) @ S.A @ C)
    lamP = torch.linalg.eigvalsh(Pinv)
    out["closure"] = lambda r: Pl.matmul(r)
    out["lamM"] = torch.linalg.eigvalsh(M)
    out["lamPmax"] = 1.0 / lamP[..., 0]
    out["kP"] = lamP[..., -1] / lamP[..., 0]
    out["Pinv"] = Pinv
    if float(out["lamM"].min()) <= 0:
        raise HarnessError("preconditioned operator not SPD")
    return out


def _system(case):
    S = Sys()
    S.dtn = case["dt"]
    S.dtype = DT[S.dtn]
    S.u = U[S.dtn]
    spec = case["spec"]
    S.n = n = spec["n"]
    A64, w, Q = spd.build(spec)
    S.A64, S.w, S.Q = A64, w, Q
    S.A_lib = A64.to(S.dtype)
    S.A = _sym(S.A_lib.double())
    S.lamA = torch.linalg.eigvalsh(S.A)
    if float(S.lamA.min()) <= 0:
        raise HarnessError("generated matrix is not SPD after the cast")
    # (spd.spectrum does not promise an ordering, e.g. one_outlier with kappa < 2: compare as sets; the oracle only ever
    # uses the measured eigenvalues S.lamA)
    if S.dtn == "f64" and float((S.lamA - w.sort(-1).values).abs().max()) > 1e-10 * float(w.max()):
        raise HarnessError("spectrum of the built matrix differs from the requested one")
    r = case["rhs"]
    S.t = r["t"]
    S.eps = float(case.get("args", {}).get("eps", EPS_DEFAULT))
    S.eps_dt = float(torch.tensor(S.eps, dtype=S.dtype))
    vals = torch.tensor(r["vals"], dtype=torch.float64) / 8.0
    nrm = vals.norm(dim=-2, keepdim=True)
    nrm = torch.where(nrm > 0, nrm, torch.ones_like(nrm))
    cols = []
    for c, kind in enumerate(r["kinds"]):
        v = vals[..., c]
        if kind == "zero":
            v = torch.zeros_like(v)
        elif kind == "tiny":
            v = v / nrm[..., 0, c].unsqueeze(-1) * (S.eps / 128.0)
        elif kind == "small":
            v = v / nrm[..., 0, c].unsqueeze(-1) * (S.eps * 128.0)
        elif kind == "huge":
            v = v * 2.0**27
        cols.append(v)
    b = torch.stack(cols, -1)
    S.b_lib = b.to(S.dtype)
    S.x0_lib = None
    if case.get("x0") is not None:
        S.x0_lib = (torch.tensor(case["x0"], dtype=torch.float64) / 8.0).to(S.dtype)
    S.vector = bool(r.get("vector"))
    S.bshape = torch.broadcast_shapes(tuple(spec["batch"]), tuple(r["batch"]))
    S.full = lambda x: x.expand(*S.bshape, *x.shape[-2:])
    S.Af = S.full(S.A)
    S.b = S.full(S.b_lib.double())
    S.x0 = None if S.x0_lib is None else S.full(S.x0_lib.double())
    S.lamAf = S.lamA.expand(*S.bshape, n)
    S.lmin = S.lamAf[..., 0].unsqueeze(-1)  # (*B, 1) broadcast over columns
    S.lmax = S.lamAf[..., -1].unsqueeze(-1)
    S.beta = S.b.norm(dim=-2)  # (*B, t)
    S.iszero = S.beta < S.eps_dt * (1 - 1e-3)
    borderline = (S.beta - S.eps_dt).abs() <= 1e-3 * S.eps_dt
    if bool(borderline.any()):
        raise HarnessError("column norm on the eps threshold")
    S.xs = torch.linalg.solve(S.Af, S.b)
    # one step of refinement in float64 keeps the reference error at n u64 kappa relative
    S.xs = S.xs + torch.linalg.solve(S.Af, S.b - S.Af @ S.xs)
    return S


# ---------------------------------------------------------------------------------------------------------------
# running the routine
# ---------------------------------------------------------------------------------------------------------------
def _fail(check, what, symptom, detail):
    raise Violation("C08|%s|%s|%s" % (check, what, symptom), detail)


def _run(S, pc, args, b_lib=None, x0_lib="same", settings=None, what="linear_cg", A_lib=None, expect_raise=False):
    """One call of the real linear_cg.  -> dict(x (float64, full batch), T, iters, warned)."""
    from linear_operator.utils.linear_cg import linear_cg
    from linear_operator.utils.warnings import NumericalWarning

    A_lib = S.A_lib if A_lib is None else A_lib
    b_lib = S.b_lib if b_lib is None else b_lib
    x0_lib = S.x0_lib if isinstance(x0_lib, str) else x0_lib
    calls = [0]

    def mm(x):
        calls[0] += 1
        return A_lib.matmul(x)

    kw = {"n_tridiag": args.get("n_tridiag", 0), "preconditioner": pc["closure"]}
    for name, key in (("tolerance", "tolerance"), ("max_iter", "max_iter"), ("max_tridiag_iter", "max_tridiag_iter"), ("eps", "eps"), ("stop_updating_after", "sua")):
        if args.get(key) is not None:
            kw[name] = args[key]
    rhs = b_lib.clone()
    x0 = None if x0_lib is None else x0_lib.clone()
    if S.vector:
        rhs = rhs[..., 0]
        x0 = None if x0 is None else x0[..., 0]
    if x0 is not None:
        kw["initial_guess"] = x0
    try:
        with state.apply_settings(settings or {}), warnings.catch_warnings(record=True) as wl:
            warnings.simplefilter("always")
            out = linear_cg(mm, rhs, **kw)
    except Exception as e:
        if expect_raise:
            return {"raised": e}
        _fail(what, "linear_cg", "exc:" + X.describe(e), "linear_cg raised %r with %s" % (e, _brief(S, pc, args)))
    if expect_raise:
        return {"raised": None, "out": out}
    T = None
    if kw["n_tridiag"]:
        if not (isinstance(out, tuple) and len(out) == 2):
            _fail(what, "linear_cg", "type", "n_tridiag>0 must return (result, tridiags), got %s" % type(out).__name__)
        out, T = out
    if not torch.is_tensor(out):
        _fail(what, "linear_cg", "type", "result is %s" % type(out).__name__)
    want = (S.n,) if S.vector else tuple(S.bshape) + (S.n, S.t)
    if tuple(out.shape) != want:
        _fail(what, "linear_cg", "shape", "result shape %s != %s (%s)" % (tuple(out.shape), want, _brief(S, pc, args)))
    if out.dtype != S.dtype:
        _fail(what, "linear_cg", "dtype", "result dtype %s != %s" % (out.dtype, S.dtype))
    x = out.double()
    if S.vector:
        x = x.unsqueeze(-1)
    if not bool(torch.isfinite(x).all()):
        _fail(what, "linear_cg", "nan", "non-finite entries in the result for an SPD system (%s)" % _brief(S, pc, args))
    warned = any(issubclass(w.category, NumericalWarning) for w in wl)
    return {"x": x, "T": T, "iters": max(calls[0] - 1, 0), "warned": warned}


def _brief(S, pc, args):
    return "n=%d dt=%s batch=%s t=%d kappaA=%.3g pre=%s kappaM=%.3g args=%s" % (
        S.n,
        S.dtn,
        tuple(S.bshape),
        S.t,
        float((S.lamA[..., -1] / S.lamA[..., 0]).max()),
        pc["kind"],
        float((pc["lamM"][..., -1] / pc["lamM"][..., 0]).max()),
        {k: v for k, v in args.items() if v is not None},
    )


def _anorm(S, d):
    return (d * (S.Af @ d)).sum(-2).clamp_min(0).sqrt()


# ---------------------------------------------------------------------------------------------------------------
# bounds (per column; tensors of shape (*B, t))
# ---------------------------------------------------------------------------------------------------------------
class Bounds:
    """All quantities of the oracle for one (system, preconditioner, eps, stop_updating_after).

    The routine solves the column-normalised system A y = b/||b|| (beta = ||b||, x = beta y) and
      * skips an update when the computed p^T A p < eps, restarts the direction when the previous r^T z < eps.
        In CG  p^T A p >= lmin(M) r^T z  and  r^T z = r^T P^-1 r >= ||r||^2 / lmax(P), so either can only happen once
        ||r||^2 < eps lmax(P) max(1, 1/lmin(M));
      * freezes a column once ||r|| < stop_updating_after;
      hence progress as in exact CG is guaranteed while ||r|| >= thr_r = max(sua, sqrt(eps lmax(P) max(1,1/lmin(M)))), and
      below it ||e||_A = ||r||_{A^-1} <= thr_r / sqrt(lmin(A)).  C_FLOOR=2 covers the rounding of the tested quantities.
      * rounding: the recursively updated residual drifts from b - A y_j by at most  D_r(j) = C_FP (n+j) u lmax(A) Theta,
        Theta >= max_i ||y_i||  (Greenbaum 1997), Theta = ||y*|| + ||e_0||_A / sqrt(lmin(A));  D_A = D_r / sqrt(lmin(A)).
      * the reference x* (float64 solve + one refinement step) carries e_ref = 64 n 2^-53 kappa(A) ||x*||_A.
    """

    def __init__(self, S, pc, args):
        self.S, self.pc = S, pc
        n, u = S.n, S.u
        B = tuple(S.bshape)
        self.sua = float(args["sua"]) if args.get("sua") is not None else SUA_DEFAULT
        lamM = pc["lamM"].expand(*B, n)
        self.lmM = lamM[..., 0].unsqueeze(-1)
        self.lMM = lamM[..., -1].unsqueeze(-1)
        self.kM = self.lMM / self.lmM
        self.lPmax = pc["lamPmax"].expand(*B).unsqueeze(-1) if B else pc["lamPmax"].reshape(()).unsqueeze(-1)
        self.kP = pc["kP"].expand(*B).unsqueeze(-1) if B else pc["kP"].reshape(()).unsqueeze(-1)
        self.dom = C_KAPPA * n * u * self.kM * self.kP
        self.dom_ok = bool((self.dom <= DOMAIN_MAX).all())
        kprime = self.kM * (1 + self.dom)
        self.rho = (kprime.sqrt() - 1) / (kprime.sqrt() + 1)
        self.thr_r = torch.maximum(
            torch.full_like(self.lmM, self.sua), (S.eps_dt * self.lPmax * torch.clamp(1.0 / self.lmM, min=1.0)).sqrt()
        )
        x0 = S.x0 if S.x0 is not None else torch.zeros_like(S.xs)
        self.x0 = x0
        self.e0 = _anorm(S, x0 - S.xs)
        self.xsA = _anorm(S, S.xs)
        self.e_ref = 64.0 * n * U["f64"] * (S.lmax / S.lmin) * self.xsA
        self.beta = torch.where(S.iszero, torch.ones_like(S.beta), S.beta)  # the routine's own rhs_norm
        self.theta = (S.xs.norm(dim=-2) + self.e0 / S.lmin.sqrt()) / self.beta

    def D_r(self, j):
        """Normalised residual gap after j iterations."""
        return C_FP * (self.S.n + j) * self.S.u * self.S.lmax * self.theta

    def floor(self, j):
        S = self.S
        return self.beta * (C_FLOOR * self.thr_r + self.D_r(j)) / S.lmin.sqrt() + self.e_ref

    def bound(self, j):
        """e_j <= min(1, 2 rho'^j) e_0 + floor(j); columns the routine declares zero (||b||<eps): e_j <= ||x*||_A."""
        cheb = torch.clamp(2.0 * self.rho ** j, max=1.0) if j > 0 else torch.ones_like(self.rho)
        gen = cheb * self.e0 + self.floor(j)
        zero = self.e0 * (1 + 1e-12) + self.e_ref + self.S.lmin * 0
        return torch.where(self.S.iszero, zero.expand_as(gen), gen)

    def relres(self, x):
        """True relative residual ||b - A x|| / ||b|| per column (0 for columns the routine declares zero)."""
        S = self.S
        r = (S.b - S.Af @ x).norm(dim=-2) / self.beta
        return torch.where(S.iszero, torch.zeros_like(r), r)


STATS = {}  # check-name -> largest observed/bound ratio (evidence: how much room each tolerance has)


def _ratio(name, obs, bnd):
    r = float((obs / bnd.clamp_min(1e-300)).max()) if obs.numel() else 0.0
    if not (r <= STATS.get(name, 0.0)):
        STATS[name] = r
    return r


def _worst(obs, bnd):
    return int(torch.argmax((obs / bnd.clamp_min(1e-300)).reshape(-1)))


def coverage_extra():
    return {
        "tolerance_constants": {"C_FP": C_FP, "C_FLOOR": C_FLOOR, "C_KAPPA": C_KAPPA, "DOMAIN_MAX": DOMAIN_MAX, "u": U},
        "max_observed_over_bound": {k: (v if v == v else "nan") for k, v in sorted(STATS.items())},
    }


# ---------------------------------------------------------------------------------------------------------------
# family: sweep  -> monotone (i), chebyshev (ii), frozen (vi), zero (iv)
# ---------------------------------------------------------------------------------------------------------------
def _check_zero_cols(S, case, x, what):
    """(iv) a column whose right-hand side is exactly zero gives exactly zero from the default zero initial guess."""
    if S.x0 is not None:
        return 0
    zc = (S.b == 0).all(dim=-2)  # (*B, t)
    if not bool(zc.any()):
        return 0
    bad = (x != 0).any(dim=-2) & zc
    if bool(bad.any()):
        _fail("zero", what, "value", "zero right-hand-side column gives max |x| = %.3g (%s)" % (float(x.abs().amax(-2)[bad].max()), _brief(S, S.pc0, case["args"])))
    return int(zc.sum())


def _sweep_iterates(S, pc, args, J, settings, what):
    """x_1 .. x_J by re-running with max_iter = j (tolerance 0: no early exit); deterministic, so run j returns iterate j."""
    xs = []
    for j in range(1, J + 1):
        a = dict(args)
        a.update({"n_tridiag": 0, "tolerance": 0.0, "max_iter": j, "max_tridiag_iter": j})
        xs.append(_run(S, pc, a, settings=settings, what=what)["x"])
    return xs


def _fam_sweep(S, case, labels):
    args = case["args"]
    pc = S.pc0
    Bd = Bounds(S, pc, args)
    J = case["J"]
    settings = {"terminate_cg_by_size": True} if case.get("by_size") else {}
    its = [Bd.x0] + _sweep_iterates(S, pc, args, J, settings, "sweep")
    jeff = [min(j, S.n) if case.get("by_size") else j for j in range(J + 1)]
    e = [_anorm(S, x - S.xs) for x in its]
    desc = _brief(S, pc, args)
    # (ii) chebyshev + floor
    if Bd.dom_ok:
        for j in range(1, J + 1):
            bnd = Bd.bound(jeff[j])
            nzc = ~S.iszero
            cheb_part = (bnd - Bd.floor(jeff[j]))[nzc]
            _ratio("floor_usage", (e[j][nzc] - cheb_part).clamp_min(0), Bd.floor(jeff[j])[nzc])
            strict = nzc & (2.0 * Bd.rho ** jeff[j] < 1.0).expand_as(nzc)
            _ratio("chebyshev_rate_part", e[j][strict], bnd[strict])
            if _ratio("chebyshev", e[j], bnd) > 1.0:
                i = _worst(e[j], bnd)
                _fail(
                    "chebyshev",
                    "sweep",
                    "value",
                    "iterate %d: ||x_j-x*||_A = %.4g > bound %.4g (e_0 = %.4g, rho'=%.6f, floor=%.3g) %s"
                    % (j, float(e[j].reshape(-1)[i]), float(bnd.reshape(-1)[i]), float(Bd.e0.reshape(-1)[i]), float(Bd.rho.max()), float(Bd.floor(jeff[j]).reshape(-1)[i]), desc),
                )
        # (i) monotone
        for j in range(J):
            grow = 1.0 + C_FP * (S.n + j) * S.u * Bd.kM * Bd.kP
            bnd = e[j] * grow + Bd.floor(jeff[j + 1])
            # statistic: the observed increase relative to the allowed increase
            if _ratio("monotone", (e[j + 1] - e[j]).clamp_min(0), bnd - e[j]) > 1.0:
                i = _worst(e[j + 1], bnd)
                _fail(
                    "monotone",
                    "sweep",
                    "value",
                    "A-norm error grows from %.6g (budget %d) to %.6g (budget %d); allowed %.6g; %s"
                    % (float(e[j].reshape(-1)[i]), j, float(e[j + 1].reshape(-1)[i]), j + 1, float(bnd.reshape(-1)[i]), desc),
                )
        labels.append("domain:ok")
    else:
        labels.append("domain:skipped")
    # (vi) a column certainly frozen after budget j (true residual + drift below stop_updating_after) never changes again
    nfrozen = 0
    for j in range(J):
        cert = ((Bd.relres(its[j]) + Bd.D_r(jeff[j])) * (1 + 1e-3) < Bd.sua) & ~S.iszero
        if j == 0:
            continue  # x_0 is the caller's guess; the routine returns (x_0 / ||b||) * ||b||, equal only up to rounding
        if bool(cert.any()):
            nfrozen += 1
            changed = (its[j + 1] != its[j]).any(dim=-2) & cert
            if bool(changed.any()):
                d = (its[j + 1] - its[j]).abs().amax(-2)[changed].max()
                _fail(
                    "frozen",
                    "sweep",
                    "value",
                    "column with relative residual %.3g < stop_updating_after=%.3g after budget %d still changes at budget %d (max |dx| = %.3g) %s"
                    % (float(Bd.relres(its[j])[changed].max()), Bd.sua, j, j + 1, float(d), desc),
                )
    labels.append("frozen:%s" % ("certified" if nfrozen else "none"))
    nz = 0
    for x in its[1:]:
        nz = _check_zero_cols(S, case, x, "sweep")
    labels.append("zerocols:%d" % min(nz, 1))
    labels.append("J:%d" % (10 * (J // 10)))
    reached = bool((e[-1] <= 2 * Bd.floor(jeff[-1])).any())
    labels.append("sweep_reached_floor:%s" % reached)


# ---------------------------------------------------------------------------------------------------------------
# family: conv  -> residual (iii), chebyshev at the performed iteration count (ii), precond (vii), zero (iv)
# ---------------------------------------------------------------------------------------------------------------
def _check_at_count(S, Bd, res, name, what, desc):
    """The returned iterate is iterate k (k = matmul calls - 1): e_k <= min(1, 2 rho'^k) e_0 + floor(k)."""
    if not Bd.dom_ok:
        return
    k = res["iters"]
    if S.cap_by_size:
        k = min(k, S.n)
    e = _anorm(S, res["x"] - S.xs)
    bnd = Bd.bound(k)
    nzc = ~S.iszero
    _ratio(name + "_floor_usage", (e - (bnd - Bd.floor(k))).clamp_min(0)[nzc], Bd.floor(k)[nzc])
    if _ratio(name, e, bnd) > 1.0:
        i = _worst(e, bnd)
        _fail(
            name,
            what,
            "value",
            "after %d iterations ||x-x*||_A = %.4g > bound %.4g (e_0 = %.4g, rho'=%.6f, floor=%.3g) %s"
            % (k, float(e.reshape(-1)[i]), float(bnd.reshape(-1)[i]), float(Bd.e0.reshape(-1)[i]), float(Bd.rho.max()), float(Bd.floor(k).reshape(-1)[i]), desc),
        )


def _fam_conv(S, case, labels):
    args = dict(case["args"])
    cell = dict(case.get("settings") or {})
    pc = S.pc0
    Bd = Bounds(S, pc, args)
    desc = _brief(S, pc, args) + " settings=%s" % cell
    S.cap_by_size = bool(cell.get("terminate_cg_by_size"))
    # max_tridiag_iter defaults to settings.max_lanczos_quadrature_iterations (20) and must not exceed max_iter
    eff_max = args["max_iter"] if args.get("max_iter") is not None else cell.get("max_cg_iterations", 1000)
    args["max_tridiag_iter"] = min(20, eff_max)
    res = _run(S, pc, args, settings=cell, what="conv")
    tol = args["tolerance"] if args.get("tolerance") is not None else cell.get("cg_tolerance", 1.0)
    k = res["iters"]
    labels.append("warned:%s" % res["warned"])
    labels.append("iters:%s" % ("0" if k == 0 else "1-10" if k <= 10 else "11" if k == 11 else "12-99" if k < 100 else ">=100"))
    labels.append("tol:%s" % ("setting" if case["args"].get("tolerance") is None else "arg"))
    labels.append("max_iter:%s" % ("setting" if case["args"].get("max_iter") is None else "arg"))
    labels.append("by_size:%s" % S.cap_by_size)
    if k > eff_max or (S.cap_by_size and k > S.n):
        _fail("residual", "conv", "iters", "%d iterations performed, limit %s (n=%d) %s" % (k, eff_max, S.n, desc))
    # (iii) no NumericalWarning => the mean (over batch and columns) true relative residual is below the tolerance.
    #   The code tests the recursively updated residual in the case dtype: + drift D_r(k), and 1e-3 for the rounded norm/mean.
    #   k == 0 is the 'solved right away' exit: every residual is below stop_updating_after instead.
    if not res["warned"]:
        rr = Bd.relres(res["x"])
        lim = (tol if k > 0 else Bd.sua) * (1 + 1e-3) + float(Bd.D_r(k).expand_as(rr).mean())
        obs = float(rr.mean())
        _ratio("residual", torch.tensor(obs), torch.tensor(lim))
        if not obs <= lim:
            _fail(
                "residual",
                "conv",
                "value",
                "no NumericalWarning after %d iterations but mean ||b-Ax||/||b|| = %.4g > tolerance %.4g (+drift %.2g) %s" % (k, obs, tol, lim - tol, desc),
            )
    _check_at_count(S, Bd, res, "chebyshev", "conv", desc)
    nz = _check_zero_cols(S, case, res["x"], "conv")
    labels.append("zerocols:%d" % min(nz, 1))
    # (vii) two SPD preconditioners run to convergence (tolerance 0, Jconv iterations): each limit is within its own bound
    #       of x*, and the two limits agree within the sum of the two bounds.
    S.cap_by_size = False
    J = case["Jconv"]
    a2 = {k_: v for k_, v in case["args"].items() if k_ in ("eps", "sua")}
    a2.update({"tolerance": 0.0, "max_iter": J, "max_tridiag_iter": 1})
    pc2 = _precond(S, case["pre2"], {})
    if pc2["kind"] == pc["kind"]:
        labels.append("precond_pair:same")
        return
    Bd2 = Bounds(S, pc2, a2)
    r1 = _run(S, pc, a2, what="precond")
    r2 = _run(S, pc2, a2, what="precond")
    _check_at_count(S, Bd, r1, "precond_limit", "conv:" + pc["kind"], desc)
    _check_at_count(S, Bd2, r2, "precond_limit", "conv:" + pc2["kind"], _brief(S, pc2, a2))
    if Bd.dom_ok and Bd2.dom_ok:
        d = _anorm(S, r1["x"] - r2["x"])
        bnd = Bd.bound(J) + Bd2.bound(J)
        tight = bool((bnd < 1e-2 * Bd.xsA.clamp_min(1e-300))[~S.iszero].any())
        labels.append("precond_pair:%s" % ("tight" if tight else "loose"))
        if _ratio("precond", d, bnd) > 1.0:
            i = _worst(d, bnd)
            _fail(
                "precond",
                "%s-vs-%s" % (pc["kind"], pc2["kind"]),
                "value",
                "limits differ: ||x_P1 - x_P2||_A = %.4g > %.4g (||x*||_A = %.4g) %s" % (float(d.reshape(-1)[i]), float(bnd.reshape(-1)[i]), float(Bd.xsA.reshape(-1)[i]), desc),
            )
    else:
        labels.append("precond_pair:domain_skipped")


# ---------------------------------------------------------------------------------------------------------------
# family: scale  -> scaling law (v)
# ---------------------------------------------------------------------------------------------------------------
def _fam_scale(S, case, labels):
    """cg(alpha B; alpha x0) = alpha cg(B; x0).

    The routine normalises every column, so for alpha = +-2^k every intermediate quantity of the two runs is identical
    (scaling by a power of two commutes with rounding while nothing under/overflows): compared to 8u elementwise, and the
    two runs must agree on the NumericalWarning.  For any other alpha the normalised right-hand sides differ by one
    rounding and rounded CG trajectories separate, so only  ||x_alpha/alpha - x||_A <= bound(k1) + bound(k2)  is asserted.
    Columns whose classification against eps changes under the scaling are left out (labelled), and then the other
    columns are compared through their bounds only (the stopping time depends on the mean residual over all columns)."""
    args = dict(case["args"])
    args["max_tridiag_iter"] = min(20, args["max_iter"])
    alpha = float(case["alpha"])
    pc = S.pc0
    S.cap_by_size = False
    Bd = Bounds(S, pc, args)
    desc = _brief(S, pc, args) + " alpha=%r" % alpha
    b2 = (S.b_lib.double() * alpha).to(S.dtype)
    x02 = None if S.x0_lib is None else (S.x0_lib.double() * alpha).to(S.dtype)
    beta2 = S.full(b2.double()).norm(dim=-2)
    iszero2 = beta2 < S.eps_dt
    stable = (iszero2 == S.iszero) & (((beta2 - S.eps_dt).abs() > 1e-3 * S.eps_dt))
    r1 = _run(S, pc, args, what="scaling")
    r2 = _run(S, pc, args, b_lib=b2, x0_lib=x02, what="scaling")
    m = math.frexp(abs(alpha))[0]
    lo, hi = (1e-12, 1e15) if S.dtn == "f32" else (1e-100, 1e100)
    nzb = torch.where(S.iszero, torch.ones_like(S.beta), S.beta)
    nzb2 = torch.where(S.iszero, torch.ones_like(S.beta), beta2)
    inrange = bool(((nzb > lo) & (nzb < hi) & (nzb2 > lo) & (nzb2 < hi)).all())
    x0ok = S.x0_lib is None or bool((x02.double() == S.x0_lib.double() * alpha).all())
    # a column whose classification against eps changes also changes the (mean-residual) stopping time of all the others
    # columns with 0 < ||b|| < eps are iterated un-normalised (rhs_norm := 1): their residual is compared with
    # stop_updating_after on the caller's scale, so the 'solved right away' exit legitimately depends on alpha
    # (the same holds for a zero column started from a non-zero initial guess: its residual -A x0 is on the caller's scale,
    # and the eps = 1e-10 safeguards in the step-length denominators damp the step once alpha^2 |r|^2 approaches eps)
    x0nz = torch.zeros_like(S.iszero) if S.x0_lib is None else (S.full(S.x0_lib.double()).abs().amax(dim=-2) > 0)
    sub_eps = bool((S.iszero & ((S.beta > 0) | x0nz)).any())
    exact = m == 0.5 and inrange and x0ok and bool((b2.double() == S.b_lib.double() * alpha).all()) and bool(stable.all()) and not sub_eps
    labels.append("alpha:%s" % ("pow2" if exact else "general"))
    if not bool(stable.all()):
        labels.append("scale:threshold_crossing_cols_skipped")
    want = r1["x"] * alpha
    if exact:
        if r1["warned"] != r2["warned"]:
            _fail("scaling", "pow2", "warning", "NumericalWarning raised for one of cg(B), cg(%g B) only; %s" % (alpha, desc))
        err = (r2["x"] - want).abs()
        bnd = 8 * S.u * want.abs().amax(-2, keepdim=True).expand_as(want) + 1e-300
        ok = stable.unsqueeze(-2).expand_as(err)
        if _ratio("scaling_pow2", err[ok], bnd[ok]) > 1.0:
            _fail("scaling", "pow2", "value", "cg(%g B) - %g cg(B): max abs %.4g, allowed %.4g; %s" % (alpha, alpha, float(err[ok].max()), float(bnd[ok].max()), desc))
        return
    if not Bd.dom_ok:
        labels.append("domain:skipped")
        return
    d = _anorm(S, r2["x"] / alpha - r1["x"])
    bnd = Bd.bound(r1["iters"]) + Bd.bound(r2["iters"])
    if _ratio("scaling_general", d[stable], bnd[stable]) > 1.0:
        dd = torch.where(stable, d / bnd, torch.zeros_like(d))
        i = int(torch.argmax(dd.reshape(-1)))
        _fail(
            "scaling",
            "general",
            "value",
            "||cg(%g B)/%g - cg(B)||_A = %.4g > %.4g (||x*||_A=%.4g) %s" % (alpha, alpha, float(d.reshape(-1)[i]), float(bnd.reshape(-1)[i]), float(Bd.xsA.reshape(-1)[i]), desc),
        )


# ---------------------------------------------------------------------------------------------------------------
# family: tridiag  -> (viii)
# ---------------------------------------------------------------------------------------------------------------
def _fam_tridiag(S, case, labels):
    """T must be the Lanczos matrix of M = P^-1/2 A P^-1/2 started at z = P^-1/2 r_0 / ||.||  (r_0 = b - A x_0).

    structure (all rows): shape (n_tridiag, *batch, m, m), 1 <= m <= min(max_tridiag_iter, n, iterations), finite,
      exactly symmetric, exactly zero outside the three diagonals.
    leading block T_k, k = number of leading rows certified clean: row i is written from alpha_i, beta_{i-1}, which are the
      true CG coefficients unless a safe division / the freeze mask fired, i.e. unless some residual r_0..r_i fell below
      thr = C_FLOOR thr_r + 2 D_r  (see Bounds).  The true residuals come from the budget sweep 1..m.
      ritz:  eig(T_k) within [lmin(M) - tol, lmax(M) + tol], tol = C_FP (n+k) u G lmax(M) kappa(P)   (Cauchy interlacing;
             Paige: rounded Lanczos keeps Ritz values inside the spectrum up to O(u ||M||); G >= 4 is the growth factor of
             the rounding errors of the CG-to-Lanczos conversion derived at its computation below: entries of T carry
             absolute errors u G lmax(M))
      inv :  (T_k^-1)_11 = (e_0^2 - e_k^2) / (r_0^T P^-1 r_0)        (Gauss quadrature error of CG; exact in exact
             arithmetic for every k, = z^T M^-1 z at full Krylov dimension where e_k = 0)
      log :  |(log T_k)_11 - z^T log(M) z| <= lmax(M)/(2k) e_k^2/(r_0^T P^-1 r_0)   (from the remainder of the Gauss rule for
             1/(x+t): E_t <= E_0 (lmax/(lmax+t))^(2k+1), integrated over t; = 0 at full Krylov dimension)
      both + C_FP (n+k) u G kappa(M) kappa(P) (scale of the functional) for the rounded recurrences, + the e_ref / D_A terms.
    """
    args = dict(case["args"])
    pc = S.pc0
    cell = {"terminate_cg_by_size": True} if case.get("by_size") else {}
    S.cap_by_size = bool(case.get("by_size"))
    Bd = Bounds(S, pc, args)
    desc = _brief(S, pc, args)
    nt = args["n_tridiag"]
    n = S.n
    res = _run(S, pc, args, settings=cell, what="tridiag")
    T = res["T"]
    B = tuple(S.bshape)
    mti = args["max_tridiag_iter"] if args.get("max_tridiag_iter") is not None else 20
    if not torch.is_tensor(T) or T.dim() != len(B) + 3 or tuple(T.shape[: len(B) + 1]) != (nt,) + B or T.shape[-1] != T.shape[-2]:
        _fail("tridiag", "structure", "shape", "tridiagonal has shape %s, expected (%d, *%s, m, m); %s" % (tuple(getattr(T, "shape", ())), nt, B, desc))
    m = T.shape[-1]
    if T.dtype != S.dtype:
        _fail("tridiag", "structure", "dtype", "tridiagonal dtype %s != %s" % (T.dtype, S.dtype))
    if not (1 <= m <= min(mti, n) and m <= max(res["iters"], 1)):
        _fail("tridiag", "structure", "shape", "tridiagonal size m=%d outside 1..min(max_tridiag_iter=%d, n=%d, iterations=%d); %s" % (m, mti, n, res["iters"], desc))
    T64 = T.double()
    if not bool(torch.isfinite(T64).all()):
        _fail("tridiag", "structure", "nan", "non-finite entries in the tridiagonal; %s" % desc)
    if not torch.equal(T64, T64.transpose(-1, -2)):
        _fail("tridiag", "structure", "value", "tridiagonal not symmetric: max |T-T^T| = %.3g; %s" % (float((T64 - T64.transpose(-1, -2)).abs().max()), desc))
    idx = torch.arange(m)
    off = (idx.unsqueeze(0) - idx.unsqueeze(1)).abs() > 1
    if bool((T64[..., off] != 0).any()):
        _fail("tridiag", "structure", "value", "non-zero entries outside the three diagonals (max %.3g); %s" % (float(T64[..., off].abs().max()), desc))
    labels.append("m:%s" % ("1" if m == 1 else "2-5" if m <= 5 else "6-20" if m <= 20 else ">20"))
    labels.append("m_vs_n:%s" % ("full" if m == n else "partial"))
    _check_at_count(S, Bd, res, "chebyshev", "tridiag", desc)
    _check_zero_cols(S, case, res["x"], "tridiag")
    # budget sweep 1..m (same arguments, no tridiagonal, no early exit): iterate i of this run == iterate i of the run above
    its = [Bd.x0] + _sweep_iterates(S, pc, {k: v for k, v in args.items() if k in ("eps", "sua")}, m, cell, "tridiag-sweep")
    e = [_anorm(S, x - S.xs) for x in its]
    rel = [Bd.relres(x) for x in its]
    # quantities of the preconditioned operator
    r0 = S.b - S.Af @ Bd.x0  # (*B, n, t)
    if pc["Pinv"] is None:
        Cm = None
        rPr = (r0 * r0).sum(-2)
        Mfull = S.Af
    else:
        Pinv = pc["Pinv"].expand(*B, n, n)
        Cm = torch.linalg.cholesky(Pinv)
        rPr = (r0 * (Pinv @ r0)).sum(-2)
        Mfull = _sym(Cm.transpose(-1, -2) @ S.Af @ Cm)
    lamM, VM = torch.linalg.eigh(Mfull)
    rz = []  # r_i^T P^-1 r_i of the true residuals of the sweep iterates
    for x in its:
        rj = S.b - S.Af @ x
        rz.append(((rj * rj) if pc["Pinv"] is None else (rj * (Pinv @ rj))).sum(-2).clamp_min(1e-300))
    zhat = r0 if Cm is None else Cm.transpose(-1, -2) @ r0
    comp = VM.transpose(-1, -2) @ zhat  # (*B, n, t) components in the eigenbasis of M
    wts = comp**2 / (comp**2).sum(-2, keepdim=True).clamp_min(1e-300)
    Ginv = (wts / lamM.unsqueeze(-1)).sum(-2)
    Glog = (wts * lamM.log().unsqueeze(-1)).sum(-2)
    Lscale = torch.maximum(lamM[..., 0].log().abs(), lamM[..., -1].log().abs()).clamp_min(1.0).unsqueeze(-1)
    nclean_hist = []
    flatB = [()] if not B else [tuple(ix) for ix in torch.cartesian_prod(*[torch.arange(bs) for bs in B]).reshape(-1, len(B)).tolist()]
    for bi in flatB:
        for c in range(nt):
            ix = bi + (c,)
            if bool(S.iszero[ix]):
                continue
            k = 0
            while k < m:
                thr = C_FLOOR * float(Bd.thr_r[bi + (0,)]) + 2.0 * float(Bd.D_r(k)[ix])
                if not float(rel[k][ix]) > thr:
                    break
                k += 1
            nclean_hist.append(k)
            if k == 0:
                continue
            Tk = T64[(c,) + bi][:k, :k]
            lmM, lMM = float(Bd.lmM[bi + (0,)]), float(Bd.lMM[bi + (0,)])
            kM, kP = float(Bd.kM[bi + (0,)]), float(Bd.kP[bi + (0,)])
            # growth factor G of the rounding errors in the rows used (rho_i^2 = r_i^T P^-1 r_i, within a factor 2 of the
            # routine's own recursive values because row i is only used when ||r_i|| > 2 D_r(i)):
            #  * r_i is formed by cancellation from vectors of size rho_{i-1}: relative error u rho_{i-1}/rho_i in alpha_i, beta_{i-1}
            #  * 1/alpha_i = d_i^T A d_i with d_i = p_i/rho_i = v_i + sqrt(beta_{i-1}) d_{i-1}, |d_i|^2 = sum_{l<=i} rho_i^2/rho_l^2
            #    (large when the residual norm *grows*, which CG allows): absolute error u lmax |d_i|^2 in T_ii
            rho2 = [float(rz[i][ix]) for i in range(k)]
            G = 1.0
            for i in range(k):
                G = max(G, sum(rho2[i] / rho2[l] for l in range(i + 1)))
                if i > 0:
                    G = max(G, math.sqrt(rho2[i - 1] / rho2[i]))
            G *= 4.0
            fp = C_FP * (n + k) * S.u * kP * G
            where = "column %d batch %s leading %d of %d rows; %s" % (c, bi, k, m, desc)
            th, Sv = torch.linalg.eigh(Tk)
            if Bd.dom_ok:
                tolr = fp * lMM
                lo_ex, hi_ex = (lmM - float(th[0])) / tolr, (float(th[-1]) - lMM) / tolr
                _ratio("ritz", torch.tensor(max(lo_ex, hi_ex, 0.0)), torch.tensor(1.0))
                if lo_ex > 1.0 or hi_ex > 1.0:
                    _fail("tridiag", "ritz", "value", "Ritz values [%.6g, %.6g] outside the spectrum [%.6g, %.6g] of the preconditioned operator (tol %.3g); %s" % (float(th[0]), float(th[-1]), lmM, lMM, tolr, where))
            if float(th[0]) <= 0:
                if Bd.dom_ok:
                    _fail("tridiag", "ritz", "value", "leading block of T not positive definite (min eig %.4g); %s" % (float(th[0]), where))
                continue
            if not Bd.dom_ok:
                continue
            w1 = Sv[0, :] ** 2
            q_inv = float((w1 / th).sum())
            q_log = float((w1 * th.log()).sum())
            rp = float(rPr[ix])
            e0, ek, er = float(e[0][ix]), float(e[k][ix]), float(Bd.e_ref[ix])
            dA = float((Bd.beta * Bd.D_r(k) / S.lmin.sqrt())[ix])
            slack_e = (2 * (e0 + ek) * er + 2 * er * er + 2 * ek * dA + dA * dA) / rp
            want_inv = (e0 * e0 - ek * ek) / rp
            tol_inv = fp * kM * float(Ginv[ix]) + slack_e
            _ratio("quad_inv", torch.tensor(abs(q_inv - want_inv)), torch.tensor(tol_inv))
            if not abs(q_inv - want_inv) <= tol_inv:
                _fail("tridiag", "quadrature-inv", "value", "e1^T T^-1 e1 = %.10g but (e_0^2 - e_k^2)/(r0^T P^-1 r0) = %.10g (z^T M^-1 z = %.10g, tol %.3g); %s" % (q_inv, want_inv, float(Ginv[ix]), tol_inv, where))
            gauss = lMM * (1 + Bd.dom.max().item()) / (2.0 * k) * (ek + dA + er) ** 2 / rp
            tol_log = gauss + fp * kM * float(Lscale[bi + (0,)])
            _ratio("quad_log", torch.tensor(abs(q_log - float(Glog[ix]))), torch.tensor(tol_log))
            if not abs(q_log - float(Glog[ix])) <= tol_log:
                _fail("tridiag", "quadrature-log", "value", "e1^T log(T) e1 = %.10g but z^T log(M) z = %.10g (Gauss remainder bound %.3g, tol %.3g); %s" % (q_log, float(Glog[ix]), gauss, tol_log, where))
            if ek <= 1e-6 * e0:
                labels.append("quad:full_dimension")
    if nclean_hist:
        labels.append("clean_rows:%s" % ("all" if min(nclean_hist) == m else "some" if max(nclean_hist) > 0 else "none"))


# ---------------------------------------------------------------------------------------------------------------
# family: error  -> (ix) NaNs / inconsistent iteration limits raise instead of returning
# ---------------------------------------------------------------------------------------------------------------
def _fam_error(S, case, labels):
    kind = case["err"]
    args = dict(case["args"])
    pc = S.pc0
    labels.append("err:" + kind)
    A_lib, b_lib, cell = S.A_lib, S.b_lib, {}
    if kind == "nan_A":
        A_lib = S.A_lib.clone()
        A_lib.view(-1)[case["pos"] % A_lib.numel()] = float("nan")
        args["max_tridiag_iter"] = min(20, args["max_iter"])
    elif kind == "nan_rhs":
        b_lib = S.b_lib.clone()
        b_lib.view(-1)[case["pos"] % b_lib.numel()] = float("nan")
        args["max_tridiag_iter"] = min(20, args["max_iter"])
    elif kind == "limits":
        args["max_tridiag_iter"] = args["max_iter"] + 1 + case["pos"] % 5
    elif kind == "limits_default":
        # max_tridiag_iter defaults to settings.max_lanczos_quadrature_iterations
        cell = {"max_lanczos_quadrature_iterations": args["max_iter"] + 1 + case["pos"] % 5}
    else:
        raise HarnessError("unknown error kind %r" % kind)
    if case.get("flags"):
        # the statement is unconditional: NaNs and inconsistent limits raise whatever other global settings are active
        cell = dict(cell, **case["flags"])
        labels.append("flags:" + ",".join(sorted(case["flags"])))
    desc = _brief(S, pc, args) + " settings=%s" % cell
    out = _run(S, pc, args, b_lib=b_lib, A_lib=A_lib, settings=cell, what="raises", expect_raise=True)
    if out["raised"] is None:
        res = out["out"][0] if isinstance(out["out"], tuple) else out["out"]
        nn = int(torch.isnan(res).sum()) if torch.is_tensor(res) else -1
        _fail("raises", kind, "returned", "linear_cg returned (result has %d NaN entries) instead of raising; %s" % (nn, desc))
    labels.append("raised:" + type(out["raised"]).__name__)


# ---------------------------------------------------------------------------------------------------------------
# check
# ---------------------------------------------------------------------------------------------------------------
def check(case):
    fam = case["fam"]
    S = _system(case)
    S.pc0 = _precond(S, case["pre"]["kind"], case["pre"])
    labels = ["fam:" + fam, "dtype:" + S.dtn, "pre:" + case["pre"]["kind"], "family:" + case["spec"]["family"]]
    kA = float((S.lamA[..., -1] / S.lamA[..., 0]).max())
    labels.append("kappa:1e%d" % round(math.log10(max(kA, 1.0))))
    labels.append("n:%s" % ("1" if S.n == 1 else "2-3" if S.n <= 3 else "4-12" if S.n <= 12 else "13-32" if S.n <= 32 else "33-64"))
    labels.append("batch:%s" % ("none" if not S.bshape else "A=rhs" if list(case["spec"]["batch"]) == list(case["rhs"]["batch"]) else "broadcast"))
    labels.append("cols:%d" % S.t)
    if S.vector:
        labels.append("rhs:vector")
    for k in sorted(set(case["rhs"]["kinds"])):
        labels.append("col:" + k)
    labels.append("x0:%s" % ("given" if S.x0 is not None else "default"))
    a = case.get("args", {})
    labels.append("eps:%s" % ("default" if a.get("eps") is None else "%g" % a["eps"]))
    labels.append("sua:%s" % ("default" if a.get("sua") is None else "%g" % a["sua"]))
    FAMILIES[fam](S, case, labels)
    special = any(k in ("zero", "tiny", "huge") for k in case["rhs"]["kinds"])
    nontrivial = (kA >= 9.99 and S.n >= 4) or special or case["pre"]["kind"] != "none" or a.get("n_tridiag", 0) > 0 or fam == "error"
    sample = {k: case[k] for k in ("fam", "dt", "pre", "args") if k in case}
    sample["spec"] = {k: case["spec"][k] for k in ("n", "batch", "family", "kappa", "lmax")}
    sample["rhs"] = {k: case["rhs"][k] for k in ("batch", "t", "kinds", "vector")}
    return {"nontrivial": bool(nontrivial), "key": case, "labels": labels, "sample": sample}


FAMILIES = {"sweep": _fam_sweep, "conv": _fam_conv, "scale": _fam_scale, "tridiag": _fam_tridiag, "error": _fam_error}


def _trig_tridiag_max_iter_1(case):
    a = case.get("args", {})
    return case.get("fam") == "tridiag" and a.get("n_tridiag", 0) > 0 and a.get("max_iter") == 1 and a.get("tolerance") != 0.0


TRIGGERS = {"tridiag_max_iter_1": _trig_tridiag_max_iter_1}

# sensitivity protocol (DESIGN 1.5): scratch-copy edits of linear_operator/utils/linear_cg.py and the sub-check that kills them
MUTANTS = [
    ("drop `alpha.masked_fill_(has_converged, 0)` (no-precond jit kernel)", "killed: frozen", "corpus/C08/mut_no_freeze_mask_noprecond.json"),
    ("drop `alpha.masked_fill_(has_converged, 0)` (preconditioned branch)", "killed: frozen (+ tridiag ritz)", "corpus/C08/mut_no_freeze_mask_precond.json"),
    ("`result.mul(rhs_norm)` dropped", "killed: chebyshev, residual, scaling", "corpus/C08/mut_no_unnormalise.json"),
    ("`prev_beta.sqrt_()` -> `prev_beta` in t_mat", "killed: tridiag quadrature-inv / ritz", "corpus/C08/mut_tridiag_no_sqrt.json"),
    ("r^T r instead of r^T z in residual_inner_prod", "killed: chebyshev, precond_limit", "corpus/C08/mut_precond_inner_product.json"),
    ("stop on residual_norm.min() instead of .mean() (extra)", "killed: residual", "corpus/C08/mut_stop_on_min_residual.json"),
    (
        "`residual_norm.masked_fill_(rhs_is_zero, 0)` dropped",
        "survives: with the default zero guess a zero column has residual 0 anyway; the mask only changes (a) zero/sub-eps columns "
        "combined with a non-zero initial guess (outside the statement) and (b) when the warning is raised (constrained in one direction only)",
        None,
    ),
]


def gaps(labels):
    want = (
        ["fam:" + f for f in sorted(set(FAMS))]
        + ["pre:" + k for k in sorted(set(PRECONDS))]
        + ["col:" + k for k in sorted(set(COLKINDS))]
        + ["dtype:f32", "dtype:f64", "x0:given", "batch:broadcast", "batch:A=rhs", "rhs:vector"]
        + ["kappa:1e%d" % d for d in (0, 1, 2, 4, 6)]
        + ["family:" + f for f in ("uniform", "two_clusters", "geometric", "one_outlier")]
        + ["err:" + e for e in ("nan_A", "nan_rhs", "limits", "limits_default")]
        + ["by_size:True", "warned:True", "warned:False", "frozen:certified", "clean_rows:all", "quad:full_dimension", "alpha:pow2", "alpha:general"]
    )
    return sorted("never generated / reached: " + w for w in want if not labels.get(w))
