"""C09 -- Lanczos returns an orthonormal basis and the projected tridiagonal (DESIGN section 4, C09).

Code under test: `linear_operator.utils.lanczos.lanczos_tridiag` called directly, and through its consumers
`root_decomposition(method="lanczos")`, `root_inv_decomposition(method="lanczos", initial_vectors, test_vectors)`,
`diagonalization(method="lanczos")` (the `(Q, T)` a consumer really used is recorded by wrapping the module attribute
`linear_operator.utils.lanczos.lanczos_tridiag`, so the tridiagonalisation checks run on library-random start vectors
too and the post-processing is compared with the `(Q, T)` it was given).

Tolerances (everything is derived from what the routine does; `u` unit round-off of the operator dtype, `nrm` the
spectral norm of the matrix the library received, `tol = 1e-5` the routine's re-orthogonalisation threshold, `1e-6`
its break-down threshold on the off-diagonal `beta`):

* `unit_columns`   every column is divided by its norm as the last operation   -> | |q|^2 - 1 | <= 64 n u, always.
* `orthonormal`    step 0 has no re-orthogonalisation (inner product ~ n u nrm / beta_0), later steps get one full
                   Gram-Schmidt pass plus further passes only while some *signed* inner product exceeds `tol`.  Hence the
                   routine promises  |q_i.q_j| <= B := max(tol, 4 n u nrm / beta_min)  with beta_min the smallest returned
                   off-diagonal above the break-down threshold; errors compound like B^2 nrm/beta, so the bound is only
                   claimed while 4 n u (nrm/beta_min)^2 <= 1/2 ("regular" member), otherwise the member is "near
                   break-down" and only finiteness / structure / unit columns are checked (labelled, never counted as
                   non-trivial).  An off-diagonal <= 1e-6 is a break-down *by the routine's own test*: it earns no
                   relaxation (the property demands an orthonormal basis for every batch member).
* `projection`     Q^T A Q - T = (Q^T Q - I) T + Q^T r e_k^T + rounding, T tridiagonal  -> (4 B + 64 n u) nrm per entry.
* `residual`       column j of A Q - Q T (j < k-1) is exactly the removed Gram-Schmidt correction Q Q^T r
                   -> (4 sqrt(k) B + 64 n u) nrm per entry.
* `iterations`     the loop leaves early only when *all* betas are <= 1e-6 or re-orthogonalisation failed; if a
                   reference Lanczos (own implementation, run in float64 and in the operator dtype) has all betas above
                   max(2e-5, H nrm, 32 tol nrm) (H = 3e-3 / 1e-6 for f32 / f64; the tolerated loss of orthogonality `tol`
                   perturbs the next beta by up to tol nrm) the routine must run min(max_iter, n) steps; if the
                   float64 reference breaks down exactly (beta <= 1e-12 nrm) at dimension d the routine must return k = d.
* `invariant`      returned k < min(max_iter, n) (single member) or k = d: Q T Q^T v = A v for v in span(Q)
                   -> 1e-6 + (6 sqrt(k) B + 64 n u) nrm;   k = n: Q T Q^T = A up to k (10 B + 64 n u) nrm.
* consumers, white box: R R^T (resp. evecs diag(evals) evecs^T) = Q (T + j I)_+ Q^T with j = tridiagonal_jitter *
  min diag T, (.)_+ dropping negative Ritz values -> 64 k^1.5 u nrm (backward error of eigh on T); inverse root
  Q (T + j I)^-1 Q^T -> 64 k^1.5 u cond(T) / lambda_min(T), skipped when 64 k^1.5 u cond(T) > 0.05.
* consumers, black box (regular members only): with P an orthonormal basis of span(R):  R R^T = P (P^T A P) P^T up to
  (jitter + thr + 4u/thr + 12 k B + 128 k n u) nrm; equality with A at (jitter + 14 k B + 128 k n u) nrm when the Krylov
  space is the whole space; inverse root (positive definite A, cond <= 1e2 / 1e4): |R^T A R - I| <=
  2 cond (jitter + k (4 B + 64 n u) + 64 k^1.5 u).

Violation signatures: `C09|<sub-check>|<operation>|<symptom>`; the sub-checks on a returned (Q, T) -- shape, iterations,
finite, symmetric, tridiagonal, unit_columns, orthonormal, projection, residual, invariant -- and exceptions escaping
`lanczos_tridiag` itself carry the operation `lanczos_tridiag` whichever entry point drove them (one bucket per root
cause); consumer-level sub-checks -- call, budget, shape, finite, postprocess, compression, reconstruction, ritz,
probe_choice -- carry `root` / `root_inv` / `diag`.

Generator-side exclusion (DESIGN 1.6.4): for every *open* C09 entry of known_findings.json with a `trigger` in TRIGGERS the
strategy avoids the trigger by construction (max_iter >= 2; no kappa = 1 spectra and no start vector whose first residual
is at break-down level; multi-member cases that are neither healthy throughout nor a joint exact break-down are reduced to
their first member; consumers are not given batch shapes with a leading 1 that would be dropped; diagonalization runs with
tridiagonal_jitter(0)).  With no open entry everything is generated.
"""
import math
from unittest import mock

import torch
from hypothesis import assume
from hypothesis import strategies as st

from lov import exc as X
from lov import spd, state
from lov.core import HarnessError, Violation, sha

ID = "C09"
RULE = (
    "case = (symmetric PSD matrix from a spectrum family with known eigenvalues [full rank / rank deficient / repeated / "
    "(scaled) identity; dense through <= 3 Householder reflectors or exactly diagonal], n in 2..64 (quick: 85% <= 12), batch "
    "shape, dtype f32/f64, max_iter in 1..n+2, start vectors: library-random, or supplied as coefficients in the eigenbasis "
    "(so the Krylov dimension is known) or raw grid vectors, 1..3 columns; target: lanczos_tridiag directly or one of the three "
    "consumers with max_root_decomposition_size = max_iter). Non-trivial: at least one member is in the regular regime (so the "
    "value oracles are in force) AND (max_iter < n OR break-down [Krylov dimension < min(max_iter, n)] OR batch OR several start "
    "vectors). Distinct by hash of the whole case."
)
BUDGET = {"quick": 600, "thorough": 3000}
ASSUMPTIONS = [
    "start vectors are non-zero; n >= 2 (n = 1 is outside the quantifier)",
    "the routine's `tol` argument is left at its default 1e-5 (the consumers cannot change it)",
    "near-break-down members (4 n u (nrm/beta_min)^2 > 1/2) are only checked for finiteness, structure and unit columns",
    "inverse roots are value-checked only for positive definite matrices with cond <= 1e2 (f32) / 1e4 (f64)",
    "the reference Lanczos (own implementation, float64 and operator dtype) only classifies cases (healthy / break-down); it is never a value oracle",
    "consumers: tridiagonal_jitter in {default 1e-6, 1e-3, 0}; max_root_decomposition_size = max_iter",
    "1-D initial_vectors (accepted by root_inv_decomposition's validation, rejected inside lanczos_tridiag) are not generated",
]
WALL_GUARD = {"quick": 600, "thorough": 3000}

TOL_REORTH = 1e-5  # default `tol` of lanczos_tridiag
BRK = 1e-6  # the routine's break-down threshold on beta
U = {"f32": 2.0**-24, "f64": 2.0**-53}
DT = {"f32": torch.float32, "f64": torch.float64}
H_OK = {"f32": 3e-3, "f64": 1e-6}
F64 = torch.float64

TARGETS = ["tridiag"] * 10 + ["root"] * 4 + ["root_inv"] * 5 + ["diag"] * 2
BATCHES = [(), (), (), (), (2,), (2,), (3,), (1,), (2, 1), (1, 2), (1, 1)]

_RATIO = {}  # largest observed error / bound per sub-check and dtype (evidence only)


_PENDING = []  # ratios of the case being checked; merged into _RATIO only when the case passes


def _rec(name, dtn, value, bound):
    if bound > 0:
        _PENDING.append(("%s/%s" % (name, dtn), value / bound))


# ------------------------------------------------------------------------------------------------
# known findings -> generator-side exclusion
# ------------------------------------------------------------------------------------------------
def _open_triggers():
    from lov.findings import load

    out = set()
    for e in load():
        if e.get("property") == ID and e.get("status", "open") == "open" and e.get("trigger"):
            out.add(e["trigger"])
    return out


# ------------------------------------------------------------------------------------------------
# small helpers
# ------------------------------------------------------------------------------------------------
def _prod(xs):
    p = 1
    for x in xs:
        p *= x
    return p


def _nest(flat, shape):
    if not shape:
        return flat[0]
    if len(shape) == 1:
        return list(flat[: shape[0]])
    step = _prod(shape[1:])
    return [_nest(flat[i * step : (i + 1) * step], shape[1:]) for i in range(shape[0])]


def _batch_of(case):
    return tuple(case["spec"].get("batch", ()))


def _ncols(case):
    init = case.get("init")
    if init is None:
        return int(case.get("ncols", 1))
    n = case["spec"]["n"]
    c = torch.tensor(init["c"], dtype=F64)
    return int(c.reshape(*_batch_of(case), n, -1).shape[-1])


def materialise(case):
    """-> (A_lib [dtype], Aref [f64 value of what the library sees], V_lib or None, w, Qe)."""
    spec = case["spec"]
    dt = DT[case["dt"]]
    A64, w, Qe = spd.build(spec)
    A_lib = A64.to(dt)
    Aref = A_lib.to(F64)
    V_lib = None
    init = case.get("init")
    if init is not None:
        n = spec["n"]
        c = torch.tensor(init["c"], dtype=F64).reshape(*_batch_of(case), n, -1)
        V64 = Qe @ c if init["basis"] == "eig" else c
        V_lib = V64.to(dt)
    return A_lib, Aref, V_lib, w, Qe


def _library_random_start(case, n, m, dt):
    """The vector torch.randn will hand to the routine for this case (the runner seeds torch with case_seed(case))."""
    g = torch.Generator()
    g.manual_seed(state.case_seed(case))
    return torch.randn(n, m, dtype=dt, generator=g)


# ------------------------------------------------------------------------------------------------
# reference Lanczos (classification only: which members break down where) -- never used as a value oracle
# ------------------------------------------------------------------------------------------------
def _ref_betas(A, v, steps, dt, nrm, n):
    """betas beta_0.. of a Lanczos run with two full Gram-Schmidt passes per step, in dtype dt; stops at a hard break-down."""
    A = A.to(dt)
    q = v.to(dt)
    nv = float(q.norm())
    if not nv > 0:
        return []
    q = q / nv
    Qs = [q]
    betas = []
    hard = 16.0 * n * (2.0**-24 if dt == torch.float32 else 2.0**-53) * nrm
    for j in range(max(0, steps - 1)):
        r = A @ q
        a = torch.dot(q, r)
        r = r - a * q
        if j > 0:
            r = r - betas[-1] * Qs[-2]
        Qm = torch.stack(Qs, 1)
        for _ in range(2):
            r = r - Qm @ (Qm.T @ r)
        b = float(r.norm())
        betas.append(b)
        if not b > hard:
            break
        q = r / b
        Qs.append(q)
    return betas


_ANALYSIS_CACHE = {}


def analyse(case):
    """Classification of the case by an independent Lanczos run (float64 and operator dtype) per member."""
    key = sha(case)
    if key in _ANALYSIS_CACHE:
        return _ANALYSIS_CACHE[key]
    A_lib, Aref, V_lib, w, Qe = materialise(case)
    n = case["spec"]["n"]
    dtn = case["dt"]
    dt = DT[dtn]
    u = U[dtn]
    batch = _batch_of(case)
    num_iter = min(int(case["max_iter"]), n)
    if V_lib is None:
        m = int(case.get("ncols", 1))
        V = _library_random_start(case, n, m, dt).to(F64).expand(*batch, n, m)
    else:
        V = V_lib.to(F64)
        m = V.shape[-1]
    Af = Aref.reshape(-1, n, n)
    Vf = V.reshape(-1, n, m)
    members = []
    for ci in range(m):
        for bi in range(Af.shape[0]):
            nrm = float(torch.linalg.eigvalsh(Af[bi]).abs().max())
            b64 = _ref_betas(Af[bi], Vf[bi, :, ci], num_iter, F64, nrm, n)
            bdt = b64 if dt == F64 else _ref_betas(Af[bi], Vf[bi, :, ci], num_iter, dt, nrm, n)
            bet = []
            for j in range(max(0, num_iter - 1)):
                x = b64[j] if j < len(b64) else 0.0
                y = bdt[j] if j < len(bdt) else 0.0
                bet.append(min(x, y))
            thr_brk = 4e-6 + 256.0 * n * u * nrm
            # (the routine tolerates |q_i.q_j| up to tol = 1e-5, which perturbs the NEXT beta by up to tol * nrm and compounds
            #  over consecutive small betas: a count is only predictable when every beta stays well above that)
            thr_ok = max(2e-5, H_OK[dtn] * nrm, 32.0 * 1e-5 * nrm)
            healthy = all(b >= thr_ok for b in bet) and nrm > 0
            brk = next((j for j, b in enumerate(bet) if b <= thr_brk), None)
            exact_d = None
            if brk is not None and brk < len(b64) and b64[brk] <= 1e-12 * nrm and all(b >= thr_ok for b in bet[:brk]):
                exact_d = brk + 1
            members.append({"col": ci, "b": bi, "nrm": nrm, "beta": bet, "healthy": healthy, "brk": brk, "exact_d": exact_d})
    multi = len(members) > 1
    all_healthy = all(mb["healthy"] for mb in members)
    ds = {mb["exact_d"] for mb in members}
    joint_d = None
    if len(ds) == 1 and None not in ds and dtn == "f64":
        joint_d = ds.pop()
    first_step = num_iter >= 2 and any(mb["beta"] and mb["beta"][0] <= 4e-6 + 256.0 * n * u * mb["nrm"] for mb in members)
    zero_matrix = any(not mb["nrm"] > 0 for mb in members)
    mixed = multi and num_iter >= 3 and not all_healthy and (joint_d is None or joint_d < 2)
    res = {
        "num_iter": num_iter,
        "members": members,
        "multi": multi,
        "all_healthy": all_healthy,
        "joint_d": joint_d,
        "first_step": first_step or zero_matrix,
        "mixed": mixed,
        "m": m,
    }
    if len(_ANALYSIS_CACHE) > 64:
        _ANALYSIS_CACHE.clear()
    _ANALYSIS_CACHE[key] = res
    return res


# ------------------------------------------------------------------------------------------------
# triggers (predicates over the generated case)
# ------------------------------------------------------------------------------------------------
def _t_max_iter_1(case):
    return int(case["max_iter"]) == 1


def _t_first_step(case):
    return int(case["max_iter"]) >= 2 and analyse(case)["first_step"]


def _t_mixed(case):
    return int(case["max_iter"]) >= 3 and analyse(case)["mixed"]


def _t_unit_batch(case):
    b = _batch_of(case)
    # one start column: RootDecomposition / Diagonalization take a leading batch dim of size 1 for the probe dim;
    # several columns: _postprocess_lanczos_root_inv_decomp squeezes dim 0 after selecting the best probe
    if case["target"] == "diag" and not b and min(int(case["max_iter"]), case["spec"]["n"]) == 1:
        return True  # same unconditional squeeze(0) removes the k = 1 dimension of the eigenvalues (visible once max_iter = 1 works)
    return case["target"] != "tridiag" and len(b) >= 1 and b[0] == 1 and (len(b) >= 2 or _ncols(case) > 1)


def _jitter(case):
    j = case.get("jitter")
    return 1e-6 if j is None else float(j)


def _t_diag_jitter(case):
    return case["target"] == "diag" and _jitter(case) != 0.0 and min(int(case["max_iter"]), case["spec"]["n"]) >= 2


TRIGGERS = {
    "diag_jitter_all_entries": _t_diag_jitter,
    "max_iter_1": _t_max_iter_1,
    "first_step_breakdown": _t_first_step,
    "mixed_breakdown_batch": _t_mixed,
    "leading_unit_batch_consumer": _t_unit_batch,
}


# ------------------------------------------------------------------------------------------------
# strategy
# ------------------------------------------------------------------------------------------------
def _sizes(tier):
    if tier == "quick":
        buckets = [(2, 6)] * 9 + [(7, 12)] * 8 + [(13, 32)] * 2 + [(33, 64)] * 1
    else:
        buckets = [(2, 6)] * 6 + [(7, 12)] * 7 + [(13, 32)] * 5 + [(33, 64)] * 2
    return st.sampled_from(buckets).flatmap(lambda b: st.integers(b[0], b[1]))


VALS = [-2.0, -1.5, -1.0, -0.5, 0.5, 1.0, 1.5, 2.0, 3.0]


def _first_member(case):
    """Single-member restriction of a case (first batch member, first start column)."""
    spec = dict(case["spec"])
    batch = tuple(spec.get("batch", ()))

    def first(x, depth):
        for _ in range(depth):
            x = x[0]
        return x

    if batch:
        if spec["vs"]:
            spec["vs"] = first(spec["vs"], len(batch))
        if "w" in spec:
            spec["w"] = first(spec["w"], len(batch))
        spec["batch"] = []
    out = dict(case)
    out["spec"] = spec
    if case.get("init") is not None:
        c = first(case["init"]["c"], len(batch))
        out["init"] = {"basis": case["init"]["basis"], "c": [[row[0]] for row in c]}
    else:
        out["ncols"] = 1
    if case.get("tv") is not None:
        out["tv"] = first(case["tv"], len(batch))
    return out


@st.composite
def cases(draw, tier):
    open_ = _open_triggers()
    dtn = draw(st.sampled_from(["f64", "f64", "f64", "f32", "f32"]))
    n = draw(_sizes(tier))
    target = draw(st.sampled_from(TARGETS))
    batches = BATCHES if n <= 16 else [(), (), (2,)]
    if target != "tridiag" and "leading_unit_batch_consumer" in open_:
        batches = [b for b in batches if not (len(b) >= 1 and b[0] == 1)] + [(1,)] * (target != "root_inv")
    batch = draw(st.sampled_from(batches))
    cnt = _prod(batch)
    kappas = list(spd.KAPPAS)
    if "first_step_breakdown" in open_:
        kappas = kappas[1:]  # kappa = 1 is a (numerically) scaled identity: every start vector is an eigenvector
    spec = draw(spd.specs(min_n=n, max_n=n, batches=[batch], kappas=kappas, psd=True, max_reflectors=3))
    allow_mixed = "mixed_breakdown_batch" not in open_
    if batch and allow_mixed and draw(st.booleans()):
        # members with different spectra (hence different Krylov dimensions)
        ws = []
        for _ in range(cnt):
            fam = draw(st.sampled_from(spd.FAMILIES))
            kap = draw(st.sampled_from(kappas))
            wi = spd.spectrum(fam, n, kap, spec["lmax"])
            if draw(st.booleans()):
                rk = draw(st.integers(1, n - 1))
                wi = wi[:rk] + [0.0] * (n - rk)
            ws.append(wi)
        spec["w"] = _nest(ws, list(batch))
        spec.pop("rank", None)
    lo = 2 if "max_iter_1" in open_ else 1
    mi = draw(
        st.one_of(
            st.integers(lo, n + 2),
            st.sampled_from([n, n, n + 1, n + 2, max(lo, n - 1), max(lo, n // 2), max(lo, 2), max(lo, 3)]),
        )
    )
    mi = min(mi, n + 2)
    if mi == 1 and target == "diag" and not batch and "leading_unit_batch_consumer" in open_:
        mi = 2
    case = {"spec": spec, "dt": dtn, "max_iter": mi, "target": target}
    # start vectors
    if target in ("root", "diag"):
        kind, m = "random", 1
    elif target == "root_inv":
        kind = draw(st.sampled_from(["random", "eig", "eig", "std"]))
        m = 1 if kind == "random" else draw(st.sampled_from([1, 1, 2, 3]))
    else:
        kind = draw(st.sampled_from(["random", "eig", "eig", "eig", "std"]))
        m = draw(st.sampled_from([1, 1, 1, 2, 3])) if n <= 16 else 1
    if kind == "random":
        case["init"] = None
        case["ncols"] = m
    else:
        shared_mask = (not allow_mixed) or draw(st.booleans())
        full = draw(st.integers(0, 2)) > 0

        def mask():
            if full:
                return list(range(n))
            s = draw(st.integers(1, n))
            return draw(st.lists(st.integers(0, n - 1), min_size=s, max_size=s, unique=True))

        mk0 = mask()
        members = []
        for _ in range(cnt):
            cols = []
            for _ in range(m):
                mk = mk0 if shared_mask else mask()
                vals = draw(st.lists(st.sampled_from(VALS), min_size=len(mk), max_size=len(mk)))
                col = [0.0] * n
                for i, x in zip(mk, vals):
                    col[i] = x
                cols.append(col)
            members.append([[cols[c][i] for c in range(m)] for i in range(n)])  # (n, m)
        c = _nest(members, list(batch)) if batch else members[0]
        case["init"] = {"basis": kind, "c": c}
    if target == "root_inv" and (m > 1 or (kind != "random" and draw(st.booleans()))):
        t = draw(st.sampled_from([1, 2, 2, 3]))  # (several test vectors x several probes: the probe-selection layout)
        tvs = []
        for _ in range(cnt):
            vals = draw(st.lists(st.sampled_from(VALS), min_size=n * t, max_size=n * t))
            tvs.append(_nest(vals, [n, t]))
        case["tv"] = _nest(tvs, list(batch)) if batch else tvs[0]
    else:
        case["tv"] = None
    if target == "root" and draw(st.integers(0, 2)) == 0:
        case["via_root_inv"] = True
    case["jitter"] = None
    if target != "tridiag":
        case["jitter"] = draw(st.sampled_from([None, None, None, 1e-3, 0.0]))
        if target == "diag" and "diag_jitter_all_entries" in open_:
            case["jitter"] = 0.0  # normalise the triggering feature away: with zero jitter both readings coincide
    # generator-side exclusion of open findings (DESIGN 1.6.4)
    if "mixed_breakdown_batch" in open_ and _t_mixed(case):
        case = _first_member(case)
    if "first_step_breakdown" in open_:
        assume(not _t_first_step(case))
    if "leading_unit_batch_consumer" in open_:
        assume(not _t_unit_batch(case))
    return case


def strategy(tier):
    return cases(tier)


# ------------------------------------------------------------------------------------------------
# oracle on (Q, T)
# ------------------------------------------------------------------------------------------------
def _fail(check, target, symptom, detail):
    raise Violation("C09|%s|%s|%s" % (check, target, symptom), detail)


def _call_fail(e, target, detail):
    """An exception escaping lanczos_tridiag itself is one bucket whichever consumer drove it."""
    fr = X.innermost_lo_frame(e)
    op = "lanczos_tridiag" if fr and fr[1] == "lanczos_tridiag" else target
    _fail("call", op, "exc:" + X.describe(e), detail)


def _flatten(Q, T, Aref, m, batch, n):
    """-> Qf (M, n, k), Tf (M, k, k), Af (M, n, n), member order (col, batch) like analyse()."""
    k = Q.shape[-1]
    nb = _prod(batch)
    Af = Aref.reshape(nb, n, n)
    if m > 1:
        Qf = Q.reshape(m * nb, n, k)
        Tf = T.reshape(m * nb, k, k)
        Af = Af.unsqueeze(0).expand(m, nb, n, n).reshape(m * nb, n, n)
    else:
        Qf = Q.reshape(nb, n, k)
        Tf = T.reshape(nb, k, k)
    return Qf, Tf, Af


def check_tridiag(Q, T, Aref, case, target, an, labels):
    """All sub-checks on a returned (Q, T).  Returns per-member info (bound B, regime, jitter basis)."""
    n = case["spec"]["n"]
    dtn = case["dt"]
    u = U[dtn]
    batch = _batch_of(case)
    m = an["m"]
    num_iter = an["num_iter"]
    lead = ((m,) if m > 1 else ()) + batch
    # ---- shape / dtype / count ------------------------------------------------------------------
    if Q.dim() != len(lead) + 2 or T.dim() != len(lead) + 2:
        _fail("shape", target, "shape", "Q %s / T %s for lead shape %s" % (tuple(Q.shape), tuple(T.shape), lead))
    k = Q.shape[-1]
    if tuple(Q.shape) != lead + (n, k) or tuple(T.shape) != lead + (k, k):
        _fail("shape", target, "shape", "Q %s, T %s; expected %s and %s" % (tuple(Q.shape), tuple(T.shape), lead + (n, k), lead + (k, k)))
    if Q.dtype != DT[dtn] or T.dtype != DT[dtn]:
        _fail("shape", target, "dtype", "Q %s T %s for operator dtype %s" % (Q.dtype, T.dtype, dtn))
    if not (1 <= k <= num_iter):
        _fail("iterations", target, "count", "k=%d columns returned for max_iter=%d n=%d" % (k, case["max_iter"], n))
    # ---- finite ---------------------------------------------------------------------------------
    if not (bool(torch.isfinite(Q).all()) and bool(torch.isfinite(T).all())):
        _fail("finite", target, "nan", "non-finite entries in Q (%d) / T (%d); k=%d" % (int((~torch.isfinite(Q)).sum()), int((~torch.isfinite(T)).sum()), k))
    Qf, Tf, Af = _flatten(Q.to(F64), T.to(F64), Aref, m, batch, n)
    M = Qf.shape[0]
    # ---- T symmetric tridiagonal (exact: entries are copies) --------------------------------------
    if k > 1:
        if not torch.equal(Tf, Tf.transpose(-1, -2)):
            _fail("symmetric", target, "value", "T != T^T, max |T - T^T| = %.3g" % float((Tf - Tf.transpose(-1, -2)).abs().max()))
        band = torch.ones(k, k, dtype=torch.bool).tril(1).triu(-1)
        if bool((Tf[:, ~band] != 0).any()):
            _fail("tridiagonal", target, "value", "non-zero entries outside the three diagonals")
    eye = torch.eye(k, dtype=F64)
    G = Qf.transpose(-1, -2) @ Qf
    AQ = Af @ Qf
    P = Qf.transpose(-1, -2) @ AQ - Tf
    Rs = AQ - Qf @ Tf
    infos = []
    expect_k = None
    if an["all_healthy"]:
        expect_k = num_iter
    elif an["joint_d"] is not None and an["joint_d"] >= 2:
        expect_k = min(an["joint_d"], num_iter)
    if expect_k is not None and k != expect_k:
        _fail(
            "iterations",
            target,
            "count",
            "k=%d but the reference run %s, so %d steps are due (max_iter=%d, n=%d)"
            % (k, "never comes near a break-down" if an["all_healthy"] else "breaks down exactly at dimension %d" % an["joint_d"], expect_k, case["max_iter"], n),
        )
    for i in range(M):
        mb = an["members"][i]
        nrm = mb["nrm"]
        betas = torch.diagonal(Tf[i], 1) if k > 1 else torch.zeros(0, dtype=F64)
        post = bool((betas.abs() <= BRK).any())
        above = betas.abs()[betas.abs() > BRK]
        rho = nrm / float(above.min()) if above.numel() else 0.0
        vac = 4.0 * n * u * rho * rho > 0.5
        B = max(TOL_REORTH, 4.0 * n * u * rho)
        un = float((torch.diagonal(G[i]) - 1).abs().max())
        _rec("unit_columns", dtn, un, 64.0 * n * u)
        if un > 64.0 * n * u:
            _fail("unit_columns", target, "value", "| |q|^2 - 1 | = %.3g > 64 n u = %.3g (member %d, k=%d)" % (un, 64.0 * n * u, i, k))
        info = {"B": B, "vac": vac, "post": post, "nrm": nrm, "k": k}
        infos.append(info)
        if vac:
            continue
        off = float((G[i] - eye).abs().max())
        info["orth"] = off
        _rec("orthonormal", dtn, off, B)
        if off > B:
            _fail(
                "orthonormal",
                target,
                "value",
                "max |Q^T Q - I| = %.3g > %.3g (member %d of %d, n=%d k=%d dtype=%s, smallest beta %.3g, |A|=%.3g)"
                % (off, B, i, M, n, k, dtn, float(betas.abs().min()) if k > 1 else float("nan"), nrm),
            )
        pe = float(P[i].abs().max())
        info["proj"] = pe
        tp = (4.0 * B + 64.0 * n * u) * nrm
        _rec("projection", dtn, pe, tp)
        if pe > tp:
            _fail("projection", target, "value", "max |Q^T A Q - T| = %.3g > %.3g (member %d, n=%d k=%d dtype=%s)" % (pe, tp, i, n, k, dtn))
        if k > 1:
            re = float(Rs[i][:, :-1].abs().max())
            tr = (4.0 * math.sqrt(k) * B + 64.0 * n * u) * nrm
            _rec("residual", dtn, re, tr)
            if re > tr:
                _fail("residual", target, "value", "max |(A Q - Q T)[:, :-1]| = %.3g > %.3g (member %d, n=%d k=%d dtype=%s)" % (re, tr, i, n, k, dtn))
        early = (M == 1 and k < num_iter) or (expect_k is not None and not an["all_healthy"] and k == expect_k and k < num_iter)
        if early:
            W = Qf[i] @ Tf[i] @ G[i] - AQ[i]
            we = float(W.abs().max())
            tw = 1e-6 + (6.0 * math.sqrt(k) * B + 64.0 * n * u) * nrm
            info["early"] = True
            _rec("invariant", dtn, we, tw)
            if we > tw:
                _fail("invariant", target, "value", "stopped at k=%d < %d but max |Q T Q^T V - A V| = %.3g > %.3g on V = span(Q) (member %d)" % (k, num_iter, we, tw, i))
        if k == n:
            fe = float((Qf[i] @ Tf[i] @ Qf[i].T - Af[i]).abs().max())
            tf = k * (10.0 * B + 64.0 * n * u) * nrm
            _rec("invariant_full", dtn, fe, tf)
            if fe > tf:
                _fail("invariant", target, "full", "k = n but max |Q T Q^T - A| = %.3g > %.3g (member %d)" % (fe, tf, i))
        _PENDING.append(("stat:orth_over_nu/" + dtn, off / (n * u)))
        if nrm > 0:
            _PENDING.append(("stat:proj_over_nu_nrm/" + dtn, pe / (n * u * nrm)))
    if any(x["post"] for x in infos):
        labels.append("regime:post_breakdown_columns")
    if any(x["vac"] for x in infos):
        labels.append("regime:near_breakdown(vacuous)")
    if any(not x["vac"] for x in infos):
        labels.append("regime:regular")
    if any(x.get("early") for x in infos):
        labels.append("exit:early")
    return infos, (Qf, Tf, Af)


# ------------------------------------------------------------------------------------------------
# consumers
# ------------------------------------------------------------------------------------------------
def _psd_part(S, inverse=False):
    ev, V = torch.linalg.eigh(S)
    if inverse:
        d = torch.where(ev > 0, 1.0 / ev.clamp_min(1e-300), torch.zeros_like(ev))
    else:
        d = ev.clamp_min(0.0)
    return (V * d.unsqueeze(-2)) @ V.transpose(-1, -2), ev


def _compression(Gm, A, nrm, k, B, jit, n, u, dtn, target, what):
    thr = 1e-3 if dtn == "f32" else 1e-7
    ev, Uv = torch.linalg.eigh(Gm)
    top = float(ev.max())
    if not top > 0:
        return
    keep = ev > thr * top
    Pm = Uv[:, keep]
    exp = Pm @ (Pm.T @ A @ Pm) @ Pm.T
    d = float((Gm - exp).abs().max())
    t = (jit + thr + 4.0 * u / thr + 12.0 * k * B + 128.0 * k * n * u) * nrm
    _rec("compression", dtn, d, t)
    if d > t:
        _fail("compression", target, "value", "%s: max |R R^T - P (P^T A P) P^T| = %.3g > %.3g with P a basis of span(R) (rank %d, n=%d k=%d dtype=%s)" % (what, d, t, int(keep.sum()), n, k, dtn))


def run_consumer(case, A_lib, Aref, V_lib, an, labels):
    import linear_operator.utils.lanczos as LZ
    from linear_operator import to_linear_operator

    target = case["target"]
    n = case["spec"]["n"]
    dtn = case["dt"]
    u = U[dtn]
    batch = _batch_of(case)
    nb = _prod(batch)
    jit_rel = _jitter(case)
    cell = {"max_root_decomposition_size": int(case["max_iter"])}
    if case.get("jitter") is not None:
        cell["tridiagonal_jitter"] = float(case["jitter"])
    rec = []
    orig = LZ.lanczos_tridiag

    def wrapper(*a, **kw):
        out = orig(*a, **kw)
        rec.append((a, kw, out[0].detach().clone(), out[1].detach().clone()))
        return out

    tv = None
    if case.get("tv") is not None:
        tv = torch.tensor(case["tv"], dtype=F64).reshape(*batch, n, -1).to(DT[dtn])
    op = to_linear_operator(A_lib)
    try:
        with state.apply_settings(cell), mock.patch.object(LZ, "lanczos_tridiag", wrapper):
            if target == "root" and case.get("via_root_inv"):
                # the root that a Lanczos root_inv_decomposition caches as its by-product (same Lanczos run, argument-less key)
                op.root_inv_decomposition(method="lanczos")
                res = op.root_decomposition().root.to_dense()
            elif target == "root":
                res = op.root_decomposition(method="lanczos").root.to_dense()
            elif target == "root_inv":
                res = op.root_inv_decomposition(initial_vectors=V_lib, test_vectors=tv, method="lanczos").root.to_dense()
            elif target == "diag":
                evals, evecs = op.diagonalization(method="lanczos")
                res = evecs.to_dense() if not torch.is_tensor(evecs) else evecs
            else:
                raise HarnessError("unknown target %r" % target)
    except (Violation, HarnessError):
        raise
    except Exception as e:
        _call_fail(e, target, "%s(method='lanczos') raised %r (n=%d batch=%s max_iter=%d dtype=%s)" % (target, e, n, batch, case["max_iter"], dtn))
    if len(rec) != 1:
        _fail("call", target, "calls", "the consumer called lanczos_tridiag %d times" % len(rec))
    a, kw, Q, T = rec[0]
    if int(a[1]) != int(case["max_iter"]):
        _fail("budget", target, "value", "lanczos_tridiag was given max_iter=%r under max_root_decomposition_size(%d)" % (a[1], case["max_iter"]))
    infos, (Qf, Tf, Af) = check_tridiag(Q, T, Aref, case, "lanczos_tridiag", an, labels)
    m = an["m"]
    k = Q.shape[-1]
    # ---- shapes ---------------------------------------------------------------------------------
    if tuple(res.shape) != batch + (n, k):
        _fail("shape", target, "shape", "result has shape %s, expected %s (batch %s, n=%d, k=%d)" % (tuple(res.shape), batch + (n, k), batch, n, k))
    if res.dtype != DT[dtn]:
        _fail("shape", target, "dtype", "result dtype %s for operator dtype %s" % (res.dtype, dtn))
    if target == "diag" and tuple(evals.shape) != batch + (k,):
        _fail("shape", target, "shape", "eigenvalues have shape %s, expected %s" % (tuple(evals.shape), batch + (k,)))
    if not bool(torch.isfinite(res).all()):
        if target == "root_inv" and not all(
            float(torch.linalg.eigvalsh(Aref.reshape(nb, n, n)[b]).min()) > 64.0 * n * u * float(torch.linalg.eigvalsh(Aref.reshape(nb, n, n)[b]).abs().max()) for b in range(nb)
        ):  # (numerically singular: a computed smallest eigenvalue of a rank-deficient matrix may be +1e-17)
            labels.append("inv:singular_matrix_nonfinite")
            return infos
        _fail("finite", target, "nan", "non-finite entries in the result (k=%d)" % k)
    Rf = res.to(F64).reshape(nb, n, k)
    Ab = Aref.reshape(nb, n, n)
    eyek = torch.eye(k, dtype=F64)
    # per (col, batch) candidate grams from the recorded (Q, T)
    inverse = target == "root_inv"
    grams = []
    conds = []
    for i in range(Qf.shape[0]):
        jit = jit_rel * float(torch.diagonal(Tf[i]).min())
        S = Tf[i] + jit * eyek
        Xm, ev = _psd_part(S, inverse=inverse)
        grams.append(Qf[i] @ Xm @ Qf[i].T)
        pos = ev[ev > 0]
        conds.append((float(ev.abs().max()) / float(ev.abs().min()) if float(ev.abs().min()) > 0 else float("inf"), float(pos.min()) if pos.numel() else 0.0))
    # which start column did the post-processing pick (root_inv with several columns)
    chosen = 0
    if inverse and m > 1:
        tvr = tv.to(F64).reshape(nb, n, -1)
        resid = []
        for ci in range(m):
            s = 0.0
            for b in range(nb):
                s += float((Ab[b] @ (grams[ci * nb + b] @ tvr[b]) - tvr[b]).norm(dim=-2).sum())
            resid.append(s)
        obs = [(Rf[b] @ Rf[b].T) for b in range(nb)]
        dist = [max(float((obs[b] - grams[ci * nb + b]).abs().max()) for b in range(nb)) for ci in range(m)]
        chosen = min(range(m), key=lambda ci: dist[ci])
        kap = max(c[0] for c in conds)
        # + the rounding error of evaluating A (G tv) - tv itself, n u ||A|| ||G|| ||tv|| (in the library's dtype): it decides
        # the comparison when G = Q S^-1 Q^T is huge (nearly singular projected matrix)
        gmax = max(float(g.abs().max()) for g in grams)
        amax = max(float(Ab[b].abs().max()) for b in range(nb))
        slack = 1e-3 * min(resid) + 1e3 * k * u * kap * float(tvr.norm()) + 64.0 * n * n * u * amax * gmax * float(tvr.norm())
        if math.isfinite(kap) and all(math.isfinite(r) for r in resid) and resid[chosen] > min(resid) + slack:
            _fail("probe_choice", target, "value", "returned inverse root belongs to start column %d with test residual %.6g, but column %d has %.6g" % (chosen, resid[chosen], resid.index(min(resid)), min(resid)))
        labels.append("probe:chosen_%s" % ("first" if chosen == 0 else "other"))
    for b in range(nb):
        i = chosen * nb + b
        info = infos[i]
        nrm, B, vac = info["nrm"], info["B"], info["vac"]
        if target == "diag":
            ev_l = evals.to(F64).reshape(nb, k)[b]
            Gm = (Rf[b] * ev_l.unsqueeze(-2)) @ Rf[b].T
        else:
            Gm = Rf[b] @ Rf[b].T
        kc, lam_min = conds[i]
        rows = float(k) if vac else 1.0
        # ---- white box: post-processing of the (Q, T) actually used ---------------------------------
        if inverse:
            if lam_min > 0 and 64.0 * k**1.5 * u * kc <= 0.05:
                t = 64.0 * k**1.5 * u * kc / lam_min * rows
                d = float((Gm - grams[i]).abs().max())
                labels.append("inv:whitebox")
                _rec("postprocess_inv", dtn, d, t)
                if d > t:
                    _fail("postprocess", target, "value", "max |R R^T - Q (T + jI)^-1 Q^T| = %.3g > %.3g (cond T %.3g, k=%d, dtype=%s)" % (d, t, kc, k, dtn))
            else:
                labels.append("inv:whitebox_skipped_illcond")
        else:
            t = 64.0 * k**1.5 * u * nrm * rows
            d = float((Gm - grams[i]).abs().max())
            _rec("postprocess", dtn, d, t)
            if d > t:
                _fail("postprocess", target, "value", "max |result gram - Q (T + jI)_+ Q^T| = %.3g > %.3g (k=%d, dtype=%s)" % (d, t, k, dtn))
        if vac:
            continue
        # ---- black box ------------------------------------------------------------------------------
        full = an["all_healthy"] and an["num_iter"] == n and k == n
        if not inverse:
            _compression(Gm, Ab[b], nrm, k, B, jit_rel, n, u, dtn, target, "root" if target == "root" else "diagonalization")
            if full:
                d = float((Gm - Ab[b]).abs().max())
                t = (jit_rel + 14.0 * k * B + 128.0 * k * n * u) * nrm
                labels.append("full:reconstruction")
                _rec("reconstruction", dtn, d, t)
                if d > t:
                    _fail("reconstruction", target, "value", "Krylov space is the whole space but max |R R^T - A| = %.3g > %.3g (n=%d dtype=%s)" % (d, t, n, dtn))
            if target == "diag":
                cn = Rf[b].norm(dim=-2)
                nz = cn > 0.5
                if bool(((cn > 0) & (cn < 0.5)).any()):
                    _fail("ritz", target, "value", "eigenvector columns neither zero nor unit: norms %s" % cn.tolist())
                Gv = Rf[b][:, nz].T @ Rf[b][:, nz]
                t = k * B + 64.0 * k**1.5 * u
                d = float((Gv - torch.eye(int(nz.sum()), dtype=F64)).abs().max()) if int(nz.sum()) else 0.0
                _rec("ritz_orth", dtn, d, t)
                if d > t:
                    _fail("ritz", target, "value", "max |V^T V - I| = %.3g > %.3g on the unmasked eigenvectors" % (d, t))
                ray = ((Ab[b] @ Rf[b][:, nz]) * Rf[b][:, nz]).sum(-2)
                jit = jit_rel * float(torch.diagonal(Tf[i]).min())
                d = float((ray + jit - ev_l[nz]).abs().max()) if int(nz.sum()) else 0.0
                t = (k * (4.0 * B + 64.0 * n * u) + 64.0 * k**1.5 * u + 3.0 * k * B) * nrm
                _rec("ritz_value", dtn, d, t)
                if d > t:
                    _fail("ritz", target, "value", "max |v^T A v + j - eigenvalue| = %.3g > %.3g" % (d, t))
        else:
            lmin = float(torch.linalg.eigvalsh(Ab[b]).min())
            kap = nrm / lmin if lmin > 0 else float("inf")
            kmax = 1e2 if dtn == "f32" else 1e4
            e1 = jit_rel + k * (4.0 * B + 64.0 * n * u) + 64.0 * k**1.5 * u
            if kap <= kmax and 2.0 * kap * e1 <= 0.25:
                Mm = Rf[b].T @ Ab[b] @ Rf[b]
                d = float((Mm - eyek).abs().max())
                labels.append("inv:blackbox")
                _rec("inv_compression", dtn, d, 2.0 * kap * e1)
                if d > 2.0 * kap * e1:
                    _fail("compression", target, "value", "inverse root: max |R^T A R - I| = %.3g > %.3g (cond %.3g, k=%d, dtype=%s)" % (d, 2.0 * kap * e1, kap, k, dtn))
                e2 = jit_rel + k * (10.0 * B + 64.0 * n * u) + 64.0 * k**1.5 * u
                if full and 2.0 * kap * e2 <= 0.25:
                    d = float((Gm @ Ab[b] - torch.eye(n, dtype=F64)).abs().max())
                    labels.append("full:reconstruction")
                    _rec("inv_reconstruction", dtn, d, 2.0 * kap * e2)
                    if d > 2.0 * kap * e2:
                        _fail("reconstruction", target, "value", "Krylov space is the whole space but max |R R^T A - I| = %.3g > %.3g (cond %.3g)" % (d, 2.0 * kap * e2, kap))
            else:
                labels.append("inv:blackbox_skipped(cond)")
    return infos


# ------------------------------------------------------------------------------------------------
# check
# ------------------------------------------------------------------------------------------------
def check(case):
    from linear_operator.utils.lanczos import lanczos_tridiag

    n = case["spec"]["n"]
    if n < 2:
        raise HarnessError("n = 1 is outside the quantifier of C09")
    dtn = case["dt"]
    target = case["target"]
    batch = _batch_of(case)
    try:
        A_lib, Aref, V_lib, w, Qe = materialise(case)
        an = analyse(case)
    except Exception as e:
        raise HarnessError("building the case failed: %r" % (e,))
    if V_lib is not None and not bool((V_lib.norm(dim=-2) > 0).all()):
        raise HarnessError("zero start vector generated")
    labels = []
    del _PENDING[:]
    m = an["m"]
    if target == "tridiag":
        try:
            Q, T = lanczos_tridiag(
                lambda x: A_lib @ x,
                int(case["max_iter"]),
                dtype=DT[dtn],
                device=A_lib.device,
                matrix_shape=A_lib.shape[-2:],
                batch_shape=A_lib.shape[:-2],
                init_vecs=V_lib,
                num_init_vecs=m,
            )
        except Exception as e:
            _call_fail(e, target, "lanczos_tridiag raised %r (n=%d batch=%s max_iter=%d cols=%d dtype=%s)" % (e, n, batch, case["max_iter"], m, dtn))
        if case.get("init") is None:
            # the emulated library-random start vector must be the one the routine used (classification depends on it)
            v0 = _library_random_start(case, n, m, DT[dtn])
            q0 = (v0 / v0.norm(dim=-2, keepdim=True)).to(F64)
            got = Q.to(F64).reshape(-1, *batch, n, Q.shape[-1])[..., 0] if m > 1 else Q.to(F64)[..., 0].unsqueeze(0)
            if bool(torch.isfinite(got).all()) and float((got.reshape(m, -1, n) - q0.T.unsqueeze(1)).abs().max()) > 1e-4:
                raise HarnessError("library-random start vector differs from its emulation")
        infos, _ = check_tridiag(Q, T, Aref, case, "lanczos_tridiag", an, labels)
    else:
        infos = run_consumer(case, A_lib, Aref, V_lib, an, labels)
    for key, ratio in _PENDING:
        _RATIO[key] = max(_RATIO.get(key, 0.0), ratio)
    k = infos[0]["k"]
    num_iter = an["num_iter"]
    spec = case["spec"]
    mi = int(case["max_iter"])
    brk = any(mb["brk"] is not None for mb in an["members"]) or k < num_iter
    regular = any(not x["vac"] for x in infos)
    nontrivial = regular and (mi < n or brk or bool(batch) or m > 1)
    size = "2-6" if n <= 6 else "7-12" if n <= 12 else "13-32" if n <= 32 else "33-64"
    labels += [
        "target:" + target,
        "dtype:" + dtn,
        "n:" + size,
        "batch:" + ("x".join(str(b) for b in batch) if batch else "none"),
        "cols:%d" % m,
        "start:" + ("random" if case.get("init") is None else case["init"]["basis"]),
        "max_iter:" + ("<n" if mi < n else "=n" if mi == n else ">n"),
        "members:" + ("healthy" if an["all_healthy"] else "joint_breakdown" if an["joint_d"] else "mixed" if an["mixed"] else "breakdown_or_gray"),
        "k:" + ("=budget" if k == num_iter else "<budget"),
        "structure:" + ("diagonal" if not spec["vs"] else "dense"),
    ]
    if "w" in spec:
        labels.append("spectrum:per_member")
    else:
        labels.append("spectrum:" + spec["family"] + ("/kappa1" if spec["kappa"] == 1.0 else ""))
        if spec.get("rank") is not None:
            labels.append("rank_deficient")
    return {
        "nontrivial": nontrivial,
        "key": case,
        "labels": labels,
        "sample": {"n": n, "batch": list(batch), "dt": dtn, "target": target, "max_iter": mi, "cols": m, "k": k, "family": spec.get("family"), "kappa": spec.get("kappa"), "rank": spec.get("rank")},
    }


def gaps(labels):
    want = [
        "dtype:f32", "dtype:f64", "target:tridiag", "target:root", "target:root_inv", "target:diag", "n:33-64", "n:13-32",
        "cols:2", "cols:3", "start:random", "start:eig", "start:std", "max_iter:<n", "max_iter:=n", "max_iter:>n",
        "rank_deficient", "spectrum:repeated", "structure:diagonal", "k:<budget", "exit:early", "members:joint_breakdown",
        "regime:regular", "full:reconstruction", "inv:blackbox", "inv:whitebox",
    ]
    out = ["class never generated: " + x for x in want if not labels.get(x)]
    open_ = _open_triggers()
    if not any(k.startswith("batch:") and k != "batch:none" for k in labels):
        out.append("class never generated: batch")
    if "mixed_breakdown_batch" in open_:
        out.append("excluded while finding open: batches whose members have different Krylov dimensions (mixed_breakdown_batch)")
    elif not labels.get("members:mixed"):
        out.append("class never generated: members:mixed")
    if "first_step_breakdown" in open_:
        out.append("excluded while finding open: start vector is an eigenvector / scaled identity (first_step_breakdown)")
    if "max_iter_1" in open_:
        out.append("excluded while finding open: max_iter = 1")
    if "leading_unit_batch_consumer" in open_:
        out.append("excluded while finding open: consumers on batch shapes (1, b)")
    return out


def coverage_extra():
    return {
        "tolerance_constants": {
            "tol_reorth": TOL_REORTH, "breakdown": BRK, "unit_columns": "64 n u", "orthonormal": "max(tol, 4 n u nrm/beta_min), claimed while 4 n u (nrm/beta_min)^2 <= 0.5",
            "projection": "(4B + 64 n u) nrm", "residual": "(4 sqrt(k) B + 64 n u) nrm", "postprocess": "64 k^1.5 u nrm",
        },
        "max_error_over_bound": {k: float("%.4g" % v) for k, v in sorted(_RATIO.items()) if not k.startswith("stat:")},
        "measured_regular_members_in_units_of_n_u": {k[5:]: float("%.4g" % v) for k, v in sorted(_RATIO.items()) if k.startswith("stat:")},
    }
