"""C04 -- solve returns A^{-1} B whichever algorithm the library selects (DESIGN section 4, C04).

Oracle (normwise, per batch member and column; A = float64 dense reference, X = library result):
  direct paths (no CG line in the verbose_linalg log):
      ||A X - B||_2 <= C_DIRECT * n * u * (||A||_2 ||X||_2 + ||B||_2) * g      (backward stability of Cholesky /
      triangular / diagonal / Woodbury / Kronecker-eigen paths; g = sqrt(kappa) covers paths that go through
      explicit inverse roots or eigen-decompositions, whose residual error is forward- rather than backward-stable)
  CG path (the log shows a CG run; j = iterations actually run, counted by wrapping the matmul closure handed to
  linear_cg; P = the preconditioner closure applied to I, M = P^{-1/2} A P^{-1/2}):
      ||A x - b|| / ||b|| <= sqrt(kappa(A)) * ( 2 rho^j + 4 thr / sqrt(lambda_min(A)) * sqrt(lambda_min(A)) ) + drift
      with rho = (sqrt(kappa(M)) - 1) / (sqrt(kappa(M)) + 1)   [classical bound ||e_j||_A <= 2 rho^j ||e_0||_A, x_0 = 0],
      thr = max(1e-10, sqrt(1e-10 * lambda_max(P) * max(1, 1/lambda_min(M))))  [the routine's own eps / stop thresholds,
      derived in DESIGN C08], drift = 64 (n + j) u kappa(A);
      and, when no NumericalWarning was emitted, additionally the mean relative residual < cg_tolerance (+ drift).
  left factor: ||X - L A^{-1} B|| bounded by ||L|| times the solve error bound (through the float64 reference solve).
"""
import copy
import math
import warnings
from unittest import mock

import torch
from hypothesis import strategies as st

import linear_operator
from linear_operator.utils.warnings import NumericalWarning

from lov import exc as X
from lov import gen, lit as L, recipe as R, refmodel, state, tol
from lov.core import HarnessError, Violation
from lov.findings import load as load_findings

ID = "C04"
RULE = (
    "case = (positive-definite operator recipe over all classes with a solve path, nesting <= 3; right-hand side kind; optional "
    "left factor; entry point in {op.solve, torch.linalg.solve, linear_operator.solve, Chol.inverse().solve? no: Triangular.solve / "
    "solve_triangular with the stored orientation}; settings cell over max_cholesky_size {0, default}, fast_computations.solves, "
    "cg_tolerance, max_cg_iterations, max_preconditioner_size, min_preconditioning_size, memory_efficient, linalg dtypes). "
    "Non-trivial: the operator has a structure-specific solve path or the cell forces CG. Distinct by (class path, algorithm taken, "
    "rhs kind, left factor?, settings cell)."
)
BUDGET = {"quick": 3000, "thorough": 6000}
ASSUMPTIONS = [
    "condition numbers are computed from the float64 dense reference; recipes with kappa > 1e6 (1e4 in float32 under CG) are labelled and skipped",
    "the preconditioner closure is observed by wrapping linear_operator.utils.linear_cg in the harness process",
]

CELLS = [
    {},
    {},
    {"max_cholesky_size": 0},
    {"max_cholesky_size": 0},
    {"max_cholesky_size": 0, "cg_tolerance": 1e-2},
    {"max_cholesky_size": 0, "cg_tolerance": 1e-6},
    {"max_cholesky_size": 0, "min_preconditioning_size": 0},
    {"max_cholesky_size": 0, "min_preconditioning_size": 0, "max_preconditioner_size": 3},
    {"max_cholesky_size": 0, "min_preconditioning_size": 0, "max_preconditioner_size": 0},
    {"max_cholesky_size": 0, "fast.solves": False},
    {"max_cholesky_size": 0, "memory_efficient": True},
    {"memory_efficient": True},
    {"max_cholesky_size": 0, "max_cg_iterations": 4},
    {"linalg_dtypes": "f32"},
    {"max_cholesky_size": 0, "terminate_cg_by_size": True},
]


def _exclusions():
    ex = set()
    for e in load_findings():
        if e.get("status", "open") == "open":
            ex.update(e.get("exclude_nodes", []))
            if e.get("property") == ID:
                ex.update(e.get("exclude_nodes_c04", []))
    return tuple(sorted(ex))


def _open_triggers():
    return {e.get("trigger") for e in load_findings() if e.get("property") == ID and e.get("status", "open") == "open"}


@st.composite
def cases(draw, tier):
    ex = _exclusions()
    max_depth = 3
    chol_upper = draw(st.integers(0, 11)) == 0
    if chol_upper:
        # Head-only CholLinearOperator(R, upper=True): its solve is documented (and correct) as (R^T R)^{-1} B by triangular
        # solves with the factor, whatever class the factor has.  (Nested, and on the iterative paths, the upper
        # orientation runs into F-C01-chol-upper, which is why "Chol.upper" is excluded from the generic generator.)
        cfg = gen.Cfg(dt=draw(st.sampled_from(["f64", "f64", "f32"])), max_dim=6, exclude=tuple(x for x in ex if x != "Chol.upper"))
        n_ = draw(st.integers(1, 6))
        batch_ = draw(st.sampled_from(gen.BATCHES))
        structured = [h for h in ("BlockDiag", "BlockInterleaved", "Kronecker", "BatchRepeat", "ConstantMul") if h in gen._applicable(cfg, "triu+", n_, n_, batch_, 2)]
        if structured and draw(st.booleans()):
            # a structured (block / Kronecker / repeated / scaled) upper-triangular factor: the classes that override _cholesky_solve
            fac = {"op": "Tri", "base": gen.call_maker(draw(st.sampled_from(structured)), draw, cfg, "triu+", n_, n_, batch_, 2), "upper": True}
        else:
            fac = gen.gen_tri_instance(draw, cfg, n_, batch_, True, True, 3)
        r = {"op": "Chol", "base": fac, "upper": True}
    elif draw(st.integers(0, 2)):
        r = draw(gen.head_first_recipes("pd", max_depth=max_depth, exclude=ex, max_dim=6))
    else:
        r = draw(gen.recipes("pd", max_depth=max_depth, exclude=ex, max_dim=6))
    scaled = None
    if not chol_upper and draw(st.integers(0, 6)) == 0:
        # the same operator at a very small overall magnitude 2**e (exact power-of-two factors on the defining tensors of
        # homogeneous classes): the direct solves are scale-equivariant.  (Only judged when no CG runs, see check.)
        e = draw(st.sampled_from([-24, -36, -48, -72]))
        if draw(st.booleans()):
            # (the classes with a structure-specific direct solve, at sizes that have factors, over plain factors)
            cfg_s = gen.Cfg(dt=draw(st.sampled_from(["f64", "f64", "f32"])), max_dim=6, exclude=ex)
            hd_s = draw(st.sampled_from(SCALED_HEADS))
            n_s = draw(st.sampled_from([4, 4, 6]))
            b_s = draw(st.sampled_from([(), (), (2,)]))
            if hd_s in gen._applicable(cfg_s, "pd", n_s, n_s, b_s, 2):
                r = gen.call_maker(hd_s, draw, cfg_s, "pd", n_s, n_s, b_s, 2)
        r2 = copy.deepcopy(r)
        if _scale_to(r2, e):
            r, scaled = r2, e
    shape = refmodel.shape(r)
    dt = R.dtype_of(r)
    n = shape[-1]
    kind, rhs = draw(gen.rhs_for(shape, dt, allow_vector=True))
    entry = draw(st.sampled_from(["solve", "solve", "solve", "torch.linalg.solve", "free"]))
    case = {"recipe": r, "rhs": rhs, "rhs_kind": kind, "entry": entry, "cell": draw(st.sampled_from(CELLS))}
    if not chol_upper and n > 1 and draw(st.integers(0, 7)) == 0:
        # an INTERMEDIATE Cholesky threshold: the operator as a whole is above it (structured / iterative solve selected),
        # its components (Kronecker factors, summands, blocks) may be below it (their roots come from Cholesky)
        node_sizes = sorted({refmodel.shape(nd)[-1] for nd in R.walk(r) if "op" in nd and nd["op"] not in ("Tensor",)} - {n})
        case["cell"] = {"max_cholesky_size": draw(st.sampled_from(([max(node_sizes)] if node_sizes else []) + [n - 1]))}
    if chol_upper:
        case["cell"] = {}
    if scaled is not None:
        case["scaled"] = scaled
        if n > 1 and (not case["cell"] or r["op"] in _SCALE_SAME + _SCALE_KRON) and draw(st.integers(0, 3)) > 0:
            case["cell"] = {"max_cholesky_size": n - 1}  # the structure-specific route instead of the dense Cholesky
    if "lanczos_structured_solve" in _open_triggers() and TRIGGERS["lanczos_structured_solve"](case):
        case["cell"] = {k: v for k, v in case["cell"].items() if k != "max_cholesky_size"}
    if draw(st.integers(0, 3)) == 0 and entry in ("solve", "free") and kind != "vector":
        o = draw(st.integers(1, 3))
        rshape = L.shape_of(rhs)
        lb = tuple(rshape[:-2])  # the left factor shares the batch shape of the right-hand side ("... O N" / "... N P")
        case["lhs"] = gen.flit(draw, gen.Cfg(dt=dt), tuple(lb) + (o, n), -8, 8)
    return case


SCALED_HEADS = ("KroneckerAddedDiag", "KroneckerAddedDiag", "KroneckerAddedDiag", "KroneckerAddedDiag", "Kronecker", "KroneckerDiag", "SumKronecker", "AddedDiag", "BlockDiag", "Diag")
_SCALE_LEAF = {"Dense": "t", "Minimal": "t", "Diag": "d", "ConstantDiag": "c", "Toeplitz": "c"}
_SCALE_SAME = ("Sum", "PsdSum", "AddedDiag", "KroneckerAddedDiag", "SumKronecker")
_SCALE_BASE = ("BlockDiag", "BlockInterleaved", "BatchRepeat", "SumBatch", "ConstantMul")
_SCALE_KRON = ("Kronecker", "KroneckerDiag")


def _scale_to(r, e):
    """Scale the matrix of recipe r by 2**e in place (exactly); False if some node is not homogeneous in its tensors."""
    op = r["op"]
    if op in _SCALE_LEAF:
        l = r[_SCALE_LEAF[op]]

        def mul(x):
            return [mul(y) for y in x] if isinstance(x, list) else x * 2.0**e

        l["lit"] = mul(l["lit"])
        return True
    if op in _SCALE_SAME:
        return all(_scale_to(c, e) for c in r["args"])
    if op in _SCALE_BASE:
        return _scale_to(r["base"], e)
    if op in _SCALE_KRON:
        k = len(r["args"])
        return e % k == 0 and all(_scale_to(c, e // k) for c in r["args"])
    return False


def strategy(tier):
    return cases(tier)


class _CGSpy:
    """Wraps linear_operator.utils.linear_cg: counts matmul calls and records the preconditioner closure."""

    def __init__(self):
        self.calls = []
        self.orig = linear_operator.utils.linear_cg

    def __call__(self, matmul_closure, rhs, *args, **kwargs):
        rec = {"matmuls": 0, "precond": kwargs.get("preconditioner"), "n": rhs.shape[-2], "max_iter": kwargs.get("max_iter"), "batch": tuple(rhs.shape[:-2])}
        self.calls.append(rec)
        fn = matmul_closure.matmul if torch.is_tensor(matmul_closure) else matmul_closure

        def counted(v):
            rec["matmuls"] += 1
            return fn(v)

        return self.orig(counted, rhs, *args, **kwargs)


def _member_iter(batch_shape):
    if not batch_shape:
        yield ()
        return
    import itertools

    for idx in itertools.product(*[range(b) for b in batch_shape]):
        yield idx


def check(case):
    r = case["recipe"]
    head = r["op"]
    dtname = R.dtype_of(r)
    u = tol.U[dtname]
    A = refmodel.dense(r)
    n = A.shape[-1]
    b_lit = case["rhs"]
    B64 = L.value(b_lit, torch.float64)
    vec = B64.dim() == 1
    labels = ["head:" + head, "dtype:" + dtname, "rhs:" + case["rhs_kind"], "entry:" + case["entry"], "cell:" + ",".join("%s=%s" % kv for kv in sorted(case["cell"].items())) or "cell:default"]
    labels += ["class:" + c for c in R.classes(r)]
    evals = torch.linalg.eigvalsh(0.5 * (A + A.transpose(-1, -2)))
    lmin, lmax = float(evals.min()), float(evals.max())
    if not (lmin > 0) or lmax / lmin > 1e6:
        return {"nontrivial": False, "labels": labels + ["skipped:ill_conditioned_or_not_pd"], "key": "skip"}
    kappa = float((evals.max(-1).values / evals.min(-1).values).max())

    def fail(symptom, detail, path="?"):
        raise Violation("C04|%s|%s|%s|%s" % (case["entry"], path, head, symptom), "%s :: %s rhs=%s lhs=%s cell=%s" % (detail, R.class_path(r), list(B64.shape), list(L.shape_of(case["lhs"])) if "lhs" in case else None, case["cell"]))

    try:
        op = R.build(r)
    except Exception as e:
        fail("build:" + X.describe(e), "constructor raised %r" % (e,))
    b = L.materialise(b_lit)
    lhs = L.materialise(case["lhs"]) if "lhs" in case else None
    lhs64 = L.value(case["lhs"], torch.float64) if "lhs" in case else None
    spy = _CGSpy()
    caught = []
    try:
        with state.apply_settings(case["cell"]), state.linalg_log() as lines, mock.patch.object(linear_operator.utils, "linear_cg", spy), warnings.catch_warnings(record=True) as caught:
            warnings.simplefilter("always")
            if case["entry"] == "solve":
                res = op.solve(b) if lhs is None else op.solve(b, lhs)
            elif case["entry"] == "torch.linalg.solve":
                res = torch.linalg.solve(op, b)
            else:
                res = linear_operator.solve(op, b) if lhs is None else linear_operator.solve(op, b, lhs)
    except Violation:
        raise
    except Exception as e:
        if X.is_declined(e, "solve"):
            return {"nontrivial": False, "labels": labels + ["declined:%s:%s" % (head, str(e)[:60])], "key": "declined"}
        fail("exc:" + X.describe(e), "raised %r" % (e,))
    algos = state.algorithms(lines)
    used_cg = bool(spy.calls)
    path = "cg" if used_cg else ("chol" if "cholesky" in algos else "structured")
    labels += ["path:" + path] + ["algo:" + a for a in algos]
    warned = any(issubclass(w.category, NumericalWarning) for w in caught)
    if warned:
        labels.append("numerical_warning")
    if not torch.is_tensor(res):
        try:
            res = res.to_dense()
        except Exception as e:
            fail("exc:" + X.describe(e), "densifying the result raised %r" % (e,), path)

    # ---- expected shape: torch broadcasting of A^{-1} B (then L @ .)
    Bm = B64.unsqueeze(-1) if vec else B64
    # (A^{-1} formed explicitly: torch.linalg.solve treats a B with one dimension less than A as a batch of vectors)
    Xref = torch.matmul(torch.linalg.inv(A), Bm)
    expect = Xref
    if lhs64 is not None:
        expect = lhs64 @ Xref
    if vec:
        expect = expect.squeeze(-1)
    if tuple(res.shape) != tuple(expect.shape):
        fail("shape", "result shape %s != torch shape %s" % (tuple(res.shape), tuple(expect.shape)), path)
    if res.dtype != L.DT[dtname]:
        fail("dtype", "result dtype %s != operator dtype %s" % (res.dtype, dtname), path)
    if not bool(torch.isfinite(res).all()):
        fail("nan", "non-finite entries in the result", path)
    R64 = res.to(torch.float64)
    if vec:
        R64 = R64.unsqueeze(-1)
        expect = expect.unsqueeze(-1)

    # ---- error bound
    normA = lmax
    if "scaled" in case:
        labels.append("scaled:%d:%s" % (case["scaled"], "cg" if used_cg else "direct"))
        if used_cg:
            # linear_cg works with absolute thresholds on the normalised system (eps = 1e-10 on p^T A p): at this magnitude
            # it is outside its stated accuracy floor (C08); only the direct routes are judged on scaled operators
            return {"nontrivial": False, "labels": labels + ["skipped:scaled_cg"], "key": "skip"}
    if used_cg:
        if dtname == "f32" and kappa > 1e4:
            return {"nontrivial": False, "labels": labels + ["skipped:f32_cg_kappa"], "key": "skip"}
        rec = spy.calls[0]
        if rec["n"] != n or len(spy.calls) > 1:
            # CG ran on a sub-operator (e.g. a Kronecker factor's own solve): the per-factor solves are only accurate to
            # the routine's floor, and the factors' condition numbers multiply. Coarse, stated bound only.
            labels.append("cg:nested")
            if lhs64 is None:
                resid = A @ R64 - Bm
                den = Bm.norm(dim=-2, keepdim=True).clamp_min(1e-300)
                worst = float((resid.norm(dim=-2, keepdim=True) / den).max()) if resid.numel() else 0.0
                coarse = 1e-3 * kappa
            else:
                scale = float(lhs64.abs().sum(-1).max()) * float(Xref.abs().max()) + 1e-300
                worst = float((R64 - expect).abs().max()) / scale if R64.numel() else 0.0
                coarse = 1e-3 * kappa * kappa
            if worst > coarse:
                fail("residual", "nested CG: relative residual %.3g > coarse bound %.3g (kappa=%.3g)" % (worst, coarse, kappa), path)
            return {
                "nontrivial": True,
                "key": {"cp": R.class_path(r), "path": "cg:nested", "rhs": case["rhs_kind"], "lhs": "lhs" in case, "cell": sorted(case["cell"].items())},
                "labels": labels,
                "sample": {"recipe": R.class_path(r), "shape": list(A.shape), "rhs": list(B64.shape), "cell": case["cell"], "path": "cg:nested"},
            }
        j = max(rec["matmuls"] - 1, 0)
        # preconditioned operator
        pm_min, pm_max, p_max = lmin, lmax, 1.0
        if rec["precond"] is not None:
            try:
                eye = torch.eye(n, dtype=L.DT[dtname]).expand(*rec["batch"], n, n).contiguous()
                Pinv = rec["precond"](eye).to(torch.float64)
                Pinv = Pinv.expand(*torch.broadcast_shapes(Pinv.shape[:-2], A.shape[:-2]), n, n)
                Pinv = 0.5 * (Pinv + Pinv.transpose(-1, -2))
                pe = torch.linalg.eigvalsh(Pinv)
                if float(pe.min()) <= 0:
                    fail("precond_not_pd", "the preconditioner closure is not positive definite (min eig %.3g)" % float(pe.min()), path)
                # eigenvalues of P^{-1} A (similar to M)
                Lc = torch.linalg.cholesky(Pinv)
                Mm = Lc.transpose(-1, -2) @ A.expand(*Pinv.shape[:-2], n, n) @ Lc
                me = torch.linalg.eigvalsh(0.5 * (Mm + Mm.transpose(-1, -2)))
                pm_min, pm_max = float(me.min()), float(me.max())
                kM = float((me.max(-1).values / me.min(-1).values).max())
                p_max = 1.0 / float(pe.min())
                labels.append("precond:yes")
            except Violation:
                raise
            except Exception as e:
                raise HarnessError("could not analyse the preconditioner closure: %r for %s rhs %s cell %s" % (e, R.class_path(r), list(B64.shape), case["cell"]))
        else:
            kM = kappa
            labels.append("precond:no")
        rho = (math.sqrt(kM) - 1.0) / (math.sqrt(kM) + 1.0)
        thr = max(1e-10, math.sqrt(1e-10 * p_max * max(1.0, 1.0 / pm_min)))
        drift = 64.0 * (n + j) * u * kappa
        rel_bound = math.sqrt(kappa) * (2.0 * rho**j + 4.0 * thr) + drift
        labels.append("cg_iters:%d" % min(j, 12))
        # columns are normalised individually by the routine
        Bx = Bm if lhs64 is None else torch.cat([lhs64.transpose(-1, -2).expand(*torch.broadcast_shapes(lhs64.shape[:-2], Bm.shape[:-2]), n, lhs64.shape[-2]), Bm.expand(*torch.broadcast_shapes(lhs64.shape[:-2], Bm.shape[:-2]), *Bm.shape[-2:])], -1)
        if lhs64 is None:
            resid = A @ R64 - Bm
            bn = Bm.norm(dim=-2, keepdim=True).expand_as(resid.norm(dim=-2, keepdim=True))
            rn = resid.norm(dim=-2, keepdim=True)
            relres = torch.where(bn > 1e-10, rn / bn.clamp_min(1e-300), torch.zeros_like(rn))
            worst = float(relres.max()) if relres.numel() else 0.0
            if worst > rel_bound:
                fail("residual", "CG path: relative residual %.3g > bound %.3g (j=%d, kappa(A)=%.3g, kappa(M)=%.3g, warned=%s)" % (worst, rel_bound, j, kappa, kM, warned), path)
            tol_eff = case["cell"].get("cg_tolerance", 1.0)
            if not warned and relres.numel():
                mean_rel = float(relres.mean())
                if mean_rel > tol_eff * (1 + 1e-3) + drift + 4.0 * thr * math.sqrt(kappa):
                    fail("tolerance", "no NumericalWarning but mean relative residual %.3g > cg_tolerance %.3g" % (mean_rel, tol_eff), path)
        else:
            err = (R64 - expect).abs().max()
            scale = float(lhs64.abs().sum(-1).max()) * float(Xref.abs().max() + 1e-300)
            bound = rel_bound * kappa * scale * n + 1e-300
            if float(err) > bound:
                fail("value", "CG path with left factor: |X - L A^-1 B| = %.3g > %.3g" % (float(err), bound), path)
    else:
        g = math.sqrt(kappa)
        for node in R.walk(r):
            if node["op"] == "LowRankRootAddedDiag":
                # Woodbury is not backward stable: its error grows with ||L L^T|| / min(D)
                dd = refmodel.dense(node["args"][1]).diagonal(dim1=-2, dim2=-1)
                g = max(g, float(refmodel.dense(node).abs().max()) / max(float(dd.abs().min()), 1e-300) * 4.0)
        if lhs64 is None:
            resid = (A @ R64 - Bm).norm(dim=-2)
            bound = tol.C_DIRECT * n * u * (normA * R64.norm(dim=-2) + Bm.norm(dim=-2).expand_as(resid)) * g + 1e-300
            if any(node["op"] == "Mul" for node in R.walk(r)):
                # elementwise products are evaluated through root decompositions with the documented Cholesky jitter:
                # the matrix the library solves with differs from the reference by that much
                bound = bound + 16.0 * n * tol.JITTER_MAX[dtname] * (1.0 + normA) * R64.norm(dim=-2)
            if dtname == "f64" and case["cell"].get("linalg_dtypes") == "f32":
                bound = bound * (tol.U["f32"] / u)
            ratio = float((resid / bound).max()) if resid.numel() else 0.0
            if ratio > 1.0:
                fail("residual", "direct path: ||A X - B|| exceeds the backward-error bound by %.3g (kappa=%.3g)" % (ratio, kappa), path)
        else:
            err = (R64 - expect).abs().max()
            scale = float(lhs64.abs().sum(-1).max()) * float(Xref.abs().max() + 1e-300)
            bound = tol.C_DIRECT * n * u * kappa * g * scale
            if any(node["op"] == "Mul" for node in R.walk(r)):
                # (same jitter term as in the residual branch, propagated to X: |dX| <= ||A^-1|| ||E|| ||X||, ||A^-1|| = kappa / ||A||)
                bound = bound + 16.0 * n * tol.JITTER_MAX[dtname] * (1.0 + normA) * (kappa / max(normA, 1e-300)) * scale
            if case["cell"].get("linalg_dtypes") == "f32" and dtname == "f64":
                bound = bound * (tol.U["f32"] / u)
            if float(err) > bound:
                fail("value", "direct path with left factor: |X - L A^-1 B| = %.3g > %.3g" % (float(err), bound), path)
    structured = head not in ("Dense", "Minimal")
    return {
        "nontrivial": structured or used_cg,
        "key": {"cp": R.class_path(r), "path": path, "rhs": case["rhs_kind"], "lhs": "lhs" in case, "cell": sorted(case["cell"].items())},
        "labels": labels + (["lhs"] if "lhs" in case else []),
        "sample": {"recipe": R.class_path(r), "shape": list(A.shape), "rhs": list(B64.shape), "cell": case["cell"], "path": path, "entry": case["entry"]},
    }


TRIGGERS = {}


def _has(name):
    def f(case):
        return any(n["op"] == name for n in R.walk(case["recipe"]))

    return f


for _nm in gen.PREDS:
    TRIGGERS["has_" + _nm] = _has(_nm if _nm not in ("TriT", "TriBase") else "Tri")
def _batch_repeated_component(case):
    """a BatchRepeatLinearOperator somewhere in the BUILT operator tree: either written in the recipe, or created by a
    constructor that batch-expands its components (Kronecker, Sum, ...) for a component class with the default
    _expand_batch (user subclasses such as Minimal, kernels)"""
    import linear_operator

    if any(n["op"] == "BatchRepeat" for n in R.walk(case["recipe"])):
        return True
    try:
        op = R.build(case["recipe"])
    except Exception:
        return False
    todo, seen = [op], 0
    while todo and seen < 200:
        o = todo.pop()
        seen += 1
        if isinstance(o, linear_operator.operators.BatchRepeatLinearOperator):
            return True
        todo.extend(a for a in getattr(o, "_args", ()) if isinstance(a, linear_operator.LinearOperator))
    return False


TRIGGERS["batch_repeated_component"] = _batch_repeated_component
TRIGGERS["has_lhs"] = lambda c: "lhs" in c
TRIGGERS["rhs_vector"] = lambda c: c["rhs_kind"] == "vector"
TRIGGERS["rhs_batch_differs"] = lambda c: c["rhs_kind"] in ("broadcast_more", "broadcast_fewer", "size1")
TRIGGERS["lanczos_structured_solve"] = lambda c: c["cell"].get("max_cholesky_size") == 0 and any(n["op"] in ("SumKronecker", "KroneckerAddedDiag") for n in R.walk(c["recipe"]))
TRIGGERS["kron_above_cholesky_size"] = lambda c: c["cell"].get("max_cholesky_size") == 0 and any(n["op"].startswith("Kronecker") for n in R.walk(c["recipe"]))
TRIGGERS["cg_forced"] = lambda c: c["cell"].get("max_cholesky_size") == 0 and c["cell"].get("fast.solves", True)


def gaps(labels):
    heads = {k.split(":", 1)[1] for k in labels if k.startswith("class:")}
    allc = {n if n not in ("TriT", "TriBase") else "Tri" for n in gen.PREDS}
    return sorted("class never generated: " + c for c in allc - heads)
