"""C13 -- no operation mutates caller-owned tensors or an existing operator's matrix (DESIGN section 4, C13).

A case is a list of *steps* (1 = single operation, 2-4 = a short history) applied to an operator built from a generated
recipe (optionally with a second operator sharing one defining tensor), or ONE utility-function call.  Every caller tensor
(defining tensors, rhs, lhs, initial guess, probe / initial / test vectors, shifts, index tensors, cotangents) is
materialised in a generated memory layout (lov.lit: c contiguous, t transposed view, s slice of a sentinel-padded storage,
n step-2 view, exp = stride-0 expansion).

Oracle (before / after every step): `_version`, shape, stride, storage offset, dtype, requires_grad and a byte copy of the
WHOLE underlying storage of every caller tensor; the non-tensor constructor arguments of every pre-existing operator; the
bitwise value of `op.to_dense()`; the bitwise value of every tensor result handed out by an earlier step.
The operation's own success is not the subject: an operation that raises in the generated layout is re-run with every tensor
contiguous; raising in both = `op_failed_both` (counted, snapshots still compared); torch's "more than one element of the
written-to tensor refers to a single memory location" / "leaf Variable that requires grad ... in-place" raised only in the
generated layout = an *attempted* in-place write on caller memory.
"""
import os

import torch
from hypothesis import strategies as st

from lov import exc as X
from lov import gen, lit as L, recipe as R, refmodel, spd, state
from lov.core import HarnessError, Violation
from lov.props.c03 import indices as c03_indices

ID = "C13"
RULE = (
    "case = 1 operation (or a history of 2-4 operations, optionally on two operators sharing one defining tensor) from the "
    "public-method table {matmul, rmatmul, to_dense, diagonal, getitem(index tensors), solve(+lhs), inv_quad, inv_quad_logdet, "
    "logdet, cholesky, root_decomposition(method), root_inv_decomposition(method, initial/test vectors), diagonalization, svd, "
    "eigh, pivoted_cholesky, add_diagonal, add_jitter, add_low_rank, cat_rows, + - * / with tensors and scalars, "
    "sqrt_inv_matmul, zero_mean_mvn_samples, _preconditioner closure, backward through matmul / solve / inv_quad_logdet with a "
    "caller cotangent, detach_ / requires_grad_} on a generated recipe (any / pd domain, n <= 6, settings cells reaching "
    "Cholesky / CG / Lanczos / CIQ paths), or 1 call of a utility {linear_cg, minres, lanczos_tridiag, psd_safe_cholesky, "
    "stable_qr, stable_pinverse, Toeplitz / sparse / interpolation / permutation utilities, contour_integral_quad}; every "
    "caller tensor in a generated layout {c, t, s, n} x {expanded}. Non-trivial: at least one caller tensor is "
    "non-contiguous / a slice of a larger storage / stride-0 expanded / shared by two operators. Distinct by (operations, "
    "class path or utility, layout vector, settings cell)."
)
BUDGET = {"quick": 2400, "thorough": 5000}
ASSUMPTIONS = [
    "explicit out= buffers are not tracked; detach_ / requires_grad_ may change requires_grad but neither values nor _version",
    "an operation raising in the generated layout AND with all tensors contiguous is counted (op_failed_both), not reported: "
    "its failure belongs to another property; exceptions raised only in a non-contiguous layout other than torch's "
    "overlapping-write / leaf-in-place errors are counted as layout_only_exc (a C01/C04-type defect), not reported here",
    "to_dense() of an operator is compared bitwise before/after under default settings (single thread, same code path)",
]

LAYS = ["c", "c", "t", "s", "n"]
BATCHES = [(), (), (), (2,), (1,), (3,), (2, 1), (1, 2)]
ROLE = {
    "rhs": "rhs", "lhs": "lhs", "guess": "guess", "init": "probe", "test": "probe", "det_probes": "probe", "shifts": "shift", "cot": "cotangent",
    "cot2": "cotangent", "diag": "rhs", "mat": "rhs", "cross": "rhs", "new": "rhs", "other": "rhs", "A": "defining",
    "P": "defining", "col": "defining", "row": "defining", "idx": "index", "val": "defining", "perm": "index",
    "left": "index", "right": "index", "dense": "rhs", "weights": "shift",
}

CELLS = {
    "default": {},
    "chol0": {"max_cholesky_size": 0},
    "chol0_precond": {"max_cholesky_size": 0, "min_preconditioning_size": 1, "max_preconditioner_size": 2},
    # (one fast_computations switch per cell: lov.state.apply_settings enters one context per key, each resetting the others)
    "chol0_nofast_solves": {"max_cholesky_size": 0, "fast.solves": False},
    "chol0_nofast_logprob": {"max_cholesky_size": 0, "fast.log_prob": False},
    "nofast_root": {"max_cholesky_size": 0, "fast.covar_root_decomposition": False},
    "chol0_lanczos": {"max_cholesky_size": 0, "max_root_decomposition_size": 3, "num_trace_samples": 2, "max_lanczos_quadrature_iterations": 4},
    "cg_short": {"max_cholesky_size": 0, "max_cg_iterations": 3, "max_lanczos_quadrature_iterations": 2, "cg_tolerance": 0.5},
    "ciq": {"max_cholesky_size": 0, "ciq_samples": True, "num_contour_quadrature": 4},
}

OVERLAP = "more than one element of the written-to tensor refers to a single memory location"
LEAF_INPLACE = ("a leaf Variable that requires grad is being used in an in-place operation", "a view of a leaf Variable that requires grad is being used in an in-place operation")


# ------------------------------------------------------------------------------------------------------------------
# known findings (generator side)
# ------------------------------------------------------------------------------------------------------------------
def _open_triggers():
    from lov.findings import load

    names = set(t for t in os.environ.get("LOV_C13_EXCLUDE", "").split(",") if t)
    for e in load():
        if e.get("property") == ID and e.get("status", "open") == "open" and e.get("trigger"):
            names.add(e["trigger"])
    return names


def _exclusions():
    from lov.findings import load

    ex = set()
    for e in load():
        if e.get("status", "open") == "open":
            ex.update(e.get("exclude_nodes", []))
            if e.get("property") == ID:
                ex.update(e.get("exclude_nodes_c13", []))
    return tuple(sorted(ex))


# ------------------------------------------------------------------------------------------------------------------
# literals in layouts
# ------------------------------------------------------------------------------------------------------------------
def _prod(s):
    p = 1
    for x in s:
        p *= x
    return p


def _targ(draw, dt, shape, lo=-16, hi=16, exp_ok=True, ints=None, exp_p=3):
    """A tensor argument literal of the given shape in a drawn layout (possibly a stride-0 expansion)."""
    shape = tuple(shape)
    base = list(shape)
    if exp_ok and any(s > 1 for s in shape) and draw(st.integers(0, exp_p)) == 0:
        for i, s in enumerate(shape):
            if s > 1 and draw(st.booleans()):
                base[i] = 1
    if ints is not None:
        n = _prod(base)
        flat = draw(st.lists(st.integers(ints[0], ints[1]), min_size=n, max_size=n))
        l = L.lit(gen._nest(flat, tuple(base)) if base else flat[0], "i64")
    else:
        l = L.lit(gen.grid(draw, tuple(base), lo, hi), dt)
    lay = draw(st.sampled_from(LAYS))
    if lay != "c" and shape:
        l["lay"] = lay
    if base != list(shape):
        l["exp"] = list(shape)
    return l


def _from_tensor(draw, t, dt):
    l = L.lit(t.tolist(), dt)
    lay = draw(st.sampled_from(LAYS))
    if lay != "c":
        l["lay"] = lay
    return l


EXPANDABLE = {("Dense", "t"): 2, ("Minimal", "t"): 2, ("Tri", "t"): 2, ("Diag", "d"): 1, ("Toeplitz", "c"): 1, ("ConstantDiag", "c"): 1}


def _node_literals(node):
    for k, v in node.items():
        if L.is_lit(v):
            yield k, v
        elif k == "params" and isinstance(v, dict):
            for pk, pv in v.items():
                if L.is_lit(pv):
                    yield "params." + pk, pv


def _tag_recipe(draw, r, rg=False):
    """Every literal of the recipe gets a layout; some batched leaves become stride-0 expansions of their first member."""
    seen = set()
    for node in R.walk(r):
        for k, v in _node_literals(node):
            if id(v) in seen:
                continue
            seen.add(id(v))
            shp = L.shape_of(v)
            if "lay" not in v and len(shp) >= 1:
                lay = draw(st.sampled_from(LAYS))
                if lay != "c":
                    v["lay"] = lay
            base_nd = EXPANDABLE.get((node["op"], k))
            if not rg and base_nd is not None and "exp" not in v and len(shp) > base_nd and shp[0] > 1 and draw(st.integers(0, 2)) == 0:
                v["lit"] = [v["lit"][0]]
                v["exp"] = list(shp)
            if rg and v["dt"] in ("f64", "f32"):
                v["rg"] = True


def _plain_lit(l):
    """Same logical value, contiguous (expansions written out)."""
    out = {"lit": L.value(l).tolist() if "exp" in l else l["lit"], "dt": l["dt"]}
    if l.get("rg"):
        out["rg"] = True
    return out


def _plain(obj):
    if L.is_lit(obj):
        return _plain_lit(obj)
    if isinstance(obj, dict):
        return {k: _plain(v) for k, v in obj.items()}
    if isinstance(obj, list):
        return [_plain(v) for v in obj]
    return obj


def _laycode(l, t):
    if t.layout != torch.strided:
        return "sp"
    e = "e" if any(s == 0 and n > 1 for s, n in zip(t.stride(), t.shape)) else ""
    nbytes = t.untyped_storage().nbytes()
    if t.is_contiguous() and nbytes == t.numel() * t.element_size():
        return e + "c"
    return e + (l.get("lay", "c") if l is not None else ("c" if t.is_contiguous() else "v"))


# ------------------------------------------------------------------------------------------------------------------
# snapshots
# ------------------------------------------------------------------------------------------------------------------
def _bytes(t):
    return torch.empty(0, dtype=torch.uint8).set_(t.untyped_storage()).clone()


def _snap(t):
    return {
        "ver": t._version, "shape": tuple(t.shape), "stride": tuple(t.stride()), "off": t.storage_offset(), "dtype": t.dtype,
        "rg": t.requires_grad, "bytes": _bytes(t),
    }


def _diff(t, s0, grad_meta_ok=False):
    """None or (symptom, detail)."""
    s1 = _snap(t)
    if s1["bytes"].shape != s0["bytes"].shape or not torch.equal(s1["bytes"], s0["bytes"]):
        if s1["bytes"].shape != s0["bytes"].shape:
            return "mutated", "storage resized from %d to %d bytes" % (s0["bytes"].numel(), s1["bytes"].numel())
        i = int(torch.nonzero(s1["bytes"] != s0["bytes"])[0])
        es = t.element_size()
        lo = (i // es) * es
        inside = "inside" if _covers(s0, i // es) else "OUTSIDE the view (padding of the shared storage)"
        return "mutated", "storage byte %d changed (element %d, %s): %s -> %s" % (
            i, i // es, inside, s0["bytes"][lo : lo + es].view(t.dtype).item(), s1["bytes"][lo : lo + es].view(t.dtype).item())
    for k in ("shape", "stride", "off", "dtype"):
        if s1[k] != s0[k]:
            return "stride", "%s changed %r -> %r" % (k, s0[k], s1[k])
    if s1["ver"] != s0["ver"]:
        return "version", "_version %d -> %d (an in-place kernel ran on the tensor or a view of it; values bitwise unchanged)" % (s0["ver"], s1["ver"])
    if s1["rg"] != s0["rg"] and not grad_meta_ok:
        return "version", "requires_grad %r -> %r" % (s0["rg"], s1["rg"])
    return None


def _covers(s, elem):
    """Is storage element `elem` addressed by the view (shape, stride, offset)?"""
    rem = elem - s["off"]
    if rem < 0:
        return False
    dims = sorted(((st_, n) for st_, n in zip(s["stride"], s["shape"]) if st_ > 0 and n > 1), reverse=True)
    for st_, n in dims:
        q = min(rem // st_, n - 1)
        rem -= q * st_
    return rem == 0


class Tracker:
    def __init__(self):
        self.items = []  # [role, name, literal-or-None, tensor]
        self.ids = set()
        self.snaps = []
        self.snapped = False

    def add(self, role, name, l, t):
        if not torch.is_tensor(t) or id(t) in self.ids:
            return
        if t.layout != torch.strided:
            self.add(role, name + "._indices", None, t._indices())
            self.add(role, name + "._values", None, t._values())
            return
        self.ids.add(id(t))
        self.items.append([role, name, l, t])
        if self.snapped:  # a caller tensor created between two steps (cotangent of a result)
            self.snaps.append(_snap(t))

    def snapshot(self):
        self.snaps = [_snap(it[3]) for it in self.items]
        self.snapped = True

    def compare(self, grad_meta_ok=False):
        """The most severe difference over all tracked tensors (values > metadata > version counter), or None."""
        best = None
        rank = {"mutated": 0, "stride": 1, "version": 2}
        for it, s0 in zip(self.items, self.snaps):
            d = _diff(it[3], s0, grad_meta_ok)
            if d is not None and (best is None or rank[d[0]] < rank[best[1][0]]):
                best = (it, d)
        return best

    def layout_vector(self):
        return ["%s:%s" % (it[0], _laycode(it[2], it[3])) for it in self.items if it[2] is not None]


def _is_inplace_error(e):
    msg = str(e)
    return OVERLAP in msg or any(p in msg for p in LEAF_INPLACE)


# ------------------------------------------------------------------------------------------------------------------
# operator state other than tensors
# ------------------------------------------------------------------------------------------------------------------
def _lo_class():
    from linear_operator.operators import LinearOperator

    return LinearOperator


def _nts(obj):
    """Non-tensor constructor state of an operator tree (tensors are covered by the snapshots)."""
    if torch.is_tensor(obj):
        return ("T",)
    if isinstance(obj, _lo_class()):
        return (
            type(obj).__name__,
            tuple(_nts(a) for a in getattr(obj, "_args", ())),
            tuple((k, _nts(v)) for k, v in sorted(getattr(obj, "_kwargs", {}).items())),
            tuple(id(a) for a in getattr(obj, "_args", ())),
        )
    if callable(obj):
        return ("fn", id(obj))
    return ("V", repr(obj))


def _op_tensors(obj, out, seen):
    if torch.is_tensor(obj):
        if id(obj) not in seen:
            seen.add(id(obj))
            out.append(obj)
    elif isinstance(obj, _lo_class()):
        for a in getattr(obj, "_args", ()):
            _op_tensors(a, out, seen)
        for k in sorted(getattr(obj, "_kwargs", {})):
            _op_tensors(obj._kwargs[k], out, seen)
    elif isinstance(obj, (list, tuple)):
        for a in obj:
            _op_tensors(a, out, seen)


def _shape_attr(op):
    try:
        return tuple(op.shape), op.dtype
    except Exception as e:  # noqa: BLE001
        return ("shape-raises", type(e).__name__)


# ------------------------------------------------------------------------------------------------------------------
# (a) public methods: generation of one step
# ------------------------------------------------------------------------------------------------------------------
PD_OPS = [
    "solve", "solve", "inv_quad", "inv_quad_logdet", "inv_quad_logdet", "logdet", "cholesky", "root_decomposition", "root_decomposition",
    "root_inv_decomposition", "root_inv_decomposition", "diagonalization", "eigh", "pivoted_cholesky", "pivoted_cholesky", "add_low_rank",
    "cat_rows", "sqrt_inv_matmul", "samples", "precond", "precond", "backward_solve", "backward_iql", "backward_of", "backward_of", "backward_of",
]
SQ_OPS = ["diagonal", "add_diagonal", "add_jitter", "add_jitter", "svd"]
ANY_OPS = ["matmul", "matmul", "rmatmul", "to_dense", "getitem", "getitem", "add", "sub", "mul", "div", "backward_matmul", "detach_", "requires_grad_"]
OP2_OPS = ["matmul", "to_dense", "add_jitter", "mul", "add", "getitem"]
RG_OPS = {"backward_matmul", "backward_solve", "backward_iql", "backward_of"}
DIFF_OPS = [
    "inv_quad", "logdet", "root_decomposition", "root_inv_decomposition", "diagonalization", "sqrt_inv_matmul", "pivoted_cholesky", "to_dense",
    "diagonal", "add_diagonal", "cholesky", "solve", "samples", "inv_quad_logdet", "eigh", "add_low_rank", "matmul",
]


def _rhs_shape(draw, batch, n):
    c = draw(st.integers(1, 3))
    kinds = ["matrix", "matrix", "batched", "more"]
    if not batch:
        kinds.append("vector")
    k = draw(st.sampled_from(kinds))
    if k == "vector":
        return (n,)
    if k == "matrix":
        return (n, c)
    if k == "batched":
        return tuple(batch) + (n, c)
    return (2,) + tuple(batch) + (n, c)


def _bshape(a, b):
    return tuple(torch.broadcast_shapes(tuple(a), tuple(b)))


def _gen_step(draw, name, shape, dt, rg=False):
    *batch, m, n = shape
    batch = tuple(batch)
    s = {"op": name}
    T = lambda shp, **kw: _targ(draw, dt, shp, **kw)  # noqa: E731
    if rg:
        mark = lambda l: (l.update({"rg": True}) or l)  # noqa: E731
    else:
        mark = lambda l: l  # noqa: E731
    if name in ("matmul", "backward_matmul"):
        shp = _rhs_shape(draw, batch, n)
        s["rhs"] = mark(T(shp, exp_ok=not rg))
        if name == "backward_matmul":
            out = (m,) if len(shp) == 1 else _bshape(batch, shp[:-2]) + (m, shp[-1])
            s["cot"] = T(out, exp_p=1)
    elif name == "rmatmul":
        k = draw(st.integers(1, 3))
        s["lhs"] = T((m,)) if (not batch and draw(st.integers(0, 3)) == 0) else T(tuple(batch if draw(st.booleans()) else ()) + (k, m))
        s["form"] = draw(st.sampled_from(["operator", "method"]))
    elif name == "getitem":
        items = draw(c03_indices(shape, neg_tensor=False, neg_int_matrix=False))
        for it in items:
            if it["k"] == "tensor" and isinstance(it["v"], list):
                it["lay"] = draw(st.sampled_from(LAYS))
        s["index"] = items
    elif name in ("solve", "backward_solve", "sqrt_inv_matmul"):
        shp = _rhs_shape(draw, batch, n)
        if name == "sqrt_inv_matmul" and len(shp) == 1:
            shp = (n, 1)
        s["rhs"] = mark(T(shp, exp_ok=not rg))
        out = shp
        if name != "backward_solve" and len(shp) > 1 and draw(st.integers(0, 2)) == 0:
            s["lhs"] = T(tuple(shp[:-2]) + (draw(st.integers(1, 3)), n))
        if name == "backward_solve":
            out = (n,) if len(shp) == 1 else _bshape(batch, shp[:-2]) + (n, shp[-1])
            s["cot"] = T(out, exp_p=1)
    elif name == "inv_quad":
        s["rhs"] = T(_rhs_shape(draw, batch, n))
        s["reduce"] = draw(st.booleans())
    elif name in ("inv_quad_logdet", "backward_iql"):
        if name == "backward_iql" or draw(st.integers(0, 3)):
            c = draw(st.integers(1, 3))
            s["rhs"] = mark(T(tuple(batch) + (n, c), exp_ok=not rg))
        s["logdet"] = True if (name == "backward_iql" or "rhs" not in s) else draw(st.booleans())
        if name == "inv_quad_logdet" and s["logdet"] and not rg and draw(st.integers(0, 2)) == 0:
            # caller-supplied probe vectors: settings.deterministic_probes.probe_vectors (*batch x n x num_trace_samples),
            # read by the stochastic log-determinant; the step runs it on the iterative path (max_cholesky_size 0)
            s["nprobe"] = draw(st.integers(1, 4))
            s["det_probes"] = T(tuple(batch) + (n, s["nprobe"]), exp_ok=False)
            s["precond"] = draw(st.sampled_from([0, 0, 15]))
        if name == "backward_iql":
            s["cot"] = T(batch, exp_p=1)
            s["cot2"] = T(batch, exp_p=1)
    elif name == "cholesky":
        s["upper"] = draw(st.booleans())
    elif name == "root_decomposition":
        s["method"] = draw(st.sampled_from([None, "cholesky", "lanczos", "symeig", "pivoted_cholesky", "svd"]))
    elif name == "root_inv_decomposition":
        s["method"] = draw(st.sampled_from([None, "cholesky", "lanczos", "lanczos", "symeig", "diagonalization", "svd", "pinverse"]))
        if s["method"] == "lanczos" and draw(st.integers(0, 3)):
            k = draw(st.integers(1, 3))
            s["init"] = T(tuple(batch) + (n, k))
            if k > 1 or draw(st.booleans()):  # (several initial vectors are ranked by means of the test vectors)
                s["test"] = T(tuple(batch) + (n, k))
    elif name == "diagonalization":
        s["method"] = draw(st.sampled_from([None, "lanczos", "symeig"]))
    elif name == "pivoted_cholesky":
        s["rank"] = draw(st.integers(1, n))
        s["tol"] = draw(st.sampled_from([None, 1e-8]))
        s["pivots"] = draw(st.booleans())
    elif name == "add_diagonal":
        kind = draw(st.sampled_from(["full", "full", "const", "scalar", "batched"]))
        shp = {"full": (n,), "const": (1,), "scalar": (), "batched": tuple(batch) + (n,)}[kind]
        s["diag"] = T(shp, lo=1, hi=16)
    elif name == "add_jitter":
        s["val"] = draw(st.sampled_from([1e-3, 0.5, 1.0]))
    elif name == "add_low_rank":
        s["mat"] = T(tuple(batch) + (n, draw(st.integers(1, 2))))
    elif name == "cat_rows":
        o = draw(st.integers(1, 2))
        s["cross"] = T(tuple(batch) + (o, n), lo=-2, hi=2)
        new = gen.psd_values(draw, None, batch, o, True)
        new = gen._map2(new, lambda v: v + 64.0)
        s["new"] = L.lit(new, dt)
        lay = draw(st.sampled_from(LAYS))
        if lay != "c":
            s["new"]["lay"] = lay
    elif name in ("add", "sub", "mul", "div"):
        kinds = ["scalar", "tensor0"]
        if name in ("add", "sub"):
            kinds = ["full", "full", "batched"]
        elif batch:
            kinds.append("const")
        kind = draw(st.sampled_from(kinds))
        if kind == "scalar":
            s["scalar"] = draw(st.sampled_from([2.0, 0.5, 3.0]))
        else:
            shp = {"tensor0": (), "const": tuple(batch) + (1, 1), "full": (m, n), "batched": tuple(batch) + (m, n)}[kind]
            s["other"] = T(shp, lo=1, hi=16)
        s["side"] = draw(st.sampled_from(["left", "left", "right"])) if name in ("add", "mul") else "left"
    elif name == "samples":
        s["k"] = draw(st.integers(1, 3))
    elif name == "precond":
        s["rhs"] = T(tuple(batch) + (n, draw(st.integers(1, 2))))
    elif name == "requires_grad_":
        s["val"] = draw(st.booleans())
    elif name == "backward_of":
        # backward through any differentiable operation; the cotangent takes the shape of the result at run time:
        # either the cycled values below in a drawn layout, or a stride-0 expansion of one value (what .sum().backward() passes)
        s["of"] = _gen_step(draw, draw(st.sampled_from(DIFF_OPS)), shape, dt, rg=True)
        s["cotv"] = gen.grid(draw, (6,), -16, 16)
        s["cotlay"] = draw(st.sampled_from(LAYS))
        s["cotexp"] = draw(st.booleans())
    return s


def _second_shape(cls, shp):
    if cls == "Dense":
        return tuple(shp)
    if cls == "Root":
        return tuple(shp[:-1]) + (shp[-2],)
    return tuple(shp) + (shp[-1],)


@st.composite
def op_cases(draw, tier):
    ex = _exclusions()
    avoid = _open_triggers()
    history = draw(st.integers(0, 3)) == 0
    nsteps = draw(st.integers(2, 4)) if history else 1
    dom = draw(st.sampled_from(["pd", "pd", "any"]))
    max_depth = 3 if tier == "quick" else 4
    heads = None
    first = None
    if dom == "pd" and draw(st.integers(0, 9)) == 0:
        first = "precond"
        heads = ["AddedDiag", "AddedDiag", "KroneckerAddedDiag", "LowRankRootAddedDiag"]
    r = draw(gen.recipes(dom, max_depth=max_depth, max_dim=6 if tier == "quick" else 8, exclude=ex, batches=BATCHES, layouts=True, head=heads))
    if "all_zero_interp_values" in avoid:
        _nonzero_interp_values(r)
    shape = refmodel.shape(r)
    dt = R.dtype_of(r)
    pool = list(ANY_OPS)
    if shape[-1] == shape[-2]:
        pool += SQ_OPS
    if dom == "pd":
        pool += PD_OPS + PD_OPS
    for t in avoid:
        if t.startswith("op:"):
            pool = [o for o in pool if o != t[3:]]
    names = [first if (i == 0 and first) else draw(st.sampled_from(pool)) for i in range(nsteps)]
    rg = any(nm in RG_OPS for nm in names)
    _tag_recipe(draw, r, rg=rg)
    cellnames = ["default", "default"] + sorted(CELLS)
    cell = draw(st.sampled_from(cellnames if first is None else ["chol0_precond", "chol0_precond", "default"]))
    iql_avoid = "iql_backward_stochastic_path" in avoid
    if iql_avoid and "backward_iql" in names and _stochastic_logdet(CELLS[cell]):
        cell = draw(st.sampled_from(["default", "chol0_nofast_logprob"]))
    case = {"kind": "ops", "recipe": r, "cell": cell, "settings": dict(CELLS[cell]), "steps": []}
    second_shape = None
    if history and draw(st.booleans()):
        lits = [l for l in R.float_literals(r) if len(L.shape_of(l)) >= 1]
        if lits:
            j = draw(st.integers(0, len(lits) - 1))
            shp = L.shape_of(lits[j])
            cls = draw(st.sampled_from(["Dense", "Root"] if len(shp) >= 2 else ["Diag", "Toeplitz"]))
            case["second"] = {"lit": j, "cls": cls}
            second_shape = _second_shape(cls, shp)
    for i, nm in enumerate(names):
        on = 0
        if second_shape is not None and i > 0 and draw(st.integers(0, 2)) == 0:
            on = 1
            nm = draw(st.sampled_from([o for o in OP2_OPS if o != "add_jitter" or second_shape[-1] == second_shape[-2]]))
        step = _gen_step(draw, nm, second_shape if on else shape, dt, rg=rg and nm in RG_OPS)
        if iql_avoid and _is_iql_backward(step) and _stochastic_logdet(CELLS[cell]):
            step["of"] = _gen_step(draw, "inv_quad", shape, dt, rg=True)
        step["on"] = on
        case["steps"].append(step)
    return case


# ------------------------------------------------------------------------------------------------------------------
# (a) execution of one step
# ------------------------------------------------------------------------------------------------------------------
def _force(res):
    """Evaluate lazy results (their construction shares the operand's tensors) and flatten to a list of tensors."""
    out = []
    if isinstance(res, (tuple, list)):
        for x in res:
            out.extend(_force(x))
    elif isinstance(res, _lo_class()):
        out.append(res.to_dense())
    elif torch.is_tensor(res):
        out.append(res)
    return out


def _result_tensors(res):
    """The tensors a caller holds after receiving `res`: tensor results, and for operator results the tensors of their
    representation (what DEFINES the operator handed out) as well as its dense value."""
    out = []
    if isinstance(res, (tuple, list)):
        for x in res:
            out.extend(_result_tensors(x))
    elif isinstance(res, _lo_class()):
        try:
            out.extend(t for t in res.representation() if torch.is_tensor(t) and not t.is_sparse)
        except Exception:
            pass
        out.append(res.to_dense())
    elif torch.is_tensor(res):
        out.append(res)
    return out


def _index_of(items, a):
    idx = []
    for i, it in enumerate(items):
        k = it["k"]
        if k == "int":
            idx.append(int(it["v"]))
        elif k == "slice":
            idx.append(slice(*it["v"]))
        elif k == "ellipsis":
            idx.append(Ellipsis)
        elif k == "tensor":
            idx.append(a["index%d" % i])
        elif k == "list":
            idx.append(list(it["v"]))
    if len(idx) == 1 and items[0]["k"] != "list":
        return idx[0]
    return tuple(idx)


def _run_step(op, s, a):
    nm = s["op"]
    if nm == "matmul":
        return op.matmul(a["rhs"])
    if nm == "rmatmul":
        return (a["lhs"] @ op) if s.get("form") == "operator" else op.rmatmul(a["lhs"])
    if nm == "to_dense":
        return op.to_dense()
    if nm == "diagonal":
        return op.diagonal()
    if nm == "getitem":
        return op[_index_of(s["index"], a)]
    if nm == "solve":
        return op.solve(a["rhs"], a["lhs"]) if "lhs" in a else op.solve(a["rhs"])
    if nm == "inv_quad":
        return op.inv_quad(a["rhs"], reduce_inv_quad=s["reduce"])
    if nm == "inv_quad_logdet":
        if "det_probes" in a:
            from linear_operator import settings as S

            with S.max_cholesky_size(0), S.num_trace_samples(s["nprobe"]), S.max_preconditioner_size(s["precond"]), S.deterministic_probes(True):
                S.deterministic_probes.probe_vectors = a["det_probes"]
                res = op.inv_quad_logdet(a.get("rhs"), logdet=s["logdet"])
                # (a second evaluation in the same context reads the caller's tensor again)
                return res, op.inv_quad_logdet(a.get("rhs"), logdet=s["logdet"])
        return op.inv_quad_logdet(a.get("rhs"), logdet=s["logdet"])
    if nm == "logdet":
        return op.logdet()
    if nm == "cholesky":
        return op.cholesky(upper=s["upper"])
    if nm == "root_decomposition":
        return op.root_decomposition(method=s["method"])
    if nm == "root_inv_decomposition":
        return op.root_inv_decomposition(initial_vectors=a.get("init"), test_vectors=a.get("test"), method=s["method"])
    if nm == "diagonalization":
        return op.diagonalization(method=s["method"])
    if nm == "svd":
        return op.svd()
    if nm == "eigh":
        return op.eigh()
    if nm == "pivoted_cholesky":
        return op.pivoted_cholesky(s["rank"], error_tol=s["tol"], return_pivots=s["pivots"])
    if nm == "add_diagonal":
        return op.add_diagonal(a["diag"])
    if nm == "add_jitter":
        return op.add_jitter(s["val"])
    if nm == "add_low_rank":
        return op.add_low_rank(a["mat"])
    if nm == "cat_rows":
        return op.cat_rows(a["cross"], a["new"])
    if nm in ("add", "sub", "mul", "div"):
        other = a["other"] if "other" in a else s["scalar"]
        if nm == "add":
            return (op + other) if s["side"] == "left" else (other + op)
        if nm == "sub":
            return op - other
        if nm == "mul":
            return (op * other) if s["side"] == "left" else (other * op)
        return op / other
    if nm == "sqrt_inv_matmul":
        return op.sqrt_inv_matmul(a["rhs"], a["lhs"]) if "lhs" in a else op.sqrt_inv_matmul(a["rhs"])
    if nm == "samples":
        return op.zero_mean_mvn_samples(s["k"])
    if nm == "precond":
        closure, plt, logdet = op._preconditioner()
        out = [logdet] if torch.is_tensor(logdet) else []
        if closure is not None:
            out.append(closure(a["rhs"]))
        if plt is not None:
            out.append(plt.to_dense())
        return out
    if nm in ("backward_matmul", "backward_solve"):
        res = op.matmul(a["rhs"]) if nm == "backward_matmul" else op.solve(a["rhs"])
        if tuple(res.shape) == tuple(a["cot"].shape) and res.requires_grad:
            _backprop([res], [a["cot"]])  # (the layouts of rg tensors are views derived from a leaf)
        return res
    if nm == "backward_iql":
        iq, ld = op.inv_quad_logdet(a.get("rhs"), logdet=True)
        outs, cots = [], []
        for val, c in ((iq, a["cot"]), (ld, a["cot2"])):
            if torch.is_tensor(val) and val.requires_grad and tuple(val.shape) == tuple(c.shape):
                outs.append(val)
                cots.append(c)
        if outs:
            _backprop(outs, cots)
        return [iq, ld]
    if nm == "backward_of":
        res = _run_step(op, s["of"], a)
        outs = [t for t in _force(res) if t.is_floating_point() and t.requires_grad]
        cots = [a["_late"]("cot%d" % j, _cot_lit(s, tuple(t.shape), L.RDT[t.dtype])) for j, t in enumerate(outs)]
        if outs:
            # the tensors of the result are handed to the caller BEFORE the backward pass runs: it must leave them alone
            held = [(t, t.detach().clone()) for t in _result_tensors(res)]
            try:
                _backprop(outs, cots)
            finally:
                # (also when the backward pass raised, e.g. autograd noticing the in-place write afterwards)
                for t, c0 in held:
                    if not _bit_equal(t, c0):
                        a["_selfmutated"] = "the backward pass changed a tensor of the result it differentiates (max |change| %.3g)" % float((t.detach().double() - c0.double()).abs().max())
        return res
    if nm == "detach_":
        return op.detach_()
    if nm == "requires_grad_":
        return op.requires_grad_(s["val"])
    raise HarnessError("unknown operation %r" % nm)


def _backprop(outs, cots):
    """Run the backward pass of `outs` with cotangents `cots` WITHOUT touching any `.grad`: torch.autograd.backward lets
    AccumulateGrad steal a gradient that is a view of the caller's cotangent and later accumulate into it IN PLACE
    (torch semantics, also for plain dense code), which would be reported as a mutation of the cotangent."""
    leaves, seen, todo = [], set(), [o.grad_fn for o in outs if o.grad_fn is not None]
    while todo:
        fn = todo.pop()
        if fn is None or id(fn) in seen:
            continue
        seen.add(id(fn))
        if hasattr(fn, "variable"):
            leaves.append(fn.variable)
        todo.extend(nf for nf, _ in fn.next_functions)
    if leaves:
        torch.autograd.grad(outs, leaves, cots, retain_graph=True, allow_unused=True)


def _cot_lit(s, shape, dt):
    n = _prod(shape)
    if s["cotexp"] and any(d > 1 for d in shape):
        l = L.lit(gen._nest([s["cotv"][0]], tuple(1 for _ in shape)), dt)
        l["exp"] = list(shape)
    else:
        flat = [s["cotv"][i % len(s["cotv"])] for i in range(max(n, 1))]
        l = L.lit(gen._nest(flat, tuple(shape)) if shape else flat[0], dt)
    if s["cotlay"] != "c" and shape:
        l["lay"] = s["cotlay"]
    return l


def _mat(l, plain):
    if plain:
        l = _plain_lit(l)
    return L.materialise(l)


def _step_args(s, plain, tracker, tag):
    a = {}
    if "of" in s:
        a.update(_step_args(s["of"], plain, tracker, tag + ".of"))

        def late(name, l):
            t = _mat(l, plain)
            tracker.add("cotangent", "%s.%s" % (tag, name), l, t)
            return t

        a["_late"] = late
    for k, v in s.items():
        if L.is_lit(v):
            a[k] = _mat(v, plain)
            tracker.add(ROLE[k], "%s.%s" % (tag, k), v, a[k])
    if "index" in s:
        for i, it in enumerate(s["index"]):
            if it["k"] == "tensor":
                l = L.lit(it["v"], "i64", "c" if plain else it.get("lay", "c"))
                a["index%d" % i] = L.materialise(l)
                tracker.add("index", "%s.index%d" % (tag, i), l, a["index%d" % i])
    return a


class _Outcome:
    def __init__(self):
        self.errors = {}  # step index -> exception
        self.violation = None  # (sig-parts, detail)
        self.labels = []
        self.layouts = []
        self.nontrivial = False


def _second_op(cls, t):
    from linear_operator import operators as O

    return {"Dense": O.DenseLinearOperator, "Root": O.RootLinearOperator, "Diag": O.DiagLinearOperator, "Toeplitz": O.ToeplitzLinearOperator}[cls](t)


def _bit_equal(a, b):
    if a.shape != b.shape or a.dtype != b.dtype:
        return False
    if a.numel() == 0:
        return True
    a = torch.empty(a.shape, dtype=a.dtype).copy_(a.detach())  # fresh standard strides (size-1 dims may carry any stride)
    b = torch.empty(b.shape, dtype=b.dtype).copy_(b.detach())
    if a.dtype.is_floating_point or a.dtype.is_complex:
        return bool(torch.equal(a.reshape(-1).view(torch.uint8), b.reshape(-1).view(torch.uint8)))
    return bool(torch.equal(a, b))


def _run_ops(case, plain):
    """Build, run every step, compare snapshots after every step.  Returns an _Outcome (never raises Violation)."""
    out = _Outcome()
    r = _plain(case["recipe"]) if plain else case["recipe"]
    head = case["recipe"]["op"]
    tracker = Tracker()
    ctx = R.BuildCtx()
    try:
        op = R.build(r, ctx)
    except Exception as e:  # noqa: BLE001
        out.errors[-1] = e
        return out
    for i, (l, t) in enumerate(ctx.tensors):
        tracker.add("defining", "recipe.t%d" % i, l, t)
    # the constructors are operations too: every defining tensor must still look like a fresh materialisation of its literal
    for i, (l, t) in enumerate(ctx.tensors):
        d = _diff(t, _snap(L.materialise(l)))
        if d is not None:
            out.violation = ("C13|construct|defining|%s|%s" % (head, d[0]), "constructing %s: tensor recipe.t%d [layout %s, shape %s] %s" % (R.class_path(r), i, _laycode(l, t), tuple(t.shape), d[1]))
            return out
    ops = [op]
    heads = [head]
    shared = False
    if "second" in case:
        lits = [l for l in R.float_literals(r) if len(L.shape_of(l)) >= 1]
        target = lits[case["second"]["lit"]]
        ts = [t for (l, t) in ctx.tensors if l is target]
        if ts:
            try:
                ops.append(_second_op(case["second"]["cls"], ts[0]))
                heads.append(case["second"]["cls"])
                shared = True
            except Exception:  # noqa: BLE001
                out.labels.append("second_ctor_failed")
    for k, o in enumerate(ops):
        extra = []
        _op_tensors(o, extra, set())
        for j, t in enumerate(extra):
            tracker.add("defining", "op%d.arg%d" % (k, j), None, t)
    args = [_step_args(s, plain, tracker, "step%d" % i) for i, s in enumerate(case["steps"])]
    out.layouts = tracker.layout_vector()
    out.nontrivial = shared or any(not v.endswith(":c") for v in out.layouts)

    # the value each pre-existing operator represents, as handed out BEFORE the operations
    dense0 = []
    for o in ops:
        try:
            d = o.to_dense()
            dense0.append((d, d.detach().clone()))
        except Exception:  # noqa: BLE001
            dense0.append(None)
            out.labels.append("to_dense_unavailable")
    nts0 = [(_nts(o), _shape_attr(o)) for o in ops]
    tracker.snapshot()
    results = []  # (step, tensor, clone)
    grad_meta_ok = False

    def fail(opname, role, hd, symptom, detail):
        if out.violation is None:
            out.violation = ("C13|%s|%s|%s|%s" % (opname, role, hd, symptom), detail)

    for i, s in enumerate(case["steps"]):
        k = s.get("on", 0)
        if k >= len(ops):
            continue
        o, hd, nm = ops[k], heads[k], _opname(s)
        if nm in ("detach_", "requires_grad_"):
            grad_meta_ok = True
        with state.linalg_log() as lines:
            try:
                with state.apply_settings(case.get("settings")):
                    res = _run_step(o, s, args[i])
                    for t in _result_tensors(res):
                        results.append((i, nm, t, t.detach().clone()))
                    if args[i].get("_selfmutated"):
                        fail(nm, "result", hd, "mutated", "step %d (%s on %s): %s" % (i, nm, hd, args[i]["_selfmutated"]))
                        return out
            except HarnessError:
                raise
            except Exception as e:  # noqa: BLE001
                out.errors[i] = e
                if args[i].get("_selfmutated"):
                    fail(nm, "result", hd, "mutated", "step %d (%s on %s): %s" % (i, nm, hd, args[i]["_selfmutated"]))
                    return out
        out.labels += ["algo:%s:%s" % (nm, alg) for alg in state.algorithms(lines)]
        # 1. caller tensors
        bad = tracker.compare(grad_meta_ok)
        if bad is not None:
            it, (symptom, detail) = bad
            fail(nm, it[0], hd, symptom, "step %d (%s on %s): tensor %s [layout %s, shape %s] %s" % (i, nm, hd, it[1], _laycode(it[2], it[3]), tuple(it[3].shape), detail))
            return out
        # 2. results handed out earlier
        for (j, nmj, t, c) in results:
            if not _bit_equal(t, c):
                fail(nm, "result", hd, "mutated", "step %d (%s) changed the tensor returned earlier by step %d (%s)" % (i, nm, j, nmj))
                return out
        # 3. non-tensor constructor state and the represented matrix of every pre-existing operator
        for kk, oo in enumerate(ops):
            now = (_nts(oo), _shape_attr(oo))
            if now != nts0[kk]:
                fail(nm, "operator-args", heads[kk], "mutated", "step %d (%s): non-tensor constructor state of operator %d changed: %r -> %r" % (i, nm, kk, nts0[kk], now))
                return out
            if dense0[kk] is None:
                continue
            d_before, d_clone = dense0[kk]
            if not _bit_equal(d_before, d_clone):
                fail(nm, "operator-dense", heads[kk], "mutated", "step %d (%s): the tensor returned by to_dense() BEFORE the call was modified in place" % (i, nm))
                return out
            try:
                d_after = oo.to_dense()
            except Exception as e:  # noqa: BLE001
                fail(nm, "operator-dense", heads[kk], "mutated", "step %d (%s): to_dense() worked before the call and raises %r after it" % (i, nm, e))
                return out
            if not _bit_equal(d_after, d_clone):
                dd = (d_after.detach().to(torch.float64) - d_clone.to(torch.float64)).abs().max().item() if d_after.shape == d_clone.shape else float("nan")
                fail(nm, "operator-dense", heads[kk], "mutated", "step %d (%s): to_dense() of pre-existing operator %d (%s) differs from its value before the call (max abs diff %.3g, shapes %s / %s)" % (i, nm, kk, heads[kk], dd, tuple(d_clone.shape), tuple(d_after.shape)))
                return out
            bad = tracker.compare(grad_meta_ok)  # to_dense itself is an operation under test
            if bad is not None:
                it, (symptom, detail) = bad
                fail("to_dense", it[0], heads[kk], symptom, "to_dense after step %d: tensor %s %s" % (i, it[1], detail))
                return out
    out.layouts = tracker.layout_vector()
    out.nontrivial = shared or any(not v.endswith(":c") for v in out.layouts)
    return out


# ------------------------------------------------------------------------------------------------------------------
# (b) utilities
# ------------------------------------------------------------------------------------------------------------------
UTILS = [
    "linear_cg", "linear_cg", "minres", "minres", "lanczos_tridiag", "psd_safe_cholesky", "psd_safe_cholesky", "stable_qr", "stable_pinverse",
    "toeplitz", "sym_toeplitz", "toeplitz_matmul", "sym_toeplitz_matmul", "toeplitz_getitem", "sym_toeplitz_dqf",
    "make_sparse", "make_sparse", "bdsmm", "sparse_getitem", "sparse_getitem", "sparse_repeat", "to_sparse", "left_interp", "left_t_interp",
    "apply_permutation", "inverse_permutation", "contour_integral_quad",
]


def _g_spd(draw, dt, max_n=6, psd=False):
    spec = draw(spd.specs(max_n=max_n, batches=((), (), (2,), (1,)), kappas=[1.0, 10.0, 1e2, 1e4], psd=psd))
    A, w, Q = spd.build(spec)
    A = A.to(L.DT[dt])
    return _from_tensor(draw, A, dt), spec


def _g_sparse(draw, dt, size, min_nnz=0):
    nnz = draw(st.integers(min_nnz, 5))
    rows = [draw(st.lists(st.integers(0, s - 1), min_size=nnz, max_size=nnz)) for s in size]
    ind = L.lit(rows, "i64")
    lay = draw(st.sampled_from(["c", "c", "t", "s", "n"]))
    if lay != "c" and nnz:
        ind["lay"] = lay
    return {"size": list(size), "ind": ind, "val": _targ(draw, dt, (nnz,), exp_ok=False)}


@st.composite
def util_cases(draw, tier):
    avoid = _open_triggers()
    pool = [u for u in UTILS if ("util:" + u) not in avoid]
    fn = draw(st.sampled_from(pool))
    dt = draw(st.sampled_from(["f64", "f64", "f32"]))
    T = lambda shp, **kw: _targ(draw, dt, shp, **kw)  # noqa: E731
    a = {}
    case = {"kind": "util", "fn": fn, "dt": dt, "args": a}
    if fn in ("linear_cg", "minres", "lanczos_tridiag", "contour_integral_quad"):
        a["A"], spec = _g_spd(draw, dt)
        n, batch = spec["n"], tuple(spec["batch"])
        c = draw(st.integers(1, 3))
        rshape = (n,) if (not batch and fn in ("linear_cg", "minres") and draw(st.integers(0, 4)) == 0) else tuple(batch) + (n, c)
        if fn != "lanczos_tridiag":
            a["rhs"] = T(rshape)
        if fn == "linear_cg":
            if draw(st.booleans()):
                a["guess"] = T(rshape)
            if draw(st.booleans()):
                a["P"] = T(tuple(batch) + (n, 1), lo=1, hi=16)  # diagonal preconditioner applied by the caller's closure
            case["n_tridiag"] = draw(st.integers(0, c)) if len(rshape) > 1 else 0
            case["max_iter"] = draw(st.sampled_from([None, 1, 3, 20]))
            case["closure"] = draw(st.sampled_from(["tensor", "lambda"]))
        elif fn == "minres":
            sk = draw(st.sampled_from(["none", "scalar", "vec", "vec"]))
            if sk == "scalar":
                a["shifts"] = T((), lo=0, hi=16)
            elif sk == "vec":
                a["shifts"] = T((draw(st.integers(1, 3)),), lo=0, hi=16)
            case["value"] = draw(st.sampled_from([None, 1.0, 2.0]))
            case["max_iter"] = draw(st.sampled_from([None, 2, 10]))
            case["closure"] = draw(st.sampled_from(["tensor", "lambda"]))
            if draw(st.integers(0, 2)) == 0:
                a["P"] = T(tuple(batch) + (n, 1), lo=1, hi=16)
        elif fn == "lanczos_tridiag":
            if draw(st.integers(0, 3)):
                a["init"] = T(tuple(batch) + (n, draw(st.integers(1, 2))), lo=1, hi=16)
            case["max_iter"] = draw(st.integers(2, 6))
            case["n"], case["batch"] = n, list(batch)
        else:
            case["inverse"] = draw(st.booleans())
            case["Q"] = draw(st.sampled_from([3, 5]))
    elif fn == "psd_safe_cholesky":
        kind = draw(st.sampled_from(["pd", "singular", "singular", "indefinite"]))
        batch = draw(st.sampled_from([(), (), (2,)]))
        n = draw(st.integers(1, 5))
        if kind == "pd":
            vals = gen.psd_values(draw, None, batch, n, True)
        elif kind == "singular":
            vals = gen.psd_values(draw, None, batch, max(n, 2), False)
        else:
            vals = gen.psd_values(draw, None, batch, n, True)
            vals = gen._apply_mats(vals, len(batch), lambda mt: [[(-1e-7 if i == j == 0 else x) for j, x in enumerate(row)] for i, row in enumerate(mt)])
        a["A"] = L.lit(vals, dt)
        lay = draw(st.sampled_from(LAYS))
        if lay != "c":
            a["A"]["lay"] = lay
        case["upper"] = draw(st.booleans())
        case["out"] = draw(st.integers(0, 4)) == 0
        case["pdkind"] = kind
    elif fn in ("stable_qr", "stable_pinverse"):
        batch = draw(st.sampled_from([(), (), (2,)]))
        a["A"] = T(tuple(batch) + (draw(st.integers(1, 5)), draw(st.integers(1, 5))))
        if draw(st.integers(0, 2)) == 0:  # rank-deficient: stable_qr's jitter branch
            a["A"]["lit"] = gen._map2(a["A"]["lit"], lambda v: 0.0)
    elif fn in ("toeplitz", "sym_toeplitz", "toeplitz_getitem"):
        n = draw(st.integers(1, 5))
        a["col"] = T((n,), exp_ok=False)
        if fn != "sym_toeplitz":
            a["row"] = T((n,), exp_ok=False)
            a["row"]["lit"][0] = a["col"]["lit"][0]
        if fn == "toeplitz_getitem":
            case["i"], case["j"] = draw(st.integers(0, n - 1)), draw(st.integers(0, n - 1))
    elif fn in ("toeplitz_matmul", "sym_toeplitz_matmul"):
        n = draw(st.integers(1, 5))
        batch = draw(st.sampled_from([(), (), (2,)]))
        a["col"] = T(tuple(batch) + (n,), exp_ok=False)
        if fn == "toeplitz_matmul":
            a["row"] = T(tuple(batch) + (n,), exp_ok=False)
            col0 = gen._apply_mats(a["col"]["lit"], len(batch), lambda v: v[0])
            a["row"]["lit"] = _set_first(a["row"]["lit"], col0, len(batch))
        a["rhs"] = T(tuple(draw(st.sampled_from([batch, ()]))) + (n, draw(st.integers(1, 3))))
    elif fn == "sym_toeplitz_dqf":
        n = draw(st.integers(1, 5))
        shp = draw(st.sampled_from([(n,), (n, 2), (2, n, 2)]))
        a["left"] = T(shp)
        a["right"] = T(shp)
    elif fn == "make_sparse":
        cols, k, num_rows = draw(st.integers(1, 4)), draw(st.integers(1, 3)), draw(st.integers(1, 4))
        batch = draw(st.sampled_from([(), (), (2,)]))
        a["idx"] = _targ(draw, dt, tuple(batch) + (cols, k), ints=(0, num_rows - 1))
        a["val"] = T(tuple(batch) + (cols, k))
        zeros = draw(st.sampled_from(["asis", "asis", "all", "all_negzero"]))
        if zeros != "asis" and "all_zero_interp_values" not in avoid:
            z = 0.0 if zeros == "all" else -0.0
            a["val"]["lit"] = gen._map2(a["val"]["lit"], lambda v: z)
        if "all_zero_interp_values" in avoid and _all_zero(a["val"]["lit"]):
            a["val"]["lit"] = gen._map2(a["val"]["lit"], lambda v: 1.0)
        case["num_rows"] = num_rows
    elif fn == "bdsmm":
        m, n, o = draw(st.integers(1, 3)), draw(st.integers(1, 3)), draw(st.integers(1, 3))
        sb = draw(st.sampled_from([(), (2,), (2,)]))
        case["sp"] = _g_sparse(draw, dt, tuple(sb) + (m, n))
        a["dense"] = T(tuple(draw(st.sampled_from([sb, ()]))) + (n, o))
    elif fn == "sparse_getitem":
        nd = draw(st.sampled_from([1, 2, 2]))
        size = tuple(draw(st.integers(1, 4)) for _ in range(nd))
        case["sp"] = _g_sparse(draw, dt, size, min_nnz=1 if "sparse_getitem_no_entry_selected" in avoid else 0)
        idx = []
        for i in range(draw(st.integers(1, nd))):
            if draw(st.booleans()):
                idx.append({"int": draw(st.integers(0, size[i] - 1))})
            else:
                lo = draw(st.integers(0, size[i] - 1))
                idx.append({"slice": [lo, draw(st.integers(lo + 1, size[i])), None]})
        if "sparse_getitem_no_entry_selected" in avoid:
            idx = _hit_entries(idx, case["sp"])
        case["index"] = idx
    elif fn == "sparse_repeat":
        nd = draw(st.sampled_from([1, 2, 3]))
        size = tuple(draw(st.sampled_from([1, 1, 2])) for _ in range(nd))
        case["sp"] = _g_sparse(draw, dt, size)
        case["reps"] = [draw(st.sampled_from([1, 2, 3])) for _ in range(nd + draw(st.sampled_from([0, 0, 1])))]
    elif fn == "to_sparse":
        nd = draw(st.integers(1, 3))
        a["dense"] = T(tuple(draw(st.integers(1, 3)) for _ in range(nd)))
        if draw(st.integers(0, 2)) == 0:
            a["dense"]["lit"] = gen._map2(a["dense"]["lit"], lambda v: 0.0)
    elif fn in ("left_interp", "left_t_interp"):
        rows, k, nd = draw(st.integers(1, 4)), draw(st.integers(1, 3)), draw(st.integers(1, 4))
        batch = draw(st.sampled_from([(), (), (2,)]))
        a["idx"] = _targ(draw, dt, tuple(batch) + (rows, k), ints=(0, nd - 1))
        a["val"] = T(tuple(batch) + (rows, k))
        inner = rows if fn == "left_t_interp" else nd
        a["rhs"] = T((inner,)) if (not batch and draw(st.integers(0, 3)) == 0) else T(tuple(batch) + (inner, draw(st.integers(1, 2))))
        case["output_dim"] = nd
    elif fn == "apply_permutation":
        n = draw(st.integers(1, 5))
        batch = draw(st.sampled_from([(), (), (2,)]))
        a["A"] = T(tuple(batch) + (n, n))
        for side in ("left", "right"):
            if draw(st.integers(0, 3)):
                k = draw(st.integers(1, n))
                perm = gen._nest_fn(batch, lambda _: list(draw(st.permutations(list(range(n)))))[:k])
                a[side] = L.lit(perm, "i64", draw(st.sampled_from(LAYS)))
        case["as_operator"] = draw(st.integers(0, 3)) == 0
    elif fn == "inverse_permutation":
        n = draw(st.integers(1, 6))
        batch = draw(st.sampled_from([(), (), (2,), (2, 2)]))
        perm = gen._nest_fn(batch, lambda _: list(draw(st.permutations(list(range(n))))))
        a["perm"] = L.lit(perm, "i64", draw(st.sampled_from(LAYS)))
    return case


def _set_first(rows, firsts, nb):
    if nb == 0:
        return [firsts] + list(rows[1:])
    return [_set_first(r_, f_, nb - 1) for r_, f_ in zip(rows, firsts)]


def _selected(item, i, sp):
    ind = sp["ind"]["lit"]
    nnz = len(ind[0]) if ind else 0
    if "int" in item:
        return [e for e in range(nnz) if ind[i][e] == item["int"]]
    lo, hi, _ = item["slice"]
    return [e for e in range(nnz) if lo <= ind[i][e] < hi]


def _first_processed_misses(idx, sp):
    """sparse_getitem walks the index items from the LAST to the first; until an item selects >= 1 stored entry its local
    `indices` / `values` ARE the caller's sparse tensor's buffers.  True iff the last item selects no stored entry."""
    return not _selected(idx[-1], len(idx) - 1, sp)


def _hit_entries(idx, sp):
    idx = [dict(x) for x in idx]
    if _first_processed_misses(idx, sp):
        idx[-1] = {"slice": [0, sp["size"][len(idx) - 1], None]}
    return idx


def _run_util(case, plain):
    from linear_operator.operators import DenseLinearOperator
    from linear_operator.utils import cholesky, interpolation, lanczos, permutation, sparse, toeplitz
    from linear_operator.utils.contour_integral_quad import contour_integral_quad as ciq_fn
    from linear_operator.utils.linear_cg import linear_cg as cg_fn
    from linear_operator.utils.minres import minres as minres_fn
    from linear_operator.utils.pinverse import stable_pinverse
    from linear_operator.utils.qr import stable_qr

    out = _Outcome()
    fn = case["fn"]
    tracker = Tracker()
    a = {}
    for k in sorted(case["args"]):
        a[k] = _mat(case["args"][k], plain)
        tracker.add(ROLE[k], k, case["args"][k], a[k])
    sp = None
    if "sp" in case:
        ind = _mat(case["sp"]["ind"], plain)
        val = _mat(case["sp"]["val"], plain)
        tracker.add("index", "sparse.indices", case["sp"]["ind"], ind)
        tracker.add("defining", "sparse.values", case["sp"]["val"], val)
        sp = torch.sparse_coo_tensor(ind, val, tuple(case["sp"]["size"]))
        tracker.add("defining", "sparse", None, sp)
    out.layouts = tracker.layout_vector()
    out.nontrivial = any(not v.endswith(":c") for v in out.layouts)
    sp_dense0 = sp.to_dense().clone() if sp is not None else None
    sp_meta0 = (tuple(sp._indices().shape), tuple(sp._values().shape), tuple(sp.shape)) if sp is not None else None
    tracker.snapshot()
    dtype = L.DT[case["dt"]]

    def closure_of(A, how):
        return A if how == "tensor" else (lambda x: A.matmul(x))

    def run():
        if fn == "linear_cg":
            kw = {}
            if "guess" in a:
                kw["initial_guess"] = a["guess"]
            if "P" in a:
                kw["preconditioner"] = lambda x: x / a["P"]
            if case["max_iter"] is not None:
                kw["max_iter"] = case["max_iter"]
                kw["max_tridiag_iter"] = min(case["max_iter"], 20)
            return cg_fn(closure_of(a["A"], case["closure"]), a["rhs"], n_tridiag=case["n_tridiag"], **kw)
        if fn == "minres":
            kw = {}
            if "P" in a:
                kw["preconditioner"] = lambda x: x / a["P"]
            return minres_fn(closure_of(a["A"], case["closure"]), a["rhs"], shifts=a.get("shifts"), value=case["value"], max_iter=case["max_iter"], **kw)
        if fn == "lanczos_tridiag":
            A = a["A"]
            return lanczos.lanczos_tridiag(
                lambda x: A.matmul(x), case["max_iter"], dtype=dtype, device=A.device, matrix_shape=torch.Size([case["n"], case["n"]]),
                batch_shape=torch.Size(case["batch"]), init_vecs=a.get("init"))
        if fn == "contour_integral_quad":
            return ciq_fn(DenseLinearOperator(a["A"]), a["rhs"], inverse=case["inverse"], num_contour_quadrature=case["Q"])
        if fn == "psd_safe_cholesky":
            kw = {}
            if case["out"]:
                kw["out"] = torch.empty(tuple(a["A"].shape), dtype=a["A"].dtype)  # explicit out= buffer: excepted, not tracked
            return cholesky.psd_safe_cholesky(a["A"], upper=case["upper"], **kw)
        if fn == "stable_qr":
            return stable_qr(a["A"])
        if fn == "stable_pinverse":
            return stable_pinverse(a["A"])
        if fn == "toeplitz":
            return toeplitz.toeplitz(a["col"], a["row"])
        if fn == "sym_toeplitz":
            return toeplitz.sym_toeplitz(a["col"])
        if fn == "toeplitz_getitem":
            return [toeplitz.toeplitz_getitem(a["col"], a["row"], case["i"], case["j"]), toeplitz.sym_toeplitz_getitem(a["col"], case["i"], case["j"])]
        if fn == "toeplitz_matmul":
            return toeplitz.toeplitz_matmul(a["col"], a["row"], a["rhs"])
        if fn == "sym_toeplitz_matmul":
            return toeplitz.sym_toeplitz_matmul(a["col"], a["rhs"])
        if fn == "sym_toeplitz_dqf":
            return toeplitz.sym_toeplitz_derivative_quadratic_form(a["left"], a["right"])
        if fn == "make_sparse":
            return sparse.make_sparse_from_indices_and_values(a["idx"], a["val"], case["num_rows"]).to_dense()
        if fn == "bdsmm":
            return sparse.bdsmm(sp, a["dense"])
        if fn == "sparse_getitem":
            idx = tuple(it["int"] if "int" in it else slice(*it["slice"]) for it in case["index"])
            res = sparse.sparse_getitem(sp, idx if len(idx) > 1 else idx[0])
            return res.to_dense() if torch.is_tensor(res) and res.layout != torch.strided else res
        if fn == "sparse_repeat":
            reps = case["reps"]
            return (sparse.sparse_repeat(sp, tuple(reps)) if len(reps) == 1 else sparse.sparse_repeat(sp, *reps)).to_dense()
        if fn == "to_sparse":
            return sparse.to_sparse(a["dense"]).to_dense()
        if fn == "left_interp":
            return interpolation.left_interp(a["idx"], a["val"], a["rhs"])
        if fn == "left_t_interp":
            return interpolation.left_t_interp(a["idx"], a["val"], a["rhs"], case["output_dim"])
        if fn == "apply_permutation":
            M = DenseLinearOperator(a["A"]) if case["as_operator"] else a["A"]
            return permutation.apply_permutation(M, a.get("left"), a.get("right"))
        if fn == "inverse_permutation":
            return permutation.inverse_permutation(a["perm"])
        raise HarnessError("unknown utility %r" % fn)

    with state.linalg_log() as lines:
        try:
            res = run()
            _force(res)
        except HarnessError:
            raise
        except Exception as e:  # noqa: BLE001
            out.errors[0] = e
    out.labels += ["algo:%s:%s" % (fn, alg) for alg in state.algorithms(lines)]
    bad = tracker.compare()
    if bad is not None:
        it, (symptom, detail) = bad
        out.violation = ("C13|%s|%s|%s|%s" % (fn, it[0], fn, symptom), "%s: tensor %s [layout %s, shape %s] %s" % (fn, it[1], _laycode(it[2], it[3]), tuple(it[3].shape), detail))
        return out
    if sp is not None:
        meta = (tuple(sp._indices().shape), tuple(sp._values().shape), tuple(sp.shape))
        if meta != sp_meta0:
            out.violation = ("C13|%s|defining|%s|stride" % (fn, fn), "%s: the caller's sparse tensor changed (indices shape, values shape, size) %r -> %r" % (fn, sp_meta0, meta))
            return out
        try:
            d1 = sp.to_dense()
        except Exception as e:  # noqa: BLE001
            out.violation = ("C13|%s|defining|%s|mutated" % (fn, fn), "%s: the caller's sparse tensor cannot be densified after the call: %r" % (fn, e))
            return out
        if not _bit_equal(d1, sp_dense0):
            out.violation = ("C13|%s|defining|%s|mutated" % (fn, fn), "%s: the caller's sparse tensor densifies to a different matrix after the call" % fn)
    return out


# ------------------------------------------------------------------------------------------------------------------
# strategy / check
# ------------------------------------------------------------------------------------------------------------------
@st.composite
def cases(draw, tier):
    if draw(st.integers(0, 9)) < 3:
        return draw(util_cases(tier))
    return draw(op_cases(tier))


def strategy(tier):
    return cases(tier)


def _execute(case, plain):
    torch.manual_seed(state.case_seed(case))
    return _run_util(case, plain) if case["kind"] == "util" else _run_ops(case, plain)


def _opname(s):
    return s["op"] + (":" + s["of"]["op"] if "of" in s else "")


def _opnames(case):
    return [case["fn"]] if case["kind"] == "util" else [_opname(s) for s in case["steps"]]


def check(case):
    names = _opnames(case)
    head = case["fn"] if case["kind"] == "util" else case["recipe"]["op"]
    cp = case["fn"] if case["kind"] == "util" else R.class_path(case["recipe"])
    gen_out = _execute(case, plain=False)
    if gen_out.violation is not None:
        raise Violation(gen_out.violation[0], gen_out.violation[1] + " :: ops=%s on %s cell=%s layouts=%s" % (names, cp, case.get("cell"), gen_out.layouts))
    labels = list(gen_out.labels)
    outcome = "ok"
    if gen_out.errors:
        plain_out = _execute(case, plain=True)
        if plain_out.violation is not None:
            raise Violation(plain_out.violation[0], plain_out.violation[1] + " :: (all tensors contiguous) ops=%s on %s cell=%s" % (names, cp, case.get("cell")))
        outcome = "op_failed_both"
        for i, e in sorted(gen_out.errors.items()):
            opn = "build" if i < 0 else names[i]
            if i in plain_out.errors:
                labels.append("failed_both:%s:%s" % (opn, X.describe(e)))
                if _is_inplace_error(e):  # an in-place kernel aimed at an expanded tensor / a leaf in BOTH layouts: made visible
                    labels.append("inplace_error_both:%s:%s" % (opn, X.describe(e)))
                continue
            if _is_inplace_error(e):
                role = _guess_role(case, i, e)
                raise Violation(
                    "C13|%s|%s|%s|attempted_write" % (opn, role, head),
                    "%s raised %r only in the generated layout (it succeeds with every tensor contiguous): an in-place kernel was aimed at "
                    "caller memory :: ops=%s on %s cell=%s layouts=%s where=%s" % (opn, str(e)[:160], names, cp, case.get("cell"), gen_out.layouts, X.describe(e)),
                )
            outcome = "layout_only_exc"
            labels.append("layout_only_exc:%s:%s" % (opn, X.describe(e)))
    labels += ["kind:" + ("util" if case["kind"] == "util" else ("history" if len(names) > 1 else "single")), "outcome:" + outcome]
    labels += ["op:" + n for n in names]
    labels += ["lay:" + v for v in sorted(set(gen_out.layouts))]
    if case["kind"] == "ops":
        labels += ["head:" + head, "cell:" + case["cell"], "steps:%d" % len(names)]
        labels += ["class:" + c for c in R.classes(case["recipe"])]
        if "second" in case:
            labels.append("shared_tensor_second_operator:" + case["second"]["cls"])
        for n in names:
            labels.append("op_outcome:%s:%s" % (n, outcome))
    else:
        labels.append("util_outcome:%s:%s" % (case["fn"], outcome))
    return {
        "nontrivial": bool(gen_out.nontrivial),
        "key": {"ops": names, "cp": cp, "lay": gen_out.layouts, "cell": case.get("cell")},
        "labels": labels,
        "sample": {"ops": names, "on": cp, "cell": case.get("cell"), "layouts": gen_out.layouts, "outcome": outcome},
    }


def _guess_role(case, i, e):
    """Role named in an attempted-write signature: the first argument of the failing step that is expanded / non-contiguous,
    else 'defining'."""
    if case["kind"] == "util":
        for k in sorted(case["args"]):
            l = case["args"][k]
            if "exp" in l or l.get("lay", "c") != "c":
                return ROLE[k]
        return "defining"
    s = case["steps"][i] if i >= 0 else {}
    for k, v in s.items():
        if L.is_lit(v) and ("exp" in v or v.get("lay", "c") != "c"):
            return ROLE[k]
    return "defining"


# ------------------------------------------------------------------------------------------------------------------
# triggers of (proposed) known findings
# ------------------------------------------------------------------------------------------------------------------
def _trig_sparse_getitem(case):
    return case.get("kind") == "util" and case.get("fn") == "sparse_getitem" and _first_processed_misses(case["index"], case["sp"])


def _all_zero(v):
    if isinstance(v, list):
        return all(_all_zero(x) for x in v)
    return v == 0


def _zero_interp_nodes(r):
    return [n for n in R.walk(r) if n["op"] == "Interpolated" and (_all_zero(n["lv"]["lit"]) or _all_zero(n["rv"]["lit"]))]


def _nonzero_interp_values(r):
    """Generator-side avoidance: an all-zero block of interpolation values becomes all ones (both sides alike)."""
    for n in _zero_interp_nodes(r):
        for k in ("lv", "rv"):
            if _all_zero(n[k]["lit"]):
                n[k]["lit"] = gen._map2(n[k]["lit"], lambda v: 1.0)


def _trig_make_sparse(case):
    """All-zero interpolation values reach make_sparse_from_indices_and_values (directly or through InterpolatedLinearOperator)."""
    if case.get("kind") == "util":
        return case.get("fn") == "make_sparse" and _all_zero(case["args"]["val"]["lit"])
    return bool(_zero_interp_nodes(case["recipe"]))


def _stochastic_logdet(cell):
    return cell.get("max_cholesky_size") == 0 and cell.get("fast.log_prob", True)


def _is_iql_backward(s):
    """A backward pass through InvQuadLogdet with a logdet cotangent."""
    if s["op"] == "backward_iql":
        return True
    of = s.get("of") or {}
    return s["op"] == "backward_of" and (of.get("op") == "logdet" or (of.get("op") == "inv_quad_logdet" and of.get("logdet")))


def _trig_iql_backward(case):
    return case.get("kind") == "ops" and any(_is_iql_backward(s) for s in case["steps"]) and _stochastic_logdet(case.get("settings") or {})


TRIGGERS = {
    "iql_backward_stochastic_path": _trig_iql_backward,
    "sparse_getitem_no_entry_selected": _trig_sparse_getitem,
    "all_zero_interp_values": _trig_make_sparse,
}


def gaps(labels):
    out = []
    seen = {k.split(":")[1] for k in labels if k.startswith("op:")}
    want = set(ANY_OPS + SQ_OPS + PD_OPS + UTILS)
    out += ["operation never generated: " + o for o in sorted(want - seen)]
    for lay in ("c", "t", "s", "n", "ec"):
        if not any(k.startswith("lay:") and k.endswith(":" + lay) for k in labels):
            out.append("layout never generated: " + lay)
    for role in ("defining", "rhs", "lhs", "guess", "probe", "index", "shift", "cotangent"):
        if not any(k.startswith("lay:%s:" % role) for k in labels):
            out.append("role never generated: " + role)
    return out


def coverage_extra():
    return {"open_triggers_avoided_by_generator": sorted(_open_triggers()), "settings_cells": CELLS}

