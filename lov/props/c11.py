"""C11 -- MINRES solves all shifted systems; contour-integral quadrature (CIQ) gives the matrix root.

Case kinds
----------
minres   linear_operator.utils.minres(closure, rhs, shifts=, value=, max_iter=, preconditioner=) on K = Q diag(w) Q^T
         (lov.spd, spectrum known), sizes 1..40, kappa <= 1e4, batches, 1..3 columns incl. zero columns, vector rhs,
         shifts None / scalar / vector / batched (>= 0), value None / -1 (the CIQ caller's convention, shifts negated),
         explicit SPD preconditioners (kappa(P) <= 10), minres_tolerance, max_iter / max_cg_iterations, f32 / f64.
ciq      contour_integral_quad(DenseLinearOperator(K), rhs, inverse, num_contour_quadrature, shift_offset) (n <= 20 or
         kappa <= 1e2), observed through a spy (recorded Lanczos eigenvalue estimates, inner MINRES call + iteration count).
sqrtinv  op.sqrt_inv_matmul(rhs[, lhs]) / linear_operator.sqrt_inv_matmul for Dense, AddedDiag (with / without an active
         pivoted-Cholesky preconditioner), Diag, Identity; optionally applied twice.
sample   op.zero_mean_mvn_samples(k) under settings.ciq_samples(True) with the normal draws recorded (torch.randn patched).

Oracle: float64 dense algebra (eigh / solve) on the *materialised* inputs (the dtype-rounded K, rhs, shifts upcast to f64).
u = unit round-off of the dtype (2^-53 / 2^-24).  All norms are 2-norms per column unless stated.

Semantics used (grounded in the only caller, contour_integral_quad):  minres solves (value*K + s*P^{-1}) x = b where the
`preconditioner` closure applies the SPD matrix P (the shift is added to the Lanczos tridiagonal of the *preconditioned*
operator, so with P != I the shifted system is K + s P^{-1}; for s = 0 or P = I this is the statement's (K + sI) x = b).

MINRES sub-checks (signature C11|minres-<name>|minres|<symptom>)
  shape     result shape = [m if shifts.numel() > 1] + broadcast(batch(K), batch(rhs)) + (n, t)  ((n,) for a 1-D rhs), dtype kept.
  finite    finite inputs, SPD system, non-zero rhs column  =>  finite output.
  zero      an exactly zero rhs column gives an exactly zero solution column (iii).
  residual  (i)  j = number of iterations actually run (closure calls - 1).  With A~ = P^{1/2}(vK + sP^{-1})P^{1/2},
            kappa~ = cond(A~), rho = (sqrt(kappa~)-1)/(sqrt(kappa~)+1):
                ||b - (vK + sP^{-1}) x|| / ||b||  <=  sqrt(cond(P)) * [ 2 rho^j/(1+rho^{2j})  +  C_FL * j * u * kappa~^2 ].
            First term: the j-th MINRES iterate minimises the P-norm of the residual over the Krylov space, Chebyshev minimax
            value 1/T_j((kappa+1)/(kappa-1)) (holds for ANY stopping reason, so the every-10th-step / estimated stopping
            quantity is irrelevant; it depends on kappa only, which is what survives loss of orthogonality in finite
            precision (Greenbaum)).  Second term: attainable accuracy of MINRES' three-term search-direction recurrences,
            ||r_j - (b - A x_j)|| <= 3 sqrt(3) j u kappa^2 ||b|| (Sleijpen, van der Vorst, Modersitzki 2000), C_FL = 8.
            sqrt(cond(P)) converts the P-norm to the 2-norm.  No claim is made from minres_tolerance: the stopping quantity
            (mean relative update) bounds nothing rigorously.
  shift     (ii) x(K, shift s_i) versus the same routine on fl(K + s_i I) with shifts=None (no preconditioner, value None):
                ||x_A - x_B|| <= (B_A + B_B + 8 u kappa_s) ||b|| / lambda_min(K + s_i I),   B = the residual bound above for
            each run's own j (error <= residual / lambda_min; 8 u kappa_s for forming K + sI in the dtype).
  linear    (iv) x(b * diag(c)) = x(b) * diag(c) for c_k = +-2^k: the routine normalises each column, scaling by a power of
            two is exact and IEEE arithmetic is sign-symmetric, so the two results agree to 4u elementwise (bitwise expected).

CIQ sub-checks (C11|ciq-<name>|<entry point>|<symptom>)
  shape / finite     documented shapes of (solves, weights, no_shift_solves, shifts) and of sqrt_inv_matmul results.
  solves    each recorded inner solve x_q satisfies (-K + shift_q I) x_q = b with the MINRES residual bound above (value=-1,
            shifts <= 0, j recorded); shift_0 = -shift_offset; only when no preconditioner is active.
  nodes     the returned weights / shifts equal the Hale-Higham-Trefethen (method 3) rule for the *recorded* eigenvalue
            estimates [m, M], re-derived here with real-argument Jacobi functions:  poles p_q = m sc^2(u_q|k'),
            weights (2K' sqrt(m) / (pi Q)) dn/cn^2, u_q = (q-1/2)K'/Q, k'^2 = 1 - m/M;  shifts_q = -p_q - shift_offset,
            lib weights = -w_q.  Tolerance (256 u + 4096 u_64) relative: one cast to the dtype plus the float64 evaluation
            of sn/cn, cn^-2 near the quarter period (condition number <= ~Q K' <= a few hundred).  The oracle rule itself
            is validated on every case against sqrt on [m, M] (HarnessError otherwise).
  quad      when the recorded estimates are accurate (|m - lambda_min| <= 1e-3 lambda_min, same for M) and shift_offset = 0:
            max_i | r(lambda_i) sqrt(lambda_i) - 1 | <= 16 exp(-2 pi^2 Q / (log kappa + 3)) + 256 u, r the rational function of the
            returned weights / shifts evaluated in float64 at the true eigenvalues.  (HHT Theorem 4.1 rate; constant: the
            exact scalar error of the rule is <= 5.4 x rate for kappa in [1, 1e6], Q in 1..30, and grows by <= 1.15 for a 1e-3
            misestimate -- evaluated numerically with the independent rule; 16 = 5.4 * 1.15 rounded up generously.)
            For shift_offset != 0 the comparison point is lambda_i + offset and the tolerance 4 x (error of the oracle rule
            at these points) + 256 u.
  algebra   the value returned by sqrt_inv_matmul / zero_mean_mvn_samples equals the recombination of the recorded pieces
            (lhs @ sum_q w_q solves_q, -(no_shift_solves^T * lhs).sum) to 64 (n+Q) u |.|-magnitude (exact structure).
  root      end to end against float64 eigh:  || lib - K^{-1/2} b || <= ||b|| [ sum_q |w_q| B_q / (lambda_min + |shift_q|)
            + eps_r / sqrt(lambda_min) ] + rounding, eps_r = max_i |r(lambda_i) sqrt(lambda_i) - 1| computed from the recorded
            weights / shifts (so it is implied by solves + nodes/quad + algebra and can never be tighter than theory);
            K^{1/2}: the same with ||K (K+|s|)^{-1}|| <= 1 and sqrt(lambda_max).  Overriding classes (Diag, Identity) use no
            quadrature: 64 n u relative.
  twice     S(S(R)) = A^{-1} R with (eta_1 + eta_2 (1 + eta_1)) ||R|| / lambda_min, eta = the relative bound of each call.
  invquad   left-factor variant: second output = diag(L A^{-1} L^T), tolerance ||L_o||^2 B_0 / lambda_min.

Findings re-found by this check (witnesses in corpus/C11, triggers in TRIGGERS; the generator normalises exactly these
features while the finding is open -- PROPOSED_OPEN until known_findings.json carries the entries; LOV_C11_NO_AVOID=1
switches the avoidance off for adjudication):
  f32_exact_breakdown_zero_shift       float32 + exact Lanczos breakdown (n = 1, eigenvector rhs, K = cI) + a zero shift -> NaN
  ciq_preconditioner_active            AddedDiag with an active preconditioner: non-symmetric root, wrong second output
  identity_lhs_operator_batch_dropped  IdentityLinearOperator.sqrt_inv_matmul(rhs, lhs) ignores the operator batch shape
Mutants killed (DESIGN M): cos_prev1/cos_prev2 swap (minres-residual), masked_fill dropped (minres-zero), shift_offset sign
(ciq-nodes), weights without dn (ciq-nodes), inv_quad without mul_(-1) (ciq-algebra); also sin swap, squeeze rule, rhs norm.
"""
import contextlib
import importlib
import inspect
import math
import os
from unittest import mock

import torch
from hypothesis import strategies as st

from lov import exc as X
from lov import lit as L
from lov import spd, state
from lov.core import HarnessError, Violation
from lov.gen import BATCHES

ID = "C11"
RULE = (
    "case = kind in {minres, ciq, sqrtinv, sample}; SPD K from lov.spd spectrum families (n 1..40 mostly small, kappa in "
    "{1,10,1e2,1e4}; CIQ kinds: n<=20 or kappa<=1e2), batch kinds, rhs with 1..3 columns incl. zero columns / 1-D, shifts "
    "None/scalar/vector/batched, value None/-1, explicit SPD preconditioners, minres_tolerance, max_iter, "
    "num_contour_quadrature, shift_offset, operator class (Dense/AddedDiag/Diag/Identity), f32/f64. Non-trivial: >= 2 "
    "shifts, or a batch, or >= 10 iterations run, or lhs given, or any CIQ kind that ran the quadrature. Distinct by hash "
    "of the whole case."
)
BUDGET = {"quick": 1200, "thorough": 2500}
ASSUMPTIONS = [
    "minres with a preconditioner closure applying P is read as solving (value*K + s*P^{-1}) x = b (what its only caller relies on)",
    "no accuracy claim is derived from minres_tolerance (its stopping quantity is an estimate checked every 10th step); only the "
    "Chebyshev bound for the iterations actually run plus the C_FL*j*u*kappa^2 attainable-accuracy floor",
    "quadrature accuracy is asserted only when the recorded Lanczos estimates of the extreme eigenvalues are accurate to 1e-3",
    "rhs columns are exactly zero or have norm >= 1/8 (the routine's absolute 1e-10 zero threshold is not probed)",
]
TOL = {"C_FL": 8.0, "C_Q": 16.0, "EST_DELTA": 1e-3, "NODES_REL": 256.0, "NODES_F64": 4096.0, "LINEAR_ULPS": 4.0, "ALGEBRA": 64.0}

U = {"f32": 2.0**-24, "f64": 2.0**-53}
DT = {"f32": torch.float32, "f64": torch.float64}
F64 = torch.float64

# findings proposed by this module; treated as open until known_findings.json carries an entry with the same trigger
PROPOSED_OPEN = ("f32_exact_breakdown_zero_shift", "ciq_preconditioner_active", "identity_lhs_operator_batch_dropped")


def _open_triggers():
    from lov.findings import load

    if os.environ.get("LOV_C11_NO_AVOID"):  # adjudication aid: let the search re-find every open finding
        return set()
    status = {t: True for t in PROPOSED_OPEN}
    for e in load():
        if e.get("property") == ID and e.get("trigger"):
            status[e["trigger"]] = e.get("status", "open") == "open"
    return {t for t, is_open in status.items() if is_open}


# ------------------------------------------------------------------------------------------------------------------
# generation
# ------------------------------------------------------------------------------------------------------------------
NS = [1, 1, 2, 2, 2, 3, 3, 3, 4, 4, 5, 5, 6, 6, 7, 8, 9, 10, 11, 12, 13, 16, 20, 24, 30, 40]
SHIFT_MULT = [0.0, 0.0, 0.125, 0.5, 1.0, 2.0, 8.0, 2.0**-10]


def _nest(flat, shape):
    if not shape:
        return flat[0]
    if len(shape) == 1:
        return list(flat[: shape[0]])
    step = 1
    for s in shape[1:]:
        step *= s
    return [_nest(flat[i * step : (i + 1) * step], shape[1:]) for i in range(shape[0])]


def _numel(shape):
    p = 1
    for s in shape:
        p *= s
    return p


def _draw_rhs(draw, dt, batch, n, t, vector=False, zero_col=None, nonzero_first=False):
    """Grid rhs (multiples of 1/4 in [-4, 4]); `zero_col` is zeroed in every batch member; other columns never zero."""
    shape = tuple(batch) + ((n,) if vector else (n, t))
    flat = draw(st.lists(st.integers(-16, 16), min_size=_numel(shape), max_size=_numel(shape)))
    x = torch.tensor([v / 4.0 for v in flat], dtype=F64).reshape(shape)
    if vector:
        x = x.unsqueeze(-1)
    nrm = x.norm(dim=-2)
    fix = nrm == 0
    if fix.any():  # accidental zero columns: put 1/2 into the first row (construction, not rejection)
        x[..., 0, :] = torch.where(fix, torch.full_like(nrm, 0.5), x[..., 0, :])
    if zero_col is not None:
        x[..., :, zero_col] = 0.0
    if vector:
        x = x.squeeze(-1)
    return L.lit(x.tolist(), dt)


def _batches(draw):
    full = draw(st.sampled_from(BATCHES))
    if not full:
        return (), (), ()
    how = draw(st.sampled_from(["both", "both", "op", "rhs"]))
    return full, (full if how != "rhs" else ()), (full if how != "op" else ())


@st.composite
def _spec(draw, n, batch, kappas):
    return draw(spd.specs(max_n=n, min_n=n, batches=(tuple(batch),), kappas=kappas))


@st.composite
def minres_cases(draw, tier):
    dt = draw(st.sampled_from(["f64", "f64", "f32"]))
    n = draw(st.sampled_from(NS))
    full, kb, rb = _batches(draw)
    spec = draw(_spec(n, kb, [1.0, 10.0, 10.0, 1e2, 1e2, 1e4]))
    t = draw(st.integers(1, 3))
    vector = (not rb) and draw(st.integers(0, 3)) == 0
    if vector:
        t = 1
    zero_col = draw(st.integers(0, t - 1)) if draw(st.integers(0, 2)) == 0 else None
    rhs = _draw_rhs(draw, dt, rb, n, t, vector=vector, zero_col=zero_col)
    value = draw(st.sampled_from([-1.0, -1.0, 2.5, 0.25, -3.0])) if draw(st.integers(0, 3)) == 0 else None  # (value K + s I) x = b
    sk = draw(st.sampled_from(["none", "scalar", "vec", "vec", "batched" if full else "vec"]))
    lmax = spec["lmax"]
    sgn = -1.0 if (value is not None and value < 0) else 1.0  # shifts of the sign of `value`: the systems stay definite
    if sk == "none":
        shifts = None
    elif sk == "scalar":
        shifts = L.lit(sgn * lmax * draw(st.sampled_from(SHIFT_MULT)), dt)
    else:
        m = draw(st.integers(1, 3))
        shp = (m,) + (tuple(full) if sk == "batched" else ())
        vals = [sgn * lmax * draw(st.sampled_from(SHIFT_MULT)) for _ in range(_numel(shp))]
        shifts = L.lit(_nest(vals, list(shp)), dt)
    pk = draw(st.sampled_from(["none", "none", "none", "diag", "spd"]))
    if pk == "diag":
        pre = {"diag": [draw(st.sampled_from([0.5, 1.0, 2.0, 4.0])) for _ in range(n)]}
    elif pk == "spd":
        pre = {"spec": draw(spd.specs(max_n=n, min_n=n, batches=((),), kappas=[1.0, 10.0]))}
    else:
        pre = None
    max_iter = draw(st.sampled_from([None, None, None, 1, 2, 3, 5, 10, 20, 50]))
    cell = {}
    if draw(st.booleans()):
        cell["minres_tolerance"] = draw(st.sampled_from([1e-2, 1e-8, 1e-12, 1e-1]))
    if max_iter is None and draw(st.integers(0, 3)) == 0:
        cell["max_cg_iterations"] = draw(st.sampled_from([2, 5, 15]))
    scale = [draw(st.sampled_from([-1.0, 2.0, -0.5, 4.0, 0.25])) for _ in range(t)]
    case = {
        "kind": "minres", "dt": dt, "spec": spec, "rhs": rhs, "shifts": shifts, "value": value, "pre": pre,
        "max_iter": max_iter, "settings": cell, "scale": scale, "pick": draw(st.integers(0, 5)),
    }
    return _avoid_known(case)


@st.composite
def ciq_cases(draw, tier):
    dt = draw(st.sampled_from(["f64", "f64", "f32"]))
    n = draw(st.sampled_from(NS))
    full, kb, rb = _batches(draw)
    kappas = [1.0, 10.0, 1e2, 1e2, 1e4] if n <= 20 else [1.0, 10.0, 1e2]
    kind = draw(st.sampled_from(["ciq", "ciq", "sqrtinv", "sqrtinv", "sqrtinv", "sample", "ciq_precond"]))
    if kind == "ciq_precond":
        # K^{1/2} b (inverse=False, the sampling direction) on an AddedDiag operator whose pivoted-Cholesky preconditioner is ACTIVE
        n2 = draw(st.sampled_from([m_ for m_ in NS if 3 <= m_ <= 12] or [6]))
        spec = draw(_spec(n2, (), [10.0, 10.0, 1e2]))
        t = draw(st.integers(1, 3))
        return {
            "kind": kind, "dt": "f64", "spec": spec, "rhs": _draw_rhs(draw, "f64", (), n2, t),
            "rank": draw(st.integers(1, max(1, n2 - 1))), "const_diag": draw(st.booleans()),
            "settings": {"min_preconditioning_size": 0, "minres_tolerance": 1e-10, "num_contour_quadrature": 20},
        }
    case = {"kind": kind, "dt": dt, "settings": {}}
    Q = draw(st.sampled_from([None, None, 3, 5, 8, 10, 20]))
    if kind == "ciq":
        case["spec"] = draw(_spec(n, kb, kappas))
        t = draw(st.integers(1, 3))
        zc = draw(st.integers(0, t - 1)) if draw(st.integers(0, 3)) == 0 else None
        case["rhs"] = _draw_rhs(draw, dt, rb, n, t, zero_col=zc)
        case["inverse"] = draw(st.booleans())
        case["Q"] = Q if draw(st.booleans()) else None
        if case["Q"] is None and Q is not None:
            case["settings"]["num_contour_quadrature"] = Q
        case["offset"] = 0.0
        if case["inverse"] and draw(st.booleans()):
            case["offset"] = draw(st.sampled_from([0.5, 2.0])) * case["spec"]["lmax"] / case["spec"]["kappa"]
    elif kind == "sqrtinv":
        cls = draw(st.sampled_from(["dense", "dense", "dense", "addeddiag", "addeddiag", "diag", "identity"]))
        case["cls"] = cls
        if cls in ("dense", "addeddiag"):
            case["spec"] = draw(_spec(n, kb, kappas))
        else:
            case["n"], case["batch"] = n, list(kb)
        if cls == "addeddiag":
            const = draw(st.booleans())
            dv = [draw(st.sampled_from([0.25, 0.5, 1.0, 2.0])) for _ in range(n)]
            case["diag"] = [dv[0]] * n if const else dv
            if draw(st.booleans()):
                case["settings"]["min_preconditioning_size"] = draw(st.sampled_from([1, n]))
                case["settings"]["max_preconditioner_size"] = draw(st.sampled_from([1, 2, 3, 15]))
        if cls == "diag":
            case["diag"] = _nest([draw(st.sampled_from([0.25, 0.5, 1.0, 2.0, 3.0, 8.0])) for _ in range(_numel(kb) * n)], list(kb) + [n])
        t = draw(st.integers(1, 3))
        vector = (not rb) and (not kb) and draw(st.integers(0, 3)) == 0
        zc = draw(st.integers(0, t - 1)) if (not vector and draw(st.integers(0, 3)) == 0) else None
        case["rhs"] = _draw_rhs(draw, dt, rb, n, 1 if vector else t, vector=vector, zero_col=zc)
        case["lhs"] = None
        if not vector and draw(st.integers(0, 2)) == 0:
            o = draw(st.integers(1, 3))
            case["lhs"] = _draw_rhs(draw, dt, rb, o, n)  # (*rb, o, n), no zero "columns" needed
        case["twice"] = case["lhs"] is None and draw(st.integers(0, 2)) == 0
        case["via"] = draw(st.sampled_from(["method", "function"]))
        if Q is not None:
            case["settings"]["num_contour_quadrature"] = Q
    else:
        case["spec"] = draw(_spec(n, kb, kappas))
        case["num"] = draw(st.integers(1, 3))
        if Q is not None:
            case["settings"]["num_contour_quadrature"] = Q
    return _avoid_known(case)


def strategy(tier):
    return st.one_of(minres_cases(tier), minres_cases(tier), ciq_cases(tier))


# ------------------------------------------------------------------------------------------------------------------
# materialisation, triggers, generator-side avoidance of open findings
# ------------------------------------------------------------------------------------------------------------------
def _dense_K(case):
    """The matrix handed to the library, in the case dtype (dense / addeddiag / minres / ciq / sample kinds)."""
    A, _, _ = spd.build(case["spec"])
    return A.to(DT[case["dt"]])


def _precond_matrix(case, n):
    pre = case.get("pre")
    if pre is None:
        return None
    if "diag" in pre:
        return torch.diag(torch.tensor(pre["diag"], dtype=F64)).to(DT[case["dt"]])
    return spd.build(pre["spec"])[0].to(DT[case["dt"]])


def _loop_iters(case, n):
    mi = case.get("max_iter")
    if mi is None:
        mi = case.get("settings", {}).get("max_cg_iterations", 1000)
    return min(mi, n + 1) + 2


def _exact_breakdown(mm, rhs, precond, iters, value):
    """Replays the Lanczos half of minres with the same torch ops. True iff, for a non-zero rhs column, the next Lanczos
    vector is *exactly* zero at an iteration that is followed by another one (then q = 0, alpha = 0, beta is clamped to
    eps = 1e-25 and, with a zero shift, the Givens radius sqrt(0^2 + eps^2) underflows to 0 in float32 -> 0/0)."""
    if rhs.dim() == 1:
        rhs = rhs.unsqueeze(-1)
    rhs_norm = rhs.norm(2, dim=-2, keepdim=True)
    zero = rhs_norm.lt(1e-10)
    rhs = rhs.div(rhs_norm.masked_fill(zero, 1))
    prod = mm(rhs)
    z2 = torch.zeros_like(prod)
    z1 = rhs.clone().expand_as(prod).contiguous()
    q1 = precond(z1)
    beta_prev = (z1 * q1).sum(dim=-2, keepdim=True).sqrt_()
    z1.div_(beta_prev)
    q1.div_(beta_prev)
    eps = torch.tensor(1e-25, dtype=rhs.dtype)
    for _ in range(iters - 1):
        prod = mm(q1)
        if value is not None:
            prod.mul_(value)
        alpha = (prod * q1).sum(-2, keepdim=True)
        zc = prod.addcmul_(alpha, z1, value=-1).addcmul_(beta_prev, z2, value=-1)
        qc = precond(zc)
        beta = (zc * qc).sum(-2, keepdim=True).sqrt_()
        if (((zc == 0).all(dim=-2, keepdim=True)) & ~zero).any():
            return True
        beta.clamp_min_(eps)
        zc.div_(beta)
        qc.div_(beta)
        z2, z1, q1, beta_prev = z1, zc, qc, beta
    return False


def _has_zero_shift(case):
    if case["kind"] != "minres":
        return True  # the quadrature always carries the unshifted solve
    if case["shifts"] is None:
        return True
    return bool((L.value(case["shifts"]) == 0).any())


def _shiftcheck_applies(case):
    return case["shifts"] is not None and case.get("pre") is None and case.get("value") is None and not case.get("no_shiftcheck")


def _trig_breakdown(case):
    if case.get("dt") != "f32":
        return False
    kind = case["kind"]
    if kind == "sample" or (kind == "sqrtinv" and (case.get("lhs") is None or case["cls"] not in ("dense", "addeddiag"))):
        return False  # the unshifted solve is not part of what these return
    K = _dense_K(case)
    if kind == "sqrtinv" and case["cls"] == "addeddiag":
        K = K + torch.diag(torch.tensor(case["diag"], dtype=K.dtype))
    n = K.shape[-1]
    rhs = L.materialise(case["rhs"])
    if kind == "minres":
        P = _precond_matrix(case, n)
        pre = (lambda v: v.clone()) if P is None else (lambda v: P @ v)
        it = _loop_iters(case, n)
        if _has_zero_shift(case) and _exact_breakdown(lambda v: K @ v, rhs, pre, it, case.get("value")):
            return True
        if _shiftcheck_applies(case):  # sub-check (ii) re-runs the routine on K + s_i I with a zero shift
            sh = L.materialise(case["shifts"])
            s_i = sh[case.get("pick", 0) % sh.shape[0]] if sh.dim() >= 1 else sh
            Ks = K + s_i.reshape(list(s_i.shape) + [1, 1]) * torch.eye(n, dtype=K.dtype)
            return _exact_breakdown(lambda v: Ks @ v, rhs, pre, it, None)
        return False
    if kind == "sqrtinv":
        rhs = torch.cat([rhs, L.materialise(case["lhs"]).mT], dim=-1)
    return _exact_breakdown(lambda v: K @ v, rhs, lambda v: v.clone(), min(1000, n + 1) + 2, -1.0)


def _trig_precond(case):
    if case.get("kind") != "sqrtinv" or case.get("cls") != "addeddiag":
        return False
    cell = case.get("settings", {})
    n = case["spec"]["n"]
    return cell.get("min_preconditioning_size", 2000) <= n and cell.get("max_preconditioner_size", 15) > 0


def _trig_identity(case):
    """IdentityLinearOperator.sqrt_inv_matmul(rhs, lhs): the operator's batch shape is not covered by the operands' batch."""
    if case.get("kind") != "sqrtinv" or case.get("cls") != "identity" or case.get("lhs") is None:
        return False
    rb = tuple(L.shape_of(case["rhs"])[:-2])
    return _bshape(tuple(case["batch"]), rb) != rb


TRIGGERS = {
    "f32_exact_breakdown_zero_shift": _trig_breakdown,
    "ciq_preconditioner_active": _trig_precond,
    "identity_lhs_operator_batch_dropped": _trig_identity,
}


def _retype(l, dt):
    if l is not None:
        l["dt"] = dt
    return l


def _avoid_known(case):
    """Generator-side exclusion: normalise exactly the triggering feature of every *open* finding (DESIGN 1.6.4)."""
    open_t = _open_triggers()
    avoided = []
    if "ciq_preconditioner_active" in open_t and _trig_precond(case):
        case["settings"].pop("min_preconditioning_size", None)
        case["settings"].pop("max_preconditioner_size", None)
        avoided.append("ciq_preconditioner_active")
    if "identity_lhs_operator_batch_dropped" in open_t and _trig_identity(case):
        case["batch"] = list(L.shape_of(case["rhs"])[:-2])
        avoided.append("identity_lhs_operator_batch_dropped")
    if "f32_exact_breakdown_zero_shift" in open_t and _trig_breakdown(case):
        if case["kind"] == "minres":
            bump = (-1.0 if (case.get("value") is not None and case["value"] < 0) else 1.0) * 0.125 * case["spec"]["lmax"]
            if case["shifts"] is None:
                case["shifts"] = L.lit(bump, "f32")
            else:
                v = L.value(case["shifts"])
                case["shifts"] = L.lit(torch.where(v == 0, torch.full_like(v, bump), v).tolist(), "f32")
            if _trig_breakdown(case):
                case["no_shiftcheck"] = True
        else:
            case["dt"] = "f64"
            _retype(case.get("rhs"), "f64")
            _retype(case.get("lhs"), "f64")
        avoided.append("f32_exact_breakdown_zero_shift")
    if avoided:
        case["avoided"] = avoided
    return case


# ------------------------------------------------------------------------------------------------------------------
# oracle helpers
# ------------------------------------------------------------------------------------------------------------------
def _cheb(kappa, j):
    """1 / T_j((kappa+1)/(kappa-1)) = 2 rho^j / (1 + rho^{2j})."""
    if kappa <= 1.0:
        return 0.0 if j > 0 else 1.0
    rho = (math.sqrt(kappa) - 1.0) / (math.sqrt(kappa) + 1.0)
    rj = rho**j
    return 2.0 * rj / (1.0 + rj * rj)


def _res_bound(kappa, j, u, kp=1.0):
    return math.sqrt(kp) * (_cheb(kappa, j) + TOL["C_FL"] * max(j, 1) * u * kappa * kappa)


def _fail(check, where, symptom, detail):
    raise Violation("C11|%s|%s|%s" % (check, where, symptom), detail)


def _bshape(*shapes):
    return tuple(torch.broadcast_shapes(*[tuple(s) for s in shapes]))


def _counting(mat, cnt):
    def mm(v):
        cnt[0] += 1
        return mat @ v

    return mm


# ------------------------------------------------------------------------------------------------------------------
# MINRES
# ------------------------------------------------------------------------------------------------------------------
def _spectrum_info(M, P64):
    """kappa of the (preconditioned) system matrices M (.., n, n), smallest |eigenvalue| of M itself, cond(P)."""
    ev = torch.linalg.eigvalsh(0.5 * (M + M.mT))
    lam_min = ev.abs().min(dim=-1)[0]
    if P64 is None:
        evp, kp = ev, 1.0
    else:
        Lc = torch.linalg.cholesky(P64)
        At = Lc.mT @ M @ Lc
        evp = torch.linalg.eigvalsh(0.5 * (At + At.mT))
        pe = torch.linalg.eigvalsh(P64)
        kp = float(pe.max() / pe.min())
    a = evp.abs()
    if not bool(((evp > 0).all(dim=-1) | (evp < 0).all(dim=-1)).all()) or float(a.min()) <= 0:
        raise HarnessError("generated system is not definite")
    return a.max(dim=-1)[0] / a.min(dim=-1)[0], lam_min, kp


def _bound_tensor(kappa, j, u, kp):
    return torch.tensor([_res_bound(float(k), j, u, kp) for k in kappa.reshape(-1)], dtype=F64).reshape(kappa.shape)


def _check_minres(case):
    from linear_operator.utils import minres

    dtn = case["dt"]
    dt, u = DT[dtn], U[dtn]
    K = _dense_K(case)
    n = K.shape[-1]
    rhs = L.materialise(case["rhs"])
    shifts = None if case["shifts"] is None else L.materialise(case["shifts"])
    value = case.get("value")
    P = _precond_matrix(case, n)
    cell, max_iter = case.get("settings", {}), case.get("max_iter")
    vector = rhs.dim() == 1

    def run(mat, rhs_t, sh, pre=True):
        cnt = [0]
        kw = {}
        if P is not None and pre:
            kw["preconditioner"] = lambda v: P @ v
        with state.apply_settings(cell):
            out = minres(_counting(mat, cnt), rhs_t.clone(), shifts=None if sh is None else sh.clone(), value=value, max_iter=max_iter, **kw)
        return out, cnt[0] - 1

    def attempt(name, *a, **k):
        try:
            return run(*a, **k)
        except Exception as e:
            _fail("minres-" + name, "minres", "exc:" + X.describe(e), "minres raised %r" % (e,))

    x, j = attempt("run", K, rhs, shifts)

    # ---- (v) shape / dtype
    b64 = rhs.double().unsqueeze(-1) if vector else rhs.double()
    t = b64.shape[-1]
    pbatch = _bshape(K.shape[:-2], b64.shape[:-2])
    numel = 1 if shifts is None else shifts.numel()
    lead = (shifts.shape[0],) if numel > 1 else ()
    want = lead + pbatch + ((n,) if vector else (n, t))
    if not torch.is_tensor(x) or tuple(x.shape) != want:
        _fail("minres-shape", "minres", "shape", "result shape %s, expected %s (shifts %s, rhs %s, K %s)" % (
            tuple(getattr(x, "shape", ())), want, None if shifts is None else tuple(shifts.shape), tuple(rhs.shape), tuple(K.shape)))
    if x.dtype != dt:
        _fail("minres-shape", "minres", "dtype", "result dtype %s for %s inputs" % (x.dtype, dt))
    X64 = x.double()
    if vector:
        X64 = X64.unsqueeze(-1)
    if not lead:
        X64 = X64.unsqueeze(0)

    # ---- reference systems
    K64 = K.double()
    P64 = None if P is None else P.double()
    if shifts is None:
        S = torch.zeros((1,) * (len(pbatch) + 3), dtype=F64)
    else:
        S = shifts.double()
        S = S.reshape(list(S.shape) + [1] * (len(pbatch) + 3 - S.dim()))
    Pinv = torch.eye(n, dtype=F64) if P64 is None else torch.linalg.inv(P64)
    M = (K64 if value is None else value * K64) + S * Pinv
    kappa, lam_min, kp = _spectrum_info(M, P64)
    bnorm = b64.norm(dim=-2)
    zero = bnorm == 0
    zero_full = zero.expand(X64.shape[:-2] + (t,)) if zero.dim() else zero
    colnorm = X64.abs().amax(dim=-2)

    # ---- finite / (iii) zero
    bad = ~torch.isfinite(X64).all(dim=-2)
    if bool((bad & ~zero_full).any()):
        _fail("minres-finite", "minres", "nan", "non-finite solution for a non-zero rhs column (n=%d, %s, j=%d, shifts=%s)" % (
            n, dtn, j, None if shifts is None else shifts.tolist()))
    if bool((zero_full & (bad | (colnorm != 0))).any()):
        _fail("minres-zero", "minres", "nan" if bool((zero_full & bad).any()) else "value", "zero rhs column does not give a zero solution column")

    # ---- (i) residual
    R = b64 - M @ X64
    rel = R.norm(dim=-2) / torch.where(zero, torch.ones_like(bnorm), bnorm)
    B = _bound_tensor(kappa, j, u, kp)
    ratio = torch.where(zero_full, torch.zeros_like(rel), rel / B.unsqueeze(-1))
    if float(ratio.max()) > 1.0:
        i = int(torch.argmax(ratio.reshape(-1)))
        _fail("minres-residual", "minres", "value", "relative residual %.3g > bound %.3g (kappa=%.3g, j=%d, n=%d, %s, cond(P)=%.3g)" % (
            float(rel.reshape(-1)[i]), float(rel.reshape(-1)[i] / ratio.reshape(-1)[i]), float(kappa.max()), j, n, dtn, kp))

    # ---- (ii) shift invariance
    labels = []
    if _shiftcheck_applies(case):
        i = case.get("pick", 0) % X64.shape[0]
        s_i = shifts[i] if shifts.dim() >= 1 else shifts
        Ks = K + s_i.reshape(list(s_i.shape) + [1, 1]) * torch.eye(n, dtype=dt)
        xb, jb = attempt("shift", Ks, rhs, None)
        XB = xb.double().unsqueeze(-1) if vector else xb.double()
        if XB.shape != X64.shape[1:]:
            _fail("minres-shift", "minres", "shape", "shift-0 solve of K+sI has shape %s, shifted solve %s" % (tuple(XB.shape), tuple(X64.shape[1:])))
        Bb = _bound_tensor(kappa[i], jb, u, 1.0)
        tol_ii = (B[i] + Bb + 8 * u * kappa[i]).unsqueeze(-1) * bnorm / lam_min[i].unsqueeze(-1)
        if bool((~torch.isfinite(XB).all(dim=-2) & ~zero).any()):
            _fail("minres-finite", "minres", "nan", "non-finite shift-0 solve of K+sI for a non-zero rhs column (n=%d, %s, j=%d)" % (n, dtn, jb))
        diff = (X64[i] - XB).norm(dim=-2)
        exceed = (diff > tol_ii) & ~zero
        if bool(exceed.any()):
            _fail("minres-shift", "minres", "value", "solve with shift %s differs from the shift-0 solve of K+sI by %.3g > %.3g (j=%d / %d)" % (
                s_i.tolist(), float(diff.max()), float(tol_ii.min()), j, jb))
        labels.append("shiftcheck:same_j" if jb == j else "shiftcheck:diff_j")

    # ---- (iv) scaling
    c = torch.tensor(case["scale"][:t], dtype=dt)
    xc, jc = attempt("linear", K, rhs * (c[0] if vector else c), shifts)
    expect = x * (c[0] if vector else c)
    if xc.shape != expect.shape or jc != j:
        _fail("minres-linear", "minres", "shape", "scaled rhs: shape %s vs %s, iterations %d vs %d" % (tuple(xc.shape), tuple(expect.shape), jc, j))
    d = (xc.double() - expect.double()).abs()
    lim = TOL["LINEAR_ULPS"] * u * expect.double().abs()
    if not bool((torch.isfinite(xc) | ~torch.isfinite(expect)).all()) or bool((d > lim)[torch.isfinite(expect)].any()):
        _fail("minres-linear", "minres", "value", "x(b*c) != x(b)*c for c=%s: max abs deviation %.3g" % (c.tolist(), float(d[torch.isfinite(d)].max()) if d.numel() else 0.0))

    cap = _loop_iters(case, n)
    weak = float(B.min()) >= 0.5
    sk = "none" if shifts is None else ("scalar" if shifts.dim() == 0 else ("vec%d" % shifts.shape[0] if shifts.dim() == 1 else "batched%d" % shifts.shape[0]))
    labels += [
        "kind:minres", "dtype:" + dtn, "n:%s" % _nb(n), "kappa:%g" % case["spec"]["kappa"], "batch:%d" % len(pbatch), "shifts:" + sk,
        "pre:" + ("none" if P is None else ("diag" if "diag" in case["pre"] else "spd")), "value:%s" % value,
        "iters:%s" % ("<10" if j < 10 else ("10-19" if j < 20 else ">=20")), "stop:" + ("cap" if j >= cap else "converged"),
        "rhs:" + ("vector" if vector else "cols%d" % t), "zero_col:%s" % bool(zero.any()), "residual_bound:" + ("weak" if weak else "strong"),
    ]
    if numel == 1 and shifts is not None and shifts.dim() >= 1:
        labels.append("shifts:single_element_tensor")
    return {"nontrivial": numel >= 2 or len(pbatch) > 0 or j >= 10, "labels": labels}


def _nb(n):
    return "1" if n == 1 else ("2-4" if n <= 4 else ("5-10" if n <= 10 else ("11-20" if n <= 20 else "21-40")))


# ------------------------------------------------------------------------------------------------------------------
# contour-integral quadrature: spy, oracle rule, analysis of one recorded call
# ------------------------------------------------------------------------------------------------------------------
def _mods():
    import linear_operator.utils as lu

    return lu, importlib.import_module("linear_operator.utils.contour_integral_quad")


def _clone(o):
    return o.detach().clone() if torch.is_tensor(o) else o


@contextlib.contextmanager
def _spy(randn=False):
    """Record every contour_integral_quad call (arguments, outputs), the Lanczos eigenvalue estimates it computed
    (torch.linalg.eigvalsh), its inner minres call (rhs, shifts, result, iterations) and optionally torch.randn draws."""
    lu, cm = _mods()
    real_ciq, real_minres, real_eig, real_randn = cm.contour_integral_quad, cm.minres, torch.linalg.eigvalsh, torch.randn
    sig = inspect.signature(real_ciq)
    rec = {"calls": [], "randn": []}
    stack = []

    def ciq(*a, **k):
        ba = sig.bind(*a, **k)
        ba.apply_defaults()
        ent = {"args": dict(ba.arguments), "depth": len(stack), "eigs": None, "minres": None, "nested": 0, "rhs_in": _clone(ba.arguments["rhs"])}
        if stack:
            stack[-1]["nested"] += 1
        stack.append(ent)
        try:
            out = real_ciq(*a, **k)
        finally:
            stack.pop()
        ent["out"] = tuple(_clone(o) for o in out)
        rec["calls"].append(ent)
        return out

    def mres(closure, rhs, *a, **k):
        cnt = [0]

        def mm(v):
            cnt[0] += 1
            return closure(v)

        out = real_minres(mm, rhs, *a, **k)
        if stack:
            stack[-1]["minres"] = {"j": cnt[0] - 1, "rhs": _clone(rhs), "kw": {kk: _clone(vv) for kk, vv in k.items()}, "out": _clone(out)}
        return out

    def eig(x, *a, **k):
        out = real_eig(x, *a, **k)
        if stack and stack[-1]["eigs"] is None:
            stack[-1]["eigs"] = _clone(out)
        return out

    def rn(*a, **k):
        out = real_randn(*a, **k)
        rec["randn"].append(out.clone())
        return out

    with contextlib.ExitStack() as es:
        es.enter_context(mock.patch.object(cm, "contour_integral_quad", ciq))
        es.enter_context(mock.patch.object(lu, "contour_integral_quad", ciq))
        es.enter_context(mock.patch.object(cm, "minres", mres))
        es.enter_context(mock.patch.object(torch.linalg, "eigvalsh", eig))
        if randn:
            es.enter_context(mock.patch.object(torch, "randn", rn))
        yield rec


def _hht_rule(m, k2, Q):
    """Hale-Higham-Trefethen method 3 for A^{-1/2} on [m, M], k2 = m/M:  A^{-1/2} ~ sum_q wts_q (A + poles_q I)^{-1}."""
    import numpy as np
    from scipy.special import ellipj, ellipk

    kc2 = 1.0 - k2  # squared complementary modulus
    Kp = float(ellipk(kc2))
    uq = (np.arange(1, Q + 1) - 0.5) * Kp / Q
    sn, cn, dn, _ = ellipj(uq, kc2)
    poles = m * (sn / cn) ** 2
    wts = (2.0 * Kp * math.sqrt(m) / (math.pi * Q)) * dn / cn**2
    return torch.tensor(poles, dtype=F64), torch.tensor(wts, dtype=F64)


def _hht_rate(kappa, Q):
    return math.exp(-2.0 * math.pi**2 * Q / (math.log(max(kappa, 1.0)) + 3.0))


def _validate_rule(m, M, Q, poles, wts):
    lam = torch.exp(torch.linspace(math.log(m), math.log(M), 65, dtype=F64))
    err = float(((wts / (lam.unsqueeze(-1) + poles)).sum(-1) * lam.sqrt() - 1).abs().max())
    if not err <= 8.0 * _hht_rate(M / m, Q) + 1e-12:
        raise HarnessError("oracle quadrature rule fails its own validation: err %.3g on [%g, %g], Q=%d" % (err, m, M, Q))


def _analyse(ent, Kdt, ew, u, dtn, where, noshift_observable):
    """Sub-checks solves / nodes / quad on one recorded top-level call. Returns per-call error bounds for `root`.
    Kdt: dense matrix of the operator in its dtype (*kb, n, n); ew: float64 eigenvalues of it (*kb, n), ascending."""
    solves, weights, nss, shifts = ent["out"]
    inverse = bool(ent["args"]["inverse"])
    off = float(ent["args"]["shift_offset"])
    n = Kdt.shape[-1]
    K64 = Kdt.double()
    b = ent["rhs_in"].double()
    t = b.shape[-1]
    kb = tuple(Kdt.shape[:-2])
    ob = _bshape(kb, b.shape[:-2])
    Q = weights.shape[0]
    labels = ["Q:%d" % Q]
    want = {"solves": (Q,) + ob + (n, t), "weights": (Q,) + ob + (1, 1), "no_shift_solves": ob + (n, t), "shifts": (Q + 1,) + ob}
    got = {"solves": tuple(solves.shape), "weights": tuple(weights.shape), "no_shift_solves": tuple(nss.shape), "shifts": tuple(shifts.shape)}
    if got != want:
        _fail("ciq-shape", where, "shape", "contour_integral_quad outputs %r, expected %r" % (got, want))
    if not bool(torch.isfinite(weights).all() and torch.isfinite(shifts).all()):
        _fail("ciq-finite", where, "nan", "non-finite quadrature weights / shifts (n=%d, %s)" % (n, dtn))
    lam_min, lam_max = ew[..., 0], ew[..., -1]
    kappa = lam_max / lam_min
    sh = shifts.double()  # (Q+1, *ob)
    w = weights.double().reshape((Q,) + ob)
    ewb = ew.expand(ob + (n,)) if ew.dim() - 1 <= len(ob) else ew
    ev = sh.unsqueeze(-1) - ewb  # eigenvalues of -K + shift_q I
    if not bool((ev < 0).all()):
        _fail("ciq-nodes", where, "value", "a returned shift is not below the spectrum: max(shift - lambda_min) = %.3g" % float(ev.max()))
    kq = ev.abs().amax(-1) / ev.abs().amin(-1)  # (Q+1, *ob)
    lq = ev.abs().amin(-1)
    precond = ent["nested"] > 0 or (ent["minres"] is not None and ent["minres"]["kw"].get("preconditioner") is not None)
    bnorm = b.norm(dim=-2)  # (*rb, t)
    zero = bnorm == 0
    j = ent["minres"]["j"] if ent["minres"] is not None else 0
    Bq = _bound_tensor(kq, j, u, 1.0)  # (Q+1, *ob)

    # ---- solves: the inner MINRES call
    if ent["minres"] is not None and not precond:
        Xm = ent["minres"]["out"].double()  # (Q+1, *ob, n, t)
        bm = ent["minres"]["rhs"].double()
        fin = torch.isfinite(Xm).all(dim=-2)  # (Q+1, *ob, t)
        zf = zero.expand(fin.shape[1:])
        badq = ~fin & ~zf
        if not noshift_observable:
            badq[0] = False
        if bool(badq.any()):
            q = int(torch.nonzero(badq.reshape(Q + 1, -1).any(-1))[0])
            _fail("ciq-finite", where, "nan", "non-finite %s for a non-zero rhs column (n=%d, %s, j=%d)" % (
                "unshifted solve" if q == 0 else "solve at quadrature node %d" % q, n, dtn, j))
        Xs = torch.where(torch.isfinite(Xm), Xm, torch.zeros_like(Xm))
        R = bm + K64 @ Xs - sh.reshape(sh.shape + (1, 1)) * Xs
        rel = R.norm(dim=-2) / torch.where(zero, torch.ones_like(bnorm), bnorm)
        ratio = torch.where(zf.expand(rel.shape) | ~fin, torch.zeros_like(rel), rel / Bq.unsqueeze(-1))
        if float(ratio.max()) > 1.0:
            i = int(torch.argmax(ratio.reshape(-1)))
            _fail("ciq-solves", where, "value", "shifted solve residual %.3g > bound %.3g (j=%d, n=%d, kappa=%.3g, %s)" % (
                float(rel.reshape(-1)[i]), float((rel / ratio).reshape(-1)[i]), j, n, float(kappa.max()), dtn))
        zsol = zf.expand(fin.shape) & ((Xs.abs().amax(dim=-2) != 0) | ~fin)
        if bool(zsol.any()):
            _fail("ciq-solves", where, "value", "zero rhs column with a non-zero / non-finite shifted solve")
        labels.append("iters:%s" % ("<10" if j < 10 else ("10-19" if j < 20 else ">=20")))
    else:
        labels.append("solves:skipped_precond" if precond else "solves:not_recorded")

    # ---- nodes: weights / shifts versus the HHT rule for the recorded estimates
    est_ok = None
    eps_orc = None
    if ent["eigs"] is not None and ent["args"]["shifts"] is None:
        ae = ent["eigs"]
        if float(ae.min()) <= 0:
            ae = Kdt.diagonal(dim1=-1, dim2=-2)
            labels.append("est:diag_fallback")
        mn, mx = ae.min(dim=-1)[0], ae.max(dim=-1)[0]
        k2 = (mn / mx).reshape(-1).tolist()
        mnl = mn.reshape(-1).tolist()
        P_, W_ = [], []
        for k2_i, m_i in zip(k2, mnl):
            p_i, w_i = _hht_rule(m_i, k2_i, Q)
            _validate_rule(m_i, m_i / k2_i, Q, p_i, w_i)
            P_.append(p_i)
            W_.append(w_i)
        poles = torch.stack(P_, -1).reshape((Q,) + tuple(mn.shape))  # (Q, *kb)
        wts = torch.stack(W_, -1).reshape((Q,) + tuple(mn.shape))
        exp_sh = torch.cat([torch.zeros((1,) + tuple(mn.shape), dtype=F64), -poles], 0) - off
        if tuple(mn.shape) == kb:
            pad = (1,) * (len(ob) - len(kb))
            exp_sh = exp_sh.reshape((Q + 1,) + pad + kb)
            poles, wts = poles.reshape((Q,) + pad + kb), wts.reshape((Q,) + pad + kb)
            exp_sh_b, exp_w_b = exp_sh.expand((Q + 1,) + ob), (-wts).expand((Q,) + ob)
            # (the elliptic functions behind the rule are evaluated at modulus sqrt(1 - 1/kappa_est): their conditioning, and
            #  with it the agreement of two correct float64 evaluations, degrades with log(kappa_est); 5.1e-13 seen at 1e4)
            tolr = (TOL["NODES_REL"] * u + TOL["NODES_F64"] * U["f64"]) * (1.0 + math.log10(max(1.0, max(1.0 / max(k, 1e-300) for k in k2))))
            if bool(((sh - exp_sh_b).abs() > tolr * exp_sh_b.abs() + 1e-300).any()) or bool(((w - exp_w_b).abs() > tolr * exp_w_b.abs()).any()):
                dev_s = float(((sh - exp_sh_b).abs() / (exp_sh_b.abs() + 1e-300)).max())
                dev_w = float(((w - exp_w_b).abs() / exp_w_b.abs()).max())
                _fail("ciq-nodes", where, "value", "weights / shifts differ from the HHT rule for the recorded estimates: rel dev shifts %.3g, weights %.3g (Q=%d, offset=%g)" % (dev_s, dev_w, Q, off))
            d = TOL["EST_DELTA"]
            est_ok = (((mn.double() - lam_min).abs() <= d * lam_min) & ((mx.double() - lam_max).abs() <= d * lam_max)).expand(ob)
            pts = ewb + off
            eps_orc = ((wts.expand((Q,) + ob).unsqueeze(-1) / (pts.unsqueeze(0) + poles.expand((Q,) + ob).unsqueeze(-1))).sum(0) * pts.sqrt() - 1).abs().amax(-1)
    # ---- quad: accuracy of the rational function actually returned
    pts = ewb + off
    r = (w.unsqueeze(-1) / (sh[1:].unsqueeze(-1) - ewb.unsqueeze(0))).sum(0)  # (*ob, n)
    eps_r = (r * pts.sqrt() - 1).abs().amax(-1)  # (*ob)
    if est_ok is not None and not precond:
        if off == 0:
            tolq = torch.tensor([TOL["C_Q"] * _hht_rate(float(k), Q) for k in kappa.reshape(-1)], dtype=F64).reshape(kappa.shape).expand(ob) + TOL["NODES_REL"] * u
        else:
            tolq = 4.0 * eps_orc + TOL["NODES_REL"] * u
        viol = est_ok & (eps_r > tolq)
        if bool(viol.any()):
            _fail("ciq-quad", where, "value", "quadrature error max_i |r(l_i) sqrt(l_i) - 1| = %.3g > %.3g (Q=%d, kappa=%.3g, offset=%g, estimates accurate)" % (
                float(eps_r[viol].max()), float(tolq[viol].min()), Q, float(kappa.max()), off))
        labels.append("est:accurate" if bool(est_ok.all()) else "est:inexact")
    elif est_ok is None:
        labels.append("est:not_recorded")
    # ---- bounds for the end-to-end comparison, per output batch member: error <= ||b_col|| * eta
    wabs = w.abs()
    if inverse:
        eta = (wabs * Bq[1:] / lq[1:]).sum(0) + eps_r / (lam_min + off).expand(ob).sqrt()
    else:
        eta = (wabs * Bq[1:]).sum(0) + eps_r * lam_max.expand(ob).sqrt()
    eta0 = Bq[0] / lq[0]  # unshifted solve: ||x - x*|| <= eta0 ||b||
    return {"eta": eta, "eta0": eta0, "labels": labels, "ob": ob, "eps_r": eps_r, "precond": precond, "Q": Q}


# ------------------------------------------------------------------------------------------------------------------
# CIQ kinds
# ------------------------------------------------------------------------------------------------------------------
def _eig(K64):
    ew, eV = torch.linalg.eigh(0.5 * (K64 + K64.mT))
    if float(ew.min()) <= 0:
        raise HarnessError("generated operator is not positive definite")
    return ew, eV


def _fpow(ew, eV, p, shift=0.0):
    return (eV * (ew + shift).pow(p).unsqueeze(-2)) @ eV.mT


def _top(rec):
    return [e for e in rec["calls"] if e["depth"] == 0]


def _cmp_cols(check, where, lib, ref, tol, what):
    """lib, ref (.., n, t) float64; tol (.., t) bound on the column 2-norm of the difference."""
    if tuple(lib.shape) != tuple(ref.shape):
        _fail("ciq-shape", where, "shape", "%s has shape %s, expected %s" % (what, tuple(lib.shape), tuple(ref.shape)))
    fin = torch.isfinite(lib).all(dim=-2)
    if not bool(fin.all()):
        _fail("ciq-finite", where, "nan", "%s is not finite" % what)
    d = (lib - ref).norm(dim=-2)
    if bool((d > tol).any()):
        i = int(torch.argmax((d / (tol + 1e-300)).reshape(-1)))
        _fail(check, where, "value", "%s: column error %.3g > tolerance %.3g (column norm of the reference %.3g)" % (
            what, float(d.reshape(-1)[i]), float(tol.expand(d.shape).reshape(-1)[i]), float(ref.norm(dim=-2).expand(d.shape).reshape(-1)[i])))


def _common_labels(case, n, kb, extra):
    return ["kind:" + case["kind"], "dtype:" + case["dt"], "n:%s" % _nb(n), "batch:%d" % len(kb)] + list(extra) + ["avoided:" + a for a in case.get("avoided", [])]


def _check_ciq(case):
    from linear_operator.operators import DenseLinearOperator

    lu, _ = _mods()
    dtn = case["dt"]
    u = U[dtn]
    Kdt = _dense_K(case)
    n = Kdt.shape[-1]
    rhs = L.materialise(case["rhs"])
    inverse, off = bool(case["inverse"]), float(case.get("offset", 0.0))
    where = "contour_integral_quad"
    with state.apply_settings(case.get("settings", {})), _spy() as rec:
        try:
            lu.contour_integral_quad(DenseLinearOperator(Kdt), rhs.clone(), inverse=inverse, num_contour_quadrature=case.get("Q"), shift_offset=off)
        except Exception as e:
            _fail("ciq-run", where, "exc:" + X.describe(e), "contour_integral_quad raised %r" % (e,))
    ent = _top(rec)[0]
    want_q = case.get("Q") or case.get("settings", {}).get("num_contour_quadrature", 15)
    ew, eV = _eig(Kdt.double())
    info = _analyse(ent, Kdt, ew, u, dtn, where, True)
    if info["Q"] != want_q:
        _fail("ciq-shape", where, "shape", "%d quadrature nodes used, %d requested" % (info["Q"], want_q))
    solves, weights, nss, shifts = (o.double() for o in ent["out"])
    b = rhs.double()
    bn = b.norm(dim=-2)
    rnd = TOL["ALGEBRA"] * (n + info["Q"]) * u
    ref = _fpow(ew, eV, -0.5 if inverse else 0.5, off if inverse else 0.0) @ b
    _cmp_cols("ciq-root", where, (solves * weights).sum(0), ref.expand(info["ob"] + ref.shape[-2:]), bn * info["eta"].unsqueeze(-1) + rnd * ref.norm(dim=-2),
              "sum_q w_q solves_q vs K^%s b" % ("-1/2" if inverse else "1/2"))
    ref0 = -(_fpow(ew, eV, -1.0, off) @ b)
    _cmp_cols("ciq-root", where, nss, ref0.expand(info["ob"] + ref0.shape[-2:]), bn * info["eta0"].unsqueeze(-1) + rnd * ref0.norm(dim=-2), "no_shift_solves vs -(K+offset)^-1 b")
    weak = float(info["eta"].max()) * math.sqrt(float(ew.max())) > 1e-2 if inverse else float(info["eta"].max()) > 1e-2 * math.sqrt(float(ew.max()))
    labels = _common_labels(case, n, Kdt.shape[:-2], info["labels"] + [
        "inverse:%s" % inverse, "offset:%s" % (off != 0), "kappa:%g" % case["spec"]["kappa"], "root_bound:" + ("weak" if weak else "strong"),
        "zero_col:%s" % bool((bn == 0).any())])
    return {"nontrivial": True, "labels": labels}


def _build_op(case):
    """-> (operator, dense matrix in the operator dtype, uses_quadrature)"""
    from linear_operator.operators import AddedDiagLinearOperator, DenseLinearOperator, DiagLinearOperator, IdentityLinearOperator

    dt = DT[case["dt"]]
    cls = case["cls"]
    if cls == "dense":
        K = _dense_K(case)
        return DenseLinearOperator(K), K, True
    if cls == "addeddiag":
        K0 = _dense_K(case)
        d = torch.tensor(case["diag"], dtype=dt).expand(K0.shape[:-1]).contiguous()
        return AddedDiagLinearOperator(DenseLinearOperator(K0), DiagLinearOperator(d)), K0 + torch.diag_embed(d), True
    if cls == "diag":
        d = torch.tensor(case["diag"], dtype=dt)
        return DiagLinearOperator(d), torch.diag_embed(d), False
    n, kb = case["n"], tuple(case["batch"])
    return IdentityLinearOperator(n, batch_shape=torch.Size(kb), dtype=dt), torch.eye(n, dtype=dt).expand(kb + (n, n)).contiguous(), False


def _check_sqrtinv(case):
    import linear_operator

    dtn = case["dt"]
    dt, u = DT[dtn], U[dtn]
    op, Kdt, quad = _build_op(case)
    n = Kdt.shape[-1]
    kb = tuple(Kdt.shape[:-2])
    rhs = L.materialise(case["rhs"])
    lhs = None if case.get("lhs") is None else L.materialise(case["lhs"])
    vector = rhs.dim() == 1
    where = "sqrt_inv_matmul:%s" % case["cls"]

    def call(r, l):
        if case.get("via") == "function":
            return linear_operator.sqrt_inv_matmul(op, r) if l is None else linear_operator.sqrt_inv_matmul(op, r, l)
        return op.sqrt_inv_matmul(r) if l is None else op.sqrt_inv_matmul(r, l)

    second = None
    with state.apply_settings(case.get("settings", {})), _spy() as rec:
        try:
            first = call(rhs.clone(), None if lhs is None else lhs.clone())
            if case.get("twice"):
                second = call(first, None)
        except Exception as e:
            _fail("ciq-run", where, "exc:" + X.describe(e), "sqrt_inv_matmul raised %r" % (e,))
    ew, eV = _eig(Kdt.double())
    lam_min = ew[..., 0]
    R64 = rhs.double().unsqueeze(-1) if vector else rhs.double()
    p = R64.shape[-1]
    ob = _bshape(kb, R64.shape[:-2])
    Rn = R64.norm(dim=-2)
    Sinv = _fpow(ew, eV, -0.5)
    root_ref = (Sinv @ R64).expand(ob + (n, p))
    labels = ["cls:" + case["cls"], "lhs:%s" % (lhs is not None), "twice:%s" % bool(case.get("twice")), "via:" + str(case.get("via")),
              "rhs:" + ("vector" if vector else "cols%d" % p), "zero_col:%s" % bool((Rn == 0).any())]
    if "spec" in case:
        labels.append("kappa:%g" % case["spec"]["kappa"])

    def shaped(x, want, what):
        if not torch.is_tensor(x) or tuple(x.shape) != tuple(want):
            _fail("ciq-shape", where, "shape", "%s has shape %s, expected %s" % (what, tuple(getattr(x, "shape", ())), tuple(want)))
        if x.dtype != dt:
            _fail("ciq-shape", where, "dtype", "%s has dtype %s, operator %s" % (what, x.dtype, dt))
        return x.double()

    if lhs is None:
        res = shaped(first, ob + ((n,) if vector else (n, p)), "A^{-1/2} R")
        res = res.unsqueeze(-1) if vector else res
        invq = None
    else:
        if not isinstance(first, tuple) or len(first) != 2:
            _fail("ciq-shape", where, "type", "left-factor variant returned %s, not a pair" % type(first).__name__)
        o = lhs.shape[-2]
        L64 = lhs.double()
        res = shaped(first[0], ob + (o, p), "L A^{-1/2} R")
        invq = shaped(first[1], ob + (o,), "diag(L A^{-1} L^T)")
    calls = _top(rec)
    if quad and len(calls) != (2 if case.get("twice") else 1):
        raise HarnessError("expected %d recorded quadrature calls, saw %d" % (2 if case.get("twice") else 1, len(calls)))
    labels.append("path:quadrature" if calls else "path:override")

    if not calls:
        # overriding classes: no quadrature, exact structure
        c = TOL["ALGEBRA"] * n * u
        if lhs is None:
            S = Sinv.abs() @ R64.abs()
            ok = (res - root_ref).abs() <= c * S.expand(root_ref.shape) + 1e-300
            if not bool(ok.all()):
                _fail("ciq-root", where, "value", "A^{-1/2} R off by %.3g (override class)" % float((res - root_ref).abs().max()))
            if second is not None:
                r2 = shaped(second, tuple(first.shape), "A^{-1/2} A^{-1/2} R")
                r2 = r2.unsqueeze(-1) if vector else r2
                ref2 = (_fpow(ew, eV, -1.0) @ R64).expand(r2.shape)
                S2 = _fpow(ew, eV, -1.0).abs() @ R64.abs()
                if not bool(((r2 - ref2).abs() <= 2 * c * S2.expand(ref2.shape) + 1e-300).all()):
                    _fail("ciq-twice", where, "value", "sqrt_inv_matmul twice off by %.3g (override class)" % float((r2 - ref2).abs().max()))
        else:
            ref = (L64 @ Sinv @ R64).expand(res.shape)
            S = L64.abs() @ Sinv.abs() @ R64.abs()
            if not bool(((res - ref).abs() <= c * S.expand(ref.shape) + 1e-300).all()):
                _fail("ciq-root", where, "value", "L A^{-1/2} R off by %.3g (override class)" % float((res - ref).abs().max()))
            Kinv = _fpow(ew, eV, -1.0)
            refq = ((L64 @ Kinv) * L64).sum(-1).expand(invq.shape)
            Sq = ((L64.abs() @ Kinv.abs()) * L64.abs()).sum(-1)
            if not bool(((invq - refq).abs() <= 2 * c * Sq.expand(refq.shape) + 1e-300).all()):
                _fail("ciq-invquad", where, "value", "diag(L A^{-1} L^T) off by %.3g (override class)" % float((invq - refq).abs().max()))
        return {"nontrivial": lhs is not None or len(kb) > 0, "labels": _common_labels(case, n, kb, labels)}

    # quadrature classes
    a1 = _analyse(calls[0], Kdt, ew, u, dtn, where, lhs is not None)
    labels += a1["labels"] + ["precond:%s" % a1["precond"]]
    solves, weights, nss, _ = (x.double() for x in calls[0]["out"])
    Q = a1["Q"]
    want_q = case.get("settings", {}).get("num_contour_quadrature", 15)
    if Q != want_q:
        _fail("ciq-shape", where, "shape", "%d quadrature nodes used, settings.num_contour_quadrature = %d" % (Q, want_q))
    rnd = TOL["ALGEBRA"] * (n + Q) * u
    comb = (solves * weights).sum(0)  # (*ob, n, p [+ o])
    mag = (solves * weights).abs().sum(0)
    eta = a1["eta"].unsqueeze(-1)
    if lhs is None:
        # algebra: the returned value is the weighted sum of the recorded solves
        if not bool(((res - comb).abs() <= rnd * mag + 1e-300).all()):
            _fail("ciq-algebra", where, "value", "result differs from sum_q w_q solves_q by %.3g" % float((res - comb).abs().max()))
        _cmp_cols("ciq-root", where, res, root_ref, Rn * eta + rnd * root_ref.norm(dim=-2), "A^{-1/2} R")
        if second is not None:
            a2 = _analyse(calls[1], Kdt, ew, u, dtn, where, False)
            r2 = shaped(second, tuple(first.shape), "A^{-1/2} A^{-1/2} R")
            r2 = r2.unsqueeze(-1) if vector else r2
            ref2 = (_fpow(ew, eV, -1.0) @ R64).expand(r2.shape)
            tol2 = res.norm(dim=-2) * a2["eta"].unsqueeze(-1) + (Rn * eta + rnd * root_ref.norm(dim=-2)) / lam_min.expand(ob).sqrt().unsqueeze(-1) + rnd * ref2.norm(dim=-2)
            _cmp_cols("ciq-twice", where, r2, ref2, tol2, "sqrt_inv_matmul applied twice vs A^{-1} R")
            relt = (tol2 / (ref2.norm(dim=-2) + 1e-300))[Rn.expand(tol2.shape) > 0]
            labels.append("twice_bound:" + ("weak" if relt.numel() and float(relt.max()) > 1e-2 else "strong"))
    else:
        o = lhs.shape[-2]
        Lb = L64.expand(ob + (o, n))
        exp_res = Lb @ comb[..., :p]
        if not bool(((res - exp_res).abs() <= rnd * (Lb.abs() @ mag[..., :p]) + 1e-300).all()):
            _fail("ciq-algebra", where, "value", "result differs from lhs @ sum_q w_q solves_q by %.3g" % float((res - exp_res).abs().max()))
        lns = nss[..., p:]  # (*ob, n, o): unshifted solves of the lhs^T columns
        if bool(torch.isfinite(lns).all()):
            exp_q = -(lns.mT * Lb).sum(-1)
            if not bool(((invq - exp_q).abs() <= rnd * (lns.mT.abs() * Lb.abs()).sum(-1) + 1e-300).all()):
                _fail("ciq-algebra", where, "value", "second output differs from -(no_shift_solves^T * lhs).sum(-1) by %.3g" % float((invq - exp_q).abs().max()))
        # L A^{-1/2} R, entry (o, p): |L_o . e_p| <= ||L_o|| ||e_p||
        Ln = Lb.norm(dim=-1)  # (*ob, o)
        ref = Lb @ root_ref
        tol = Ln.unsqueeze(-1) * (Rn * eta + rnd * root_ref.norm(dim=-2)).unsqueeze(-2) + rnd * (Lb.abs() @ root_ref.abs())
        if not bool(torch.isfinite(res).all()):
            _fail("ciq-finite", where, "nan", "L A^{-1/2} R is not finite")
        if bool(((res - ref).abs() > tol).any()):
            _fail("ciq-root", where, "value", "L A^{-1/2} R off by %.3g > tolerance %.3g" % (float((res - ref).abs().max()), float(tol.max())))
        Kinv = _fpow(ew, eV, -1.0)
        refq = ((Lb @ Kinv) * Lb).sum(-1)
        tolq = Ln * Ln * a1["eta0"].unsqueeze(-1) + rnd * refq.abs()
        if not bool(torch.isfinite(invq).all()):
            _fail("ciq-finite", where, "nan", "diag(L A^{-1} L^T) is not finite (n=%d, %s)" % (n, dtn))
        if bool(((invq - refq).abs() > tolq).any()):
            i = int(torch.argmax(((invq - refq).abs() / tolq).reshape(-1)))
            _fail("ciq-invquad", where, "value", "second output %.6g, diag(L A^{-1} L^T) = %.6g, tolerance %.3g" % (
                float(invq.reshape(-1)[i]), float(refq.reshape(-1)[i]), float(tolq.reshape(-1)[i])))
    weak = float((a1["eta"] * lam_min.expand(ob).sqrt()).max()) > 1e-2
    labels.append("root_bound:" + ("weak" if weak else "strong"))
    return {"nontrivial": True, "labels": _common_labels(case, n, kb, labels)}


def _check_sample(case):
    from linear_operator.operators import DenseLinearOperator

    dtn = case["dt"]
    dt, u = DT[dtn], U[dtn]
    Kdt = _dense_K(case)
    n, kb, num = Kdt.shape[-1], tuple(Kdt.shape[:-2]), case["num"]
    where = "zero_mean_mvn_samples[ciq]"
    cell = dict(case.get("settings", {}))
    cell["ciq_samples"] = True
    with state.apply_settings(cell), _spy(randn=True) as rec:
        try:
            smp = DenseLinearOperator(Kdt).zero_mean_mvn_samples(num)
        except Exception as e:
            _fail("ciq-run", where, "exc:" + X.describe(e), "zero_mean_mvn_samples raised %r" % (e,))
    calls = _top(rec)
    draws = [z for z in rec["randn"] if tuple(z.shape) == kb + (n, num)]
    if len(calls) != 1 or not draws:
        _fail("ciq-algebra", where, "value", "ciq_samples(True): %d quadrature calls, %d normal draws of shape %s" % (len(calls), len(draws), kb + (n, num)))
    if not torch.is_tensor(smp) or tuple(smp.shape) != (num,) + kb + (n,) or smp.dtype != dt:
        _fail("ciq-shape", where, "shape", "samples have shape %s / dtype %s, expected %s / %s" % (tuple(smp.shape), smp.dtype, (num,) + kb + (n,), dt))
    Z = draws[0].double().permute(-1, *range(len(kb) + 1)).unsqueeze(-1)  # (num, *kb, n, 1)
    ent = calls[0]
    if tuple(ent["rhs_in"].shape) != tuple(Z.shape) or not torch.equal(ent["rhs_in"].double(), Z):
        _fail("ciq-algebra", where, "value", "the quadrature was not applied to the recorded normal draws")
    ew, eV = _eig(Kdt.double())
    info = _analyse(ent, Kdt, ew, u, dtn, where, False)
    solves, weights = ent["out"][0].double(), ent["out"][1].double()
    rnd = TOL["ALGEBRA"] * (n + info["Q"]) * u
    comb = (solves * weights).sum(0)
    if not bool(((smp.double().unsqueeze(-1) - comb).abs() <= rnd * (solves * weights).abs().sum(0) + 1e-300).all()):
        _fail("ciq-algebra", where, "value", "samples differ from sum_q w_q K solves_q")
    ref = _fpow(ew, eV, 0.5) @ Z
    _cmp_cols("ciq-root", where, smp.double().unsqueeze(-1), ref, Z.norm(dim=-2) * info["eta"].unsqueeze(-1) + rnd * ref.norm(dim=-2), "samples vs K^{1/2} z")
    labels = _common_labels(case, n, kb, info["labels"] + ["num:%d" % num, "kappa:%g" % case["spec"]["kappa"]])
    return {"nontrivial": True, "labels": labels}


def _check_ciq_precond(case):
    """With the operator's preconditioner active, R = sum_q w_q solves_q for the right-hand side I is a (non-symmetric) square
    root: R R^T = K, which is what contour-integral SAMPLING needs (covariance K).  That R differs from the symmetric K^{1/2}
    is the open finding F-C11-ciq-precond; here only the covariance identity is asserted.  End-to-end comparison (the
    per-solve analysis of _check_ciq models un-preconditioned MINRES): with Q = 20 nodes and kappa <= 1e2 the quadrature
    error is below 1e-9 (rate exp(-2 pi^2 Q / (log kappa + 3))), the MINRES residuals are 1e-10; 1e-6 ||K|| is asserted."""
    from linear_operator.operators import AddedDiagLinearOperator, ConstantDiagLinearOperator, DenseLinearOperator, DiagLinearOperator

    lu, _ = _mods()
    K = _dense_K(case).double()
    n = K.shape[-1]
    ew, eV = _eig(K)
    s_ = float(ew.min()) / 2.0
    base = DenseLinearOperator(K - s_ * torch.eye(n, dtype=F64))
    diag = ConstantDiagLinearOperator(torch.tensor([s_], dtype=F64), diag_shape=n) if case.get("const_diag") else DiagLinearOperator(torch.full((n,), s_, dtype=F64))
    op = AddedDiagLinearOperator(base, diag)
    cell = dict(case.get("settings", {}), max_preconditioner_size=int(case["rank"]))
    where = "contour_integral_quad:preconditioned"
    with state.apply_settings(cell):
        try:
            active = op._preconditioner()[0] is not None
            # the quadrature interval comes from a Lanczos run on the FIRST column: a vector with equal components along all
            # eigenvectors makes that estimate accurate (the precondition of the statement); the columns of I follow
            probe = (eV @ torch.ones(n, 1, dtype=F64)) / math.sqrt(n)
            solves, weights, _, _ = lu.contour_integral_quad(op, torch.cat([probe, torch.eye(n, dtype=F64)], -1), inverse=False)
        except Exception as e:
            _fail("ciq-run", where, "exc:" + X.describe(e), "contour_integral_quad raised %r" % (e,))
    Rt = (solves.double() * weights.double()).sum(0)[..., 1:]
    err = float((Rt @ Rt.mT - K).abs().max())
    bound = 1e-6 * float(ew.max()) + 1e-300
    if err > bound:
        _fail("ciq-cov", where, "value", "max |R R^T - K| = %.3g > %.3g for R = sum_q w_q solves_q(I) (n=%d, rank %d, preconditioner active=%s)" % (err, bound, n, case["rank"], active))
    return {"nontrivial": bool(active), "labels": ["kind:ciq_precond", "dtype:f64", "precond_active:%s" % active, "n:%d" % n, "inverse:False"]}


def check(case):
    kind = case["kind"]
    fn = {"minres": _check_minres, "ciq": _check_ciq, "sqrtinv": _check_sqrtinv, "sample": _check_sample, "ciq_precond": _check_ciq_precond}.get(kind)
    if fn is None:
        raise HarnessError("unknown case kind %r" % (kind,))
    info = fn(case)
    info["key"] = case
    info["sample"] = {k: (v if k not in ("rhs", "lhs") else {"shape": list(L.shape_of(v))} if v is not None else None) for k, v in case.items()}
    return info


def gaps(labels):
    need = ["kind:minres", "kind:ciq", "kind:sqrtinv", "kind:sample", "dtype:f32", "dtype:f64", "shifts:none", "shifts:scalar",
            "pre:diag", "pre:spd", "value:-1.0", "stop:converged", "stop:cap", "iters:>=20", "zero_col:True", "rhs:vector",
            "cls:dense", "cls:addeddiag", "cls:diag", "cls:identity", "lhs:True", "twice:True", "inverse:True", "inverse:False",
            "offset:True", "est:accurate", "n:1", "n:21-40"]
    return sorted("never generated: " + k for k in need if not labels.get(k))


def coverage_extra():
    return {"tolerance_constants": TOL, "open_triggers_avoided_by_generator": sorted(_open_triggers())}
