"""C11 -- MINRES solves all shifted systems; contour-integral quadrature (CIQ) gives the matrix root.

Case kinds
----------
minres   linear_operator.utils.minres(closure, rhs, shifts=, value=, max_iter=, preconditioner=) on K = Q diag(w) Q^T
         (lov.spd, spectrum known), sizes 1..40, kappa <= 1e4, batches, 1..3 columns incl. zero columns, vector rhs,
         shifts None / scalar / vector / batched (>= 0), value None / -1 (the CIQ caller's convention, shifts negated),
         explicit SPD preconditioners (kappa(P) <= 10), minres_tolerance, max_iter / max_cg_iterations, f32 / f64.
ciq      contour_integral_quad(DenseLinearOperator(K), rhs, inverse, num_contour_quadrature, shift_offset) (n <= 20 or
         kappa <= 1e2), observed through a spy (recorded Lanczos eigenvalue estimates, inner MINRES call + iteration count).
sqrtinv  op.sqrt_inv_matmul(rhs[, lhs]) / linear_operator.sqrt_inv_matmul for Dense, AddedDiag (with / without an active
         pivoted-Cholesky preconditioner), Diag, Identity; optionally applied twice.
sample   op.zero_mean_mvn_samples(k) under settings.ciq_samples(True) with the normal draws recorded (torch.randn patched).

Oracle: float64 dense algebra (eigh / solve) on the *materialised* inputs (the dtype-rounded K, rhs, shifts upcast to f64).
u = unit round-off of the dtype (2^-53 / 2^-24).  All norms are 2-norms per column unless stated.

Semantics used (grounded in the only caller, contour_integral_quad):  minres solves (value*K + s*P^{-1}) x = b where the
`preconditioner` closure applies the SPD matrix P (the shift is added to the Lanczos tridiagonal of the *preconditioned*
operator, so with P != I the shifted system is K + s P^{-1}; for s = 0 or P = I this is the statement's (K + sI) x = b).

MINRES sub-checks (signature C11|minres-<name>|minres|<symptom>)
  shape     result shape = [m if shifts.numel() > 1] + broadcast(batch(K), batch(rhs)) + (n, t)  ((n,) for a 1-D rhs), dtype kept.
  finite    finite inputs, SPD system, non-zero rhs column  =>  finite output.
  zero      an exactly zero rhs column gives an exactly zero solution column (iii).
  residual  (i)  j = number of iterations actually run (closure calls - 1).  With A~ = P^{1/2}(vK + sP^{-1})P^{1/2},
            kappa~ = cond(A~), rho = (sqrt(kappa~)-1)/(sqrt(kappa~)+1):
                ||b - (vK + sP^{-1}) x|| / ||b||  <=  sqrt(cond(P)) * [ 2 rho^j/(1+rho^{2j})  +  C_FL * j * u * kappa~^2 ].
            First term: the j-th MINRES iterate minimises the P-norm of the residual over the Krylov space, Chebyshev minimax
            value 1/T_j((kappa+1)/(kappa-1)) (holds for ANY stopping reason, so the every-10th-step / estimated stopping
            quantity is irrelevant; it depends on kappa only, which is what survives loss of orthogonality in finite
            precision (Greenbaum)).  Second term: attainable accuracy of MINRES' three-term search-direction recurrences,
            ||r_j - (b - A x_j)|| <= 3 sqrt(3) j u kappa^2 ||b|| (Sleijpen, van der Vorst, Modersitzki 2000), C_FL = 8.
            sqrt(cond(P)) converts the P-norm to the 2-norm.  No claim is made from minres_tolerance: the stopping quantity
            (mean relative update) bounds nothing rigorously.
  shift     (ii) x(K, shift s_i) versus the same routine on fl(K + s_i I) with shifts=None (no preconditioner, value None):
                ||x_A - x_B|| <= (B_A + B_B + 8 u kappa_s) ||b|| / lambda_min(K + s_i I),   B = the residual bound above for
            each run's own j (error <= residual / lambda_min; 8 u kappa_s for forming K + sI in the dtype).
  linear    (iv) x(b * diag(c)) = x(b) * diag(c) for c_k = +-2^k: the routine normalises each column, scaling by a power of
            two is exact and IEEE arithmetic is sign-symmetric, so the two results agree to 4u elementwise (bitwise expected).

CIQ sub-checks (C11|ciq-<name>|<entry point>|<symptom>)
  shape / finite     documented shapes of (solves, weights, no_shift_solves, shifts) and of sqrt_inv_matmul results.
  solves    each recorded inner solve x_q satisfies (-K + shift_q I) x_q = b with the MINRES residual bound above (value=-1,
            shifts <= 0, j recorded); shift_0 = -shift_offset; only when no preconditioner is active.
  nodes     the returned weights / shifts equal the Hale-Higham-Trefethen (method 3) rule for the *recorded* eigenvalue
            estimates [m, M], re-derived here with real-argument Jacobi functions:  poles p_q = m sc^2(u_q|k'),
            weights (2K' sqrt(m) / (pi Q)) dn/cn^2, u_q = (q-1/2)K'/Q, k'^2 = 1 - m/M;  shifts_q = -p_q - shift_offset,
            lib weights = -w_q.  Tolerance 256 u relative (float64 evaluation + one cast).  The oracle rule itself is
            validated on every case against sqrt on [m, M] (HarnessError otherwise).
  quad      when the recorded estimates are accurate (|m - lambda_min| <= 1e-3 lambda_min, same for M) and shift_offset = 0:
            max_i | r(lambda_i) sqrt(lambda_i) - 1 | <= 16 exp(-2 pi^2 Q / (log kappa + 3)) + 256 u, r the rational function of the
            returned weights / shifts evaluated in float64 at the true eigenvalues.  (HHT Theorem 4.1 rate; constant: the
            exact scalar error of the rule is <= 5.4 x rate for kappa in [1, 1e6], Q in 1..30, and grows by <= 1.15 for a 1e-3
            misestimate -- evaluated numerically with the independent rule; 16 = 5.4 * 1.15 rounded up generously.)
            For shift_offset != 0 the comparison point is lambda_i + offset and the tolerance 4 x (error of the oracle rule
            at these points) + 256 u.
  algebra   the value returned by sqrt_inv_matmul / zero_mean_mvn_samples equals the recombination of the recorded pieces
            (lhs @ sum_q w_q solves_q, -(no_shift_solves^T * lhs).sum) to 64 (n+Q) u |.|-magnitude (exact structure).
  root      end to end against float64 eigh:  || lib - K^{-1/2} b || <= ||b|| [ sum_q |w_q| B_q / (lambda_min + |shift_q|)
            + eps_r / sqrt(lambda_min) ] + rounding, eps_r = max_i |r(lambda_i) sqrt(lambda_i) - 1| computed from the recorded
            weights / shifts (so it is implied by solves + nodes/quad + algebra and can never be tighter than theory);
            K^{1/2}: the same with ||K (K+|s|)^{-1}|| <= 1 and sqrt(lambda_max).  Overriding classes (Diag, Identity) use no
            quadrature: 64 n u relative.
  twice     S(S(R)) = A^{-1} R with (eta_1 + eta_2 (1 + eta_1)) ||R|| / lambda_min, eta = the relative bound of each call.
  invquad   left-factor variant: second output = diag(L A^{-1} L^T), tolerance ||L_o||^2 B_0 / lambda_min.
"""
import contextlib
import importlib
import inspect
import math
from unittest import mock

import torch
from hypothesis import strategies as st

from lov import exc as X
from lov import lit as L
from lov import spd, state
from lov.core import HarnessError, Violation
from lov.gen import BATCHES

ID = "C11"
RULE = (
    "case = kind in {minres, ciq, sqrtinv, sample}; SPD K from lov.spd spectrum families (n 1..40 mostly small, kappa in "
    "{1,10,1e2,1e4}; CIQ kinds: n<=20 or kappa<=1e2), batch kinds, rhs with 1..3 columns incl. zero columns / 1-D, shifts "
    "None/scalar/vector/batched, value None/-1, explicit SPD preconditioners, minres_tolerance, max_iter, "
    "num_contour_quadrature, shift_offset, operator class (Dense/AddedDiag/Diag/Identity), f32/f64. Non-trivial: >= 2 "
    "shifts, or a batch, or >= 10 iterations run, or lhs given, or any CIQ kind that ran the quadrature. Distinct by hash "
    "of the whole case."
)
BUDGET = {"quick": 440, "thorough": 1500}
ASSUMPTIONS = [
    "minres with a preconditioner closure applying P is read as solving (value*K + s*P^{-1}) x = b (what its only caller relies on)",
    "no accuracy claim is derived from minres_tolerance (its stopping quantity is an estimate checked every 10th step); only the "
    "Chebyshev bound for the iterations actually run plus the C_FL*j*u*kappa^2 attainable-accuracy floor",
    "quadrature accuracy is asserted only when the recorded Lanczos estimates of the extreme eigenvalues are accurate to 1e-3",
    "rhs columns are exactly zero or have norm >= 1/8 (the routine's absolute 1e-10 zero threshold is not probed)",
]
TOL = {"C_FL": 8.0, "C_Q": 16.0, "EST_DELTA": 1e-3, "NODES_REL": 256.0, "LINEAR_ULPS": 4.0, "ALGEBRA": 64.0}

U = {"f32": 2.0**-24, "f64": 2.0**-53}
DT = {"f32": torch.float32, "f64": torch.float64}
F64 = torch.float64

# findings proposed by this module; treated as open until known_findings.json carries an entry with the same trigger
PROPOSED_OPEN = ("f32_exact_breakdown_zero_shift", "ciq_preconditioner_active")


def _open_triggers():
    from lov.findings import load

    status = {t: True for t in PROPOSED_OPEN}
    for e in load():
        if e.get("property") == ID and e.get("trigger"):
            status[e["trigger"]] = e.get("status", "open") == "open"
    return {t for t, is_open in status.items() if is_open}


# ------------------------------------------------------------------------------------------------------------------
# generation
# ------------------------------------------------------------------------------------------------------------------
NS = [1, 1, 2, 2, 2, 3, 3, 3, 4, 4, 5, 5, 6, 6, 7, 8, 9, 10, 11, 12, 13, 16, 20, 24, 30, 40]
SHIFT_MULT = [0.0, 0.0, 0.125, 0.5, 1.0, 2.0, 8.0, 2.0**-10]


def _nest(flat, shape):
    if not shape:
        return flat[0]
    if len(shape) == 1:
        return list(flat[: shape[0]])
    step = 1
    for s in shape[1:]:
        step *= s
    return [_nest(flat[i * step : (i + 1) * step], shape[1:]) for i in range(shape[0])]


def _numel(shape):
    p = 1
    for s in shape:
        p *= s
    return p


def _draw_rhs(draw, dt, batch, n, t, vector=False, zero_col=None, nonzero_first=False):
    """Grid rhs (multiples of 1/4 in [-4, 4]); `zero_col` is zeroed in every batch member; other columns never zero."""
    shape = tuple(batch) + ((n,) if vector else (n, t))
    flat = draw(st.lists(st.integers(-16, 16), min_size=_numel(shape), max_size=_numel(shape)))
    x = torch.tensor([v / 4.0 for v in flat], dtype=F64).reshape(shape)
    if vector:
        x = x.unsqueeze(-1)
    nrm = x.norm(dim=-2)
    fix = nrm == 0
    if fix.any():  # accidental zero columns: put 1/2 into the first row (construction, not rejection)
        x[..., 0, :] = torch.where(fix, torch.full_like(nrm, 0.5), x[..., 0, :])
    if zero_col is not None:
        x[..., :, zero_col] = 0.0
    if vector:
        x = x.squeeze(-1)
    return L.lit(x.tolist(), dt)


def _batches(draw):
    full = draw(st.sampled_from(BATCHES))
    if not full:
        return (), (), ()
    how = draw(st.sampled_from(["both", "both", "op", "rhs"]))
    return full, (full if how != "rhs" else ()), (full if how != "op" else ())


@st.composite
def _spec(draw, n, batch, kappas):
    return draw(spd.specs(max_n=n, min_n=n, batches=(tuple(batch),), kappas=kappas))


@st.composite
def minres_cases(draw, tier):
    dt = draw(st.sampled_from(["f64", "f64", "f32"]))
    n = draw(st.sampled_from(NS))
    full, kb, rb = _batches(draw)
    spec = draw(_spec(n, kb, [1.0, 10.0, 10.0, 1e2, 1e2, 1e4]))
    t = draw(st.integers(1, 3))
    vector = (not rb) and draw(st.integers(0, 3)) == 0
    if vector:
        t = 1
    zero_col = draw(st.integers(0, t - 1)) if draw(st.integers(0, 2)) == 0 else None
    rhs = _draw_rhs(draw, dt, rb, n, t, vector=vector, zero_col=zero_col)
    value = -1.0 if draw(st.integers(0, 5)) == 0 else None
    sk = draw(st.sampled_from(["none", "scalar", "vec", "vec", "batched" if full else "vec"]))
    lmax = spec["lmax"]
    sgn = -1.0 if value is not None else 1.0
    if sk == "none":
        shifts = None
    elif sk == "scalar":
        shifts = L.lit(sgn * lmax * draw(st.sampled_from(SHIFT_MULT)), dt)
    else:
        m = draw(st.integers(1, 3))
        shp = (m,) + (tuple(full) if sk == "batched" else ())
        vals = [sgn * lmax * draw(st.sampled_from(SHIFT_MULT)) for _ in range(_numel(shp))]
        shifts = L.lit(_nest(vals, list(shp)), dt)
    pk = draw(st.sampled_from(["none", "none", "none", "diag", "spd"]))
    if pk == "diag":
        pre = {"diag": [draw(st.sampled_from([0.5, 1.0, 2.0, 4.0])) for _ in range(n)]}
    elif pk == "spd":
        pre = {"spec": draw(spd.specs(max_n=n, min_n=n, batches=((),), kappas=[1.0, 10.0]))}
    else:
        pre = None
    max_iter = draw(st.sampled_from([None, None, None, 1, 2, 3, 5, 10, 20, 50]))
    cell = {}
    if draw(st.booleans()):
        cell["minres_tolerance"] = draw(st.sampled_from([1e-2, 1e-8, 1e-12, 1e-1]))
    if max_iter is None and draw(st.integers(0, 3)) == 0:
        cell["max_cg_iterations"] = draw(st.sampled_from([2, 5, 15]))
    scale = [draw(st.sampled_from([-1.0, 2.0, -0.5, 4.0, 0.25])) for _ in range(t)]
    case = {
        "kind": "minres", "dt": dt, "spec": spec, "rhs": rhs, "shifts": shifts, "value": value, "pre": pre,
        "max_iter": max_iter, "settings": cell, "scale": scale, "pick": draw(st.integers(0, 5)),
    }
    return _avoid_known(case)


@st.composite
def ciq_cases(draw, tier):
    dt = draw(st.sampled_from(["f64", "f64", "f32"]))
    n = draw(st.sampled_from(NS))
    full, kb, rb = _batches(draw)
    kappas = [1.0, 10.0, 1e2, 1e2, 1e4] if n <= 20 else [1.0, 10.0, 1e2]
    kind = draw(st.sampled_from(["ciq", "ciq", "sqrtinv", "sqrtinv", "sqrtinv", "sample"]))
    case = {"kind": kind, "dt": dt, "settings": {}}
    Q = draw(st.sampled_from([None, None, 3, 5, 8, 10, 20]))
    if kind == "ciq":
        case["spec"] = draw(_spec(n, kb, kappas))
        t = draw(st.integers(1, 3))
        zc = draw(st.integers(0, t - 1)) if draw(st.integers(0, 3)) == 0 else None
        case["rhs"] = _draw_rhs(draw, dt, rb, n, t, zero_col=zc)
        case["inverse"] = draw(st.booleans())
        case["Q"] = Q if draw(st.booleans()) else None
        if case["Q"] is None and Q is not None:
            case["settings"]["num_contour_quadrature"] = Q
        case["offset"] = 0.0
        if case["inverse"] and draw(st.integers(0, 4)) == 0:
            case["offset"] = draw(st.sampled_from([0.5, 2.0])) * case["spec"]["lmax"] / case["spec"]["kappa"]
    elif kind == "sqrtinv":
        cls = draw(st.sampled_from(["dense", "dense", "dense", "addeddiag", "addeddiag", "diag", "identity"]))
        case["cls"] = cls
        if cls in ("dense", "addeddiag"):
            case["spec"] = draw(_spec(n, kb, kappas))
        else:
            case["n"], case["batch"] = n, list(kb)
        if cls == "addeddiag":
            const = draw(st.booleans())
            dv = [draw(st.sampled_from([0.25, 0.5, 1.0, 2.0])) for _ in range(n)]
            case["diag"] = [dv[0]] * n if const else dv
            if draw(st.booleans()):
                case["settings"]["min_preconditioning_size"] = draw(st.sampled_from([1, n]))
                case["settings"]["max_preconditioner_size"] = draw(st.sampled_from([1, 2, 3, 15]))
        if cls == "diag":
            case["diag"] = _nest([draw(st.sampled_from([0.25, 0.5, 1.0, 2.0, 3.0, 8.0])) for _ in range(_numel(kb) * n)], list(kb) + [n])
        t = draw(st.integers(1, 3))
        vector = (not rb) and (not kb) and draw(st.integers(0, 3)) == 0
        zc = draw(st.integers(0, t - 1)) if (not vector and draw(st.integers(0, 3)) == 0) else None
        case["rhs"] = _draw_rhs(draw, dt, rb, n, 1 if vector else t, vector=vector, zero_col=zc)
        case["lhs"] = None
        if not vector and draw(st.integers(0, 2)) == 0:
            o = draw(st.integers(1, 3))
            case["lhs"] = _draw_rhs(draw, dt, rb, o, n)  # (*rb, o, n), no zero "columns" needed
        case["twice"] = case["lhs"] is None and draw(st.integers(0, 2)) == 0
        case["via"] = draw(st.sampled_from(["method", "function"]))
        if Q is not None:
            case["settings"]["num_contour_quadrature"] = Q
    else:
        case["spec"] = draw(_spec(n, kb, kappas))
        case["num"] = draw(st.integers(1, 3))
        if Q is not None:
            case["settings"]["num_contour_quadrature"] = Q
    return _avoid_known(case)


def strategy(tier):
    return st.one_of(minres_cases(tier), minres_cases(tier), ciq_cases(tier))


# ------------------------------------------------------------------------------------------------------------------
# materialisation, triggers, generator-side avoidance of open findings
# ------------------------------------------------------------------------------------------------------------------
def _dense_K(case):
    """The matrix handed to the library, in the case dtype (dense / addeddiag / minres / ciq / sample kinds)."""
    A, _, _ = spd.build(case["spec"])
    return A.to(DT[case["dt"]])


def _precond_matrix(case, n):
    pre = case.get("pre")
    if pre is None:
        return None
    if "diag" in pre:
        return torch.diag(torch.tensor(pre["diag"], dtype=F64)).to(DT[case["dt"]])
    return spd.build(pre["spec"])[0].to(DT[case["dt"]])


def _loop_iters(case, n):
    mi = case.get("max_iter")
    if mi is None:
        mi = case.get("settings", {}).get("max_cg_iterations", 1000)
    return min(mi, n + 1) + 2


def _exact_breakdown(mm, rhs, precond, iters, value):
    """Replays the Lanczos half of minres with the same torch ops. True iff, for a non-zero rhs column, the next Lanczos
    vector is *exactly* zero at an iteration that is followed by another one (then q = 0, alpha = 0, beta is clamped to
    eps = 1e-25 and, with a zero shift, the Givens radius sqrt(0^2 + eps^2) underflows to 0 in float32 -> 0/0)."""
    if rhs.dim() == 1:
        rhs = rhs.unsqueeze(-1)
    rhs_norm = rhs.norm(2, dim=-2, keepdim=True)
    zero = rhs_norm.lt(1e-10)
    rhs = rhs.div(rhs_norm.masked_fill(zero, 1))
    prod = mm(rhs)
    z2 = torch.zeros_like(prod)
    z1 = rhs.clone().expand_as(prod).contiguous()
    q1 = precond(z1)
    beta_prev = (z1 * q1).sum(dim=-2, keepdim=True).sqrt_()
    z1.div_(beta_prev)
    q1.div_(beta_prev)
    eps = torch.tensor(1e-25, dtype=rhs.dtype)
    for _ in range(iters - 1):
        prod = mm(q1)
        if value is not None:
            prod.mul_(value)
        alpha = (prod * q1).sum(-2, keepdim=True)
        zc = prod.addcmul_(alpha, z1, value=-1).addcmul_(beta_prev, z2, value=-1)
        qc = precond(zc)
        beta = (zc * qc).sum(-2, keepdim=True).sqrt_()
        if (((zc == 0).all(dim=-2, keepdim=True)) & ~zero).any():
            return True
        beta.clamp_min_(eps)
        zc.div_(beta)
        qc.div_(beta)
        z2, z1, q1, beta_prev = z1, zc, qc, beta
    return False


def _has_zero_shift(case):
    if case["kind"] != "minres":
        return True  # the quadrature always carries the unshifted solve
    if case["shifts"] is None:
        return True
    return bool((L.value(case["shifts"]) == 0).any())


def _trig_breakdown(case):
    if case.get("dt") != "f32" or not _has_zero_shift(case):
        return False
    kind = case["kind"]
    if kind == "sample" or (kind == "sqrtinv" and (case.get("lhs") is None or case["cls"] not in ("dense", "addeddiag"))):
        return False  # the unshifted solve is not part of what these return
    K = _dense_K(case)
    if kind == "sqrtinv" and case["cls"] == "addeddiag":
        K = K + torch.diag(torch.tensor(case["diag"], dtype=K.dtype))
    n = K.shape[-1]
    rhs = L.materialise(case["rhs"])
    if kind == "minres":
        P = _precond_matrix(case, n)
        pre = (lambda v: v.clone()) if P is None else (lambda v: P @ v)
        return _exact_breakdown(lambda v: K @ v, rhs, pre, _loop_iters(case, n), case.get("value"))
    if kind == "sqrtinv":
        rhs = torch.cat([rhs, L.materialise(case["lhs"]).mT], dim=-1)
    return _exact_breakdown(lambda v: K @ v, rhs, lambda v: v.clone(), min(1000, n + 1) + 2, -1.0)


def _trig_precond(case):
    if case.get("kind") != "sqrtinv" or case.get("cls") != "addeddiag":
        return False
    cell = case.get("settings", {})
    n = case["spec"]["n"]
    return cell.get("min_preconditioning_size", 2000) <= n and cell.get("max_preconditioner_size", 15) > 0


TRIGGERS = {"f32_exact_breakdown_zero_shift": _trig_breakdown, "ciq_preconditioner_active": _trig_precond}


def _retype(l, dt):
    if l is not None:
        l["dt"] = dt
    return l


def _avoid_known(case):
    """Generator-side exclusion: normalise exactly the triggering feature of every *open* finding (DESIGN 1.6.4)."""
    open_t = _open_triggers()
    avoided = []
    if "ciq_preconditioner_active" in open_t and _trig_precond(case):
        case["settings"].pop("min_preconditioning_size", None)
        case["settings"].pop("max_preconditioner_size", None)
        avoided.append("ciq_preconditioner_active")
    if "f32_exact_breakdown_zero_shift" in open_t and _trig_breakdown(case):
        if case["kind"] == "minres":
            bump = (-1.0 if case.get("value") is not None else 1.0) * 0.125 * case["spec"]["lmax"]
            if case["shifts"] is None:
                case["shifts"] = L.lit(bump, "f32")
            else:
                v = L.value(case["shifts"])
                case["shifts"] = L.lit(torch.where(v == 0, torch.full_like(v, bump), v).tolist(), "f32")
        else:
            case["dt"] = "f64"
            _retype(case.get("rhs"), "f64")
            _retype(case.get("lhs"), "f64")
        avoided.append("f32_exact_breakdown_zero_shift")
    if avoided:
        case["avoided"] = avoided
    return case


# ------------------------------------------------------------------------------------------------------------------
# oracle helpers
# ------------------------------------------------------------------------------------------------------------------
def _cheb(kappa, j):
    """1 / T_j((kappa+1)/(kappa-1)) = 2 rho^j / (1 + rho^{2j})."""
    if kappa <= 1.0:
        return 0.0 if j > 0 else 1.0
    rho = (math.sqrt(kappa) - 1.0) / (math.sqrt(kappa) + 1.0)
    rj = rho**j
    return 2.0 * rj / (1.0 + rj * rj)


def _res_bound(kappa, j, u, kp=1.0):
    return math.sqrt(kp) * (_cheb(kappa, j) + TOL["C_FL"] * max(j, 1) * u * kappa * kappa)


def _fail(check, where, symptom, detail):
    raise Violation("C11|%s|%s|%s" % (check, where, symptom), detail)


def _bshape(*shapes):
    return tuple(torch.broadcast_shapes(*[tuple(s) for s in shapes]))


def _counting(mat, cnt):
    def mm(v):
        cnt[0] += 1
        return mat @ v

    return mm
