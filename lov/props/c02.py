"""C02 -- composition and structure-preserving rewrites never change the matrix (DESIGN section 4, C02)."""
import math
import re
import warnings

import torch
from hypothesis import strategies as st

from lov import exc as X
from lov import gen, lit as L, recipe as R, refmodel, tol
from lov.core import HarnessError, Violation
from lov.findings import load as load_findings

ID = "C02"
RULE = (
    "case = expression program: 2 generated operands (operator recipes; the ordered pair of head classes is drawn first so "
    "the class x class dispatch table is swept) joined by a binary step from {+, -, tensor+op, tensor-op, elementwise * (PSD), "
    "@, cat}, or one operand under a scalar step (python float/int, 0-d tensor, (...,1,1) batch of constants; negative, zero), "
    "followed by 0-2 further steps from {sum, prod (PSD), expand, repeat, squeeze, unsqueeze, permute, transpose, add_diagonal, "
    "add_jitter, add_low_rank (PSD), cat_rows (PSD), scalar * /}. After every step dense value and shape are compared with torch "
    "semantics on the dense references. Non-trivial: a step whose two operands are both non-Dense operators, or a scalar that is "
    "negative / zero / batched, or >= 2 steps with a specialised intermediate type. Distinct by (head classes, step kinds, scalar kind, result types)."
)
FUZZ = {"workers": 8, "runs": 3000}  # Atheris campaigns in the thorough tier (DESIGN section 5)
BUDGET = {"quick": 1500, "thorough": 5000}
ASSUMPTIONS = [
    "operations defined through root decompositions (elementwise op*op, adding a root-form operator, add_low_rank, cat_rows, prod) get PSD operands and the factorization tolerance",
    "result *type* is recorded, never asserted",
]

ROOTFORM = ("Root", "LowRankRoot", "Chol")
BINARY = ["add", "add", "sub", "radd_tensor", "rsub_tensor", "mul", "matmul", "matmul", "cat"]
UNARY = ["sum", "prod", "expand", "repeat", "squeeze", "unsqueeze", "permute", "transpose", "add_diagonal", "add_jitter", "add_low_rank", "cat_rows", "mul_scalar", "rmul_scalar", "div_scalar", "neg_mul"]


_JIT_RE = re.compile(r"added jitter of ([0-9.eE+-]+)")


def _jitter_reported(ws):
    """largest Cholesky jitter psd_safe_cholesky REPORTED (NumericalWarning 'added jitter of X'); 0.0 if it never added any:
    its first attempt is without jitter and silent, so no warning means the factorization is of the matrix itself"""
    out = 0.0
    for w in ws:
        m = _JIT_RE.search(str(w.message))
        if m:
            try:
                out = max(out, float(m.group(1)))
            except ValueError:
                out = max(out, tol.JITTER_MAX["f32"])
    return out


def _well_conditioned(ref):
    """add_low_rank / cat_rows update a root of A AND a root of A^{-1} (their docstrings): A must be invertible.  The
    operand is only used when its dense reference is numerically positive definite (lambda_min >= 1e-3 lambda_max)."""
    try:
        ev = torch.linalg.eigvalsh(0.5 * (ref + ref.transpose(-1, -2)))
    except Exception:
        return False
    return bool((ev[..., 0] >= 1e-3 * ev[..., -1].clamp_min(1e-300)).all()) and bool((ev[..., -1] > 0).all())


def _exclusions():
    ex = set()
    for e in load_findings():
        if e.get("status", "open") == "open":
            ex.update(e.get("exclude_nodes", []))
            if e.get("property") == ID:
                ex.update(e.get("exclude_nodes_c02", []))
    return tuple(sorted(ex))


def _open_triggers():
    return {e.get("trigger") for e in load_findings() if e.get("property") == ID and e.get("status", "open") == "open"}


# ------------------------------------------------------------------------------------------------
# generation
# ------------------------------------------------------------------------------------------------
def _recipe_with_head(draw, cfg, head, dom, m, n, batch, depth=2):
    ok = gen._applicable(cfg, dom, m, n, batch, depth)
    if head in ok:
        return gen.call_maker(head, draw, cfg, dom, m, n, batch, depth)
    return None


@st.composite
def scalars(draw, dt, batch, positive=False):
    kind = draw(st.sampled_from(["pyfloat", "pyint", "t0d", "batched", "negative", "zero"]))
    if positive and kind in ("negative", "zero"):
        kind = "pyfloat"
    wider = kind == "batched" and draw(st.integers(0, 2)) == 0  # constants with MORE batch dimensions than the operator
    if kind == "batched" and not batch and not wider:
        kind = "t0d"
    if kind == "pyfloat":
        return {"kind": kind, "v": draw(st.integers(1, 24)) / 8.0}
    if kind == "pyint":
        return {"kind": kind, "v": draw(st.integers(1, 3))}
    if kind == "t0d":
        return {"kind": kind, "t": L.lit(draw(st.integers(1, 24)) / 8.0 * (1 if positive or draw(st.booleans()) else -1), dt)}
    if kind == "negative":
        return {"kind": kind, "v": -draw(st.integers(1, 24)) / 8.0}
    if kind == "zero":
        return {"kind": kind, "v": 0.0}
    lo = 1 if positive else -16
    # a `... x 1 x 1` batch of constants: the full batch shape, or singletons in some (also non-leading) batch positions
    bshape = tuple(b if draw(st.integers(0, 2)) else 1 for b in batch)
    if wider:
        bshape = draw(st.sampled_from([(2,), (3,), (2, 1)])) + bshape
    vals = gen.grid(draw, bshape + (1, 1), lo, 16)
    return {"kind": "batched", "t": L.lit(vals, dt)}


def _scalar_value(s):
    if "t" in s:
        return L.materialise(s["t"]), L.value(s["t"], torch.float64)
    return s["v"], s["v"]


@st.composite
def programs(draw, tier):
    ex = _exclusions()
    trig = _open_triggers()
    dt = draw(st.sampled_from(["f64", "f64", "f32"]))
    if dt != "f32":
        ex = tuple(ex) + ("Permutation", "TransposePermutation")
    cfg = gen.Cfg(dt=dt, exclude=ex)
    names = sorted(nm for nm in gen.PREDS if cfg.ok(nm) and (dt == "f32" or nm not in ("Permutation", "TransposePermutation")))
    if draw(st.integers(0, 7)) == 0:
        # reduction family: prod / sum over a batch dimension with 3..7 members (the pairwise product pads odd counts
        # with a root of the all-ones matrix in EVERY halving round) of PSD operators, root-form ones in particular
        heads = [h for h in ("Root", "Root", "LowRankRoot", "LowRankRoot", "LowRankRootAddedDiag", "Dense", "Diag", "Sum", "Chol", "Toeplitz", "ConstantMul", "AddedDiag") if h in names]
        rb = draw(st.sampled_from([(3,), (4,), (5,), (6,), (6,), (7,), (2, 6), (6, 2), (5, 1)]))
        rn = draw(st.integers(2, 4))
        A = _recipe_with_head(draw, cfg, draw(st.sampled_from(heads)), "psd", rn, rn, rb) or gen.gen(draw, cfg, "psd", rn, rn, rb, 2)
        red = [{"k": draw(st.sampled_from(["prod", "prod", "sum"])), "a": -1, "p": draw(st.integers(0, 10**6)), "s": {"kind": "pyfloat", "v": 0.5}}]
        if draw(st.booleans()):
            red.append({"k": draw(st.sampled_from(UNARY)), "a": -1, "p": draw(st.integers(0, 10**6)), "s": draw(scalars(dt, ()))})
        return {"dt": dt, "operands": [{"kind": "op", "recipe": A}], "steps": red, "psd": True}
    HA = draw(st.sampled_from(names))
    batch = draw(st.sampled_from(gen.BATCHES))
    n = draw(st.integers(1, 5))
    if draw(st.integers(0, 11)) == 0:
        # larger batch dimensions (the pairwise reductions of sum / prod pad odd counts in later rounds: 5, 6)
        batch = draw(st.sampled_from([(5,), (6,), (6, 2), (2, 6)]))
        n = draw(st.integers(1, 3))
    first = draw(st.sampled_from(BINARY + ["scalar", "scalar", "unary"]))
    steps = []
    operands = []
    # ---- first operand
    domA = "any"
    m = n if draw(st.integers(0, 2)) else draw(st.integers(1, 5))
    HB = None
    same = False
    if first in BINARY:
        HB = draw(st.sampled_from(names))
        if first in ("add", "sub", "mul", "matmul") and draw(st.integers(0, 5)) == 0:
            # both operands of the SAME class: the class-specific overrides of products / sums of two of their own kind
            # (diagonal @ diagonal, permutation @ permutation, triangular @ triangular, Kronecker + Kronecker, ...)
            HB, same = HA, True
            if first == "matmul":
                m = n
        if first == "mul" or (first in ("add",) and HB in ROOTFORM) or HB in ("Chol", "Root", "LowRankRoot", "Mul", "PsdSum", "SumKronecker", "LowRankRootAddedDiag"):
            domA = "psd" if first in ("mul", "add") else domA
        if first == "mul":
            domA = "psd"
        if first in ("add", "sub") and HB in ROOTFORM:
            domA = "pd"  # a + <root-form operator> is defined through add_low_rank, which needs a^{-1/2}
    A = None
    for dm in ([domA] if domA != "any" else ["any", "psd", "pd"]):
        mm = m if dm == "any" else n
        A = _recipe_with_head(draw, cfg, HA, dm, mm, n, batch)
        if A is not None:
            domA = dm
            m = mm
            break
    if A is None:
        A = gen.gen(draw, cfg, "any" if domA == "any" else domA, m if domA == "any" else n, n, batch, 2)
        if domA != "any":
            m = n
    operands.append({"kind": "op", "recipe": A})
    shape = list(batch) + [m, n]
    if first in BINARY:
        bb = gen.sub_batch(draw, batch)
        if same and batch and any(x > 1 for x in batch) and draw(st.booleans()):
            # same number of batch dimensions, singletons where the other operand has a size > 1
            bb = tuple(1 if (x > 1 and draw(st.booleans())) else x for x in batch)
        if first in ("add", "sub", "radd_tensor", "rsub_tensor", "mul"):
            bm, bn = m, n
        elif first == "matmul":
            bm, bn = n, (n if same and m == n else draw(st.integers(1, 4)))
        else:  # cat
            dim = draw(st.sampled_from([-1, -2] + list(range(len(batch)))))
            bshape = list(shape)
            bshape[dim] = draw(st.integers(1, 3))
            bm, bn, bb = bshape[-2], bshape[-1], tuple(bshape[:-2])
        if first in ("radd_tensor", "rsub_tensor"):
            operands.append({"kind": "tensor", "t": gen.flit(draw, cfg, tuple(bb) + (bm, bn), -16, 16)})
        else:
            domB = "psd" if first == "mul" else "any"
            B = None
            for dm in ([domB] if domB != "any" else ["any", "psd", "pd"]):
                if dm != "any" and bm != bn:
                    continue
                B = _recipe_with_head(draw, cfg, HB, dm, bm, bn, bb)
                if B is not None:
                    break
            if B is None:
                B = gen.gen(draw, cfg, domB, bm, bn, bb, 2)
            if first in ("add", "sub") and B["op"] in ROOTFORM and domA != "pd":
                # a + <root-form operator> is defined through add_low_rank: the left operand must be PSD
                B = gen.mk_dense(draw, cfg, "any", bm, bn, bb, 1)
            operands.append({"kind": "op", "recipe": B})
        st0 = {"k": first, "a": 0, "b": 1}
        if same and m == n and bm == bn == n and (first == "matmul" or (first in ("add", "sub") and A["op"] not in ROOTFORM and operands[1]["recipe"]["op"] not in ROOTFORM)) and draw(st.booleans()):
            st0 = {"k": first, "a": 1, "b": 0}  # the operand with the (possibly) smaller batch shape on the left
        if first == "cat":
            st0["dim"] = dim
        steps.append(st0)
    elif first == "scalar":
        k = draw(st.sampled_from(["mul_scalar", "rmul_scalar", "div_scalar"]))
        s = draw(scalars(dt, batch))
        if k == "div_scalar" and s["kind"] == "zero":
            s = {"kind": "pyfloat", "v": 0.5}
        steps.append({"k": k, "a": 0, "s": s})
    # ---- further unary steps (decided against the evolving dense shape inside check(); here only parameters are drawn)
    nmore = draw(st.integers(1 if first == "unary" else 0, 2))
    for _ in range(nmore):
        k = draw(st.sampled_from(UNARY))
        stp = {"k": k, "a": -1, "p": draw(st.integers(0, 10**6)), "s": draw(scalars(dt, ()))}
        steps.append(stp)
    return {"dt": dt, "operands": operands, "steps": steps, "psd": domA != "any"}


def _mul_factor_scale(r):
    """Sum over the Mul nodes of a recipe of the largest magnitudes of their two factors: (A + e I) o (B + e I) - A o B =
    e (diag A + diag B) + e^2, which the magnitude model |A| o |B| of the product does not see when a factor is zero."""
    tot = 0.0
    for nd in R.walk(r):
        if nd["op"] == "Mul":
            for c in nd["args"]:
                try:
                    m = refmodel.dense_abs(c)
                    tot += float(m.max()) if m.numel() else 0.0
                except Exception:
                    tot += 1.0
    return tot


def strategy(tier):
    return programs(tier)


# ------------------------------------------------------------------------------------------------
# interpretation (library side and dense side, step by step)
# ------------------------------------------------------------------------------------------------
def _pick(p, options):
    return options[p % len(options)]


def _typename(x):
    return type(x).__name__.replace("LinearOperator", "")


def check(case):
    dt = case["dt"]
    tdt = L.DT[dt]
    pool = []  # entries: dict(lib, ref, mag, psd, loose, head)
    labels = []
    for o in case["operands"]:
        if o["kind"] == "op":
            r = o["recipe"]
            try:
                lib = R.build(r)
            except Exception as e:
                raise Violation("C02|build|%s|exc:%s" % (r["op"], X.describe(e)), "constructor raised %r for %s" % (e, R.class_path(r)))
            pool.append({"jit": _mul_factor_scale(r) if R.LAST_BUILD_JITTER > 0 else 0.0, "jitv": R.LAST_BUILD_JITTER, "lib": lib, "ref": refmodel.dense(r), "mag": refmodel.dense_abs(r), "head": r["op"], "psd": case.get("psd", False), "loose": any(nn["op"] == "Mul" for nn in R.walk(r)), "depth": R.depth(r)})
            labels += ["class:" + c for c in R.classes(r)]
        else:
            t = L.materialise(o["t"])
            v = L.value(o["t"], torch.float64)
            pool.append({"lib": t, "ref": v, "mag": v.abs(), "head": "Tensor", "psd": False, "loose": False, "depth": 1})
    heads = [p["head"] for p in pool]
    kinds = []
    rtypes = []
    nontrivial = False
    executed = 0
    for si, stp in enumerate(case["steps"]):
        k = stp["k"]
        a = pool[stp["a"]]
        if torch.is_tensor(a["lib"]) and si > 0:
            # the previous step returned a plain tensor (e.g. a row sum): library semantics end here
            break
        ref_a, mag_a = a["ref"], a["mag"]
        nd = ref_a.dim()
        nb = nd - 2
        p = stp.get("p", 0)
        loose = a["loose"]
        jit_scale = a.get("jit", 0.0)
        jitv = a.get("jitv", 0.0)
        opk = k
        fn_lib = None
        # ---------------- choose concrete parameters against the current shape; skip steps that do not apply
        if k in ("add", "sub", "mul", "matmul", "cat"):
            b = pool[stp["b"]]
            loose = loose or b["loose"]
            jit_scale = jit_scale + b.get("jit", 0.0)
            jitv = max(jitv, b.get("jitv", 0.0))
            if k == "add":
                fn_lib, ref, mag = (lambda: a["lib"] + b["lib"]), ref_a + b["ref"], mag_a + b["mag"]
                loose = loose or b["head"] in ROOTFORM
            elif k == "sub":
                fn_lib, ref, mag = (lambda: a["lib"] - b["lib"]), ref_a - b["ref"], mag_a + b["mag"]
                loose = loose or b["head"] in ROOTFORM
            elif k == "mul":
                fn_lib, ref, mag = (lambda: a["lib"] * b["lib"]), ref_a * b["ref"], mag_a * b["mag"]
                loose = True
                # (A + e I) o (B + e I) - A o B = e (diag A + diag B) + e^2 on the diagonal: the Cholesky jitter e of each
                # root decomposition is scaled by the OTHER operand's magnitude
                jit_scale = (jit_scale + 1.0) * (1.0 + float(mag_a.max()) + float(b["mag"].max()))
            elif k == "matmul":
                fn_lib, ref, mag = (lambda: a["lib"] @ b["lib"]), torch.matmul(ref_a, b["ref"]), torch.matmul(mag_a, b["mag"])
                # (A + dA)(B + dB) - A B with DIAGONAL dA, dB (jitter e times the factor magnitudes of a Mul operand): each
                # operand's jitter scale is multiplied by the OTHER operand's magnitude (no sum over the inner dimension)
                jit_scale = (a.get("jit", 0.0) + 1.0) * (1.0 + float(b["mag"].max()) if b["mag"].numel() else 1.0) + (b.get("jit", 0.0) + 1.0) * (1.0 + float(mag_a.max()) if mag_a.numel() else 1.0)
            else:
                from linear_operator.operators import cat as lo_cat

                dim = stp["dim"]
                # torch.cat needs equal batch shapes: expand the dense references the way the generator sized them
                fn_lib, ref, mag = (lambda: lo_cat([a["lib"], b["lib"]], dim=dim)), torch.cat([ref_a, b["ref"]], dim=dim), torch.cat([mag_a, b["mag"]], dim=dim)
            if a["head"] not in ("Dense", "Tensor") and b["head"] not in ("Dense", "Tensor"):
                nontrivial = True
        elif k in ("radd_tensor", "rsub_tensor"):
            b = pool[stp["b"]]
            if k == "radd_tensor":
                fn_lib, ref, mag = (lambda: b["lib"] + a["lib"]), b["ref"] + ref_a, b["mag"] + mag_a
            else:
                fn_lib, ref, mag = (lambda: b["lib"] - a["lib"]), b["ref"] - ref_a, b["mag"] + mag_a
            opk = "add" if k == "radd_tensor" else "sub"
            nontrivial = nontrivial or a["head"] != "Dense"
        elif k in ("mul_scalar", "rmul_scalar", "div_scalar", "neg_mul"):
            s = stp["s"]
            if k == "neg_mul":
                s = {"kind": "negative", "v": -abs(s.get("v", 1.5)) if "v" in s else -1.5}
            sl, sr = _scalar_value(s)
            if torch.is_tensor(sr) and sr.dim() > 0:
                # a `... x 1 x 1` batch of constants whose batch shape BROADCASTS with the operand's (singletons, more or
                # fewer dimensions) - anything else is not generated for this operand (the shape evolved): skip the step
                try:
                    torch.broadcast_shapes(tuple(sr.shape[:-2]), tuple(ref_a.shape[:-2]))
                except RuntimeError:
                    continue
                if sr.dim() < 2 or tuple(sr.shape[-2:]) != (1, 1):
                    continue
            if k == "div_scalar":
                if (torch.is_tensor(sr) and bool((sr == 0).any())) or (not torch.is_tensor(sr) and sr == 0):
                    continue
                fn_lib, ref, mag = (lambda: a["lib"] / sl), ref_a / sr, mag_a / (sr.abs() if torch.is_tensor(sr) else abs(sr))
                opk = "div"
            elif k == "rmul_scalar":
                fn_lib, ref, mag = (lambda: sl * a["lib"]), ref_a * sr, mag_a * (sr.abs() if torch.is_tensor(sr) else abs(sr))
                opk = "mul"
            else:
                fn_lib, ref, mag = (lambda: a["lib"] * sl), ref_a * sr, mag_a * (sr.abs() if torch.is_tensor(sr) else abs(sr))
                opk = "mul"
            if s["kind"] in ("negative", "zero", "batched") or k == "neg_mul":
                nontrivial = True
            labels.append("scalar:" + s["kind"])
        elif k == "sum":
            dim = _pick(p, list(range(-nd, nd)))
            fn_lib, ref, mag = (lambda: a["lib"].sum(dim)), ref_a.sum(dim), mag_a.sum(dim)
        elif k == "prod":
            if nb == 0 or not a["psd"] or ref_a.shape[-1] != ref_a.shape[-2]:
                continue
            dim = _pick(p, list(range(nb)))
            if ref_a.shape[dim] > 7:
                continue
            fn_lib, ref, mag = (lambda: a["lib"].prod(dim)), ref_a.prod(dim), mag_a.prod(dim)
            loose = True
            # pairwise products through root decompositions: every member (and every intermediate product) gets the Cholesky
            # jitter e on its diagonal, so the result is off by about e * sum_i prod_{j != i} |A_j| per halving round
            mm = mag_a.amax(dim=(-2, -1)).movedim(dim, -1)
            kk = mm.shape[-1]
            # (intermediate products that vanish are re-decomposed WITH jitter and then multiplied by the remaining members:
            #  any sub-product of the magnitudes can scale a jitter, bounded by prod_j max(1, |A_j|))
            others = kk * mm.clamp_min(1.0).prod(-1)
            jit_scale = (jit_scale + 1.0) * (1.0 + float(others.max())) * (1 + math.ceil(math.log2(max(kk, 2))))
        elif k == "expand":
            extra = _pick(p, [(), (2,), (1,), (3, 1)])
            tgt = list(extra) + [(_pick(p // 7 + i, [2, 3]) if s_ == 1 else s_) for i, s_ in enumerate(ref_a.shape[:-2])] + list(ref_a.shape[-2:])
            # the documented "-1 = keep this size" form, for existing dimensions only (bits of p choose the positions)
            keep = (p // 13) % 8
            for i in range(nb):
                if (keep >> (i % 3)) & 1 and (p // 5) % 2:
                    tgt[len(extra) + i] = -1
            if (p // 3) % 4 == 0:
                tgt[-2:] = [-1, -1]
            fn_lib, ref, mag = (lambda: a["lib"].expand(*tgt)), ref_a.expand(*tgt), mag_a.expand(*tgt)
        elif k == "repeat":
            extra = _pick(p, [(), (2,), (1, 2)])
            reps = list(extra) + [_pick(p // 5 + i, [1, 2, 1]) for i in range(nb)] + [1, 1]
            if len(reps) < 3:
                reps = [2] + reps
            fn_lib, ref, mag = (lambda: a["lib"].repeat(*reps)), ref_a.repeat(*reps), mag_a.repeat(*reps)
        elif k == "squeeze":
            dims = [i for i in range(nb) if ref_a.shape[i] == 1]
            if not dims:
                continue
            dim = _pick(p, dims)
            dim = dim - nd if (p // 3) % 2 else dim
            fn_lib, ref, mag = (lambda: a["lib"].squeeze(dim)), ref_a.squeeze(dim), mag_a.squeeze(dim)
        elif k == "unsqueeze":
            dim = _pick(p, list(range(0, nb + 1)))
            fn_lib, ref, mag = (lambda: a["lib"].unsqueeze(dim)), ref_a.unsqueeze(dim), mag_a.unsqueeze(dim)
        elif k == "permute":
            if nb < 2:
                continue
            import itertools

            perm = list(_pick(p, list(itertools.permutations(range(nb))))) + [nb, nb + 1]
            fn_lib, ref, mag = (lambda: a["lib"].permute(*perm)), ref_a.permute(*perm), mag_a.permute(*perm)
        elif k == "transpose":
            choices = [(-1, -2), (-2, -1)] + ([(0, 1)] if nb >= 2 else []) + ([(nb - 2, nb - 1)] if nb >= 3 else [])
            d1, d2 = _pick(p, choices)
            fn_lib, ref, mag = (lambda: a["lib"].transpose(d1, d2)), ref_a.transpose(d1, d2), mag_a.transpose(d1, d2)
        elif k in ("add_diagonal", "add_jitter"):
            if ref_a.shape[-1] != ref_a.shape[-2]:
                continue
            n = ref_a.shape[-1]
            if k == "add_jitter":
                v = 0.125 * (1 + p % 7)
                free = (p // 11) % 2
                if free:
                    import linear_operator

                    fn_lib = lambda: linear_operator.add_jitter(a["lib"], v)  # noqa: E731
                else:
                    fn_lib = lambda: a["lib"].add_jitter(v)  # noqa: E731
                ref = ref_a + v * torch.eye(n, dtype=torch.float64)
                mag = mag_a + v * torch.eye(n, dtype=torch.float64)
            else:
                shp = _pick(p, [(), (1,), (n,), tuple(ref_a.shape[:-2]) + (n,), tuple(ref_a.shape[:-2]) + (1,)])
                cnt = 1
                for s_ in shp:
                    cnt *= s_
                vals = [((p // (i + 2)) % 17 - 4) / 8.0 for i in range(cnt)]
                d = torch.tensor(vals, dtype=tdt).reshape(shp)
                d64 = d.to(torch.float64)
                free = (p // 13) % 2
                if free:
                    import linear_operator

                    fn_lib = lambda: linear_operator.add_diagonal(a["lib"], d)  # noqa: E731
                else:
                    fn_lib = lambda: a["lib"].add_diagonal(d)  # noqa: E731
                dd = torch.diag_embed(d64.expand(*ref_a.shape[:-2], n) if d64.dim() else d64.expand(n))
                ref, mag = ref_a + dd, mag_a + dd.abs()
        elif k == "add_low_rank":
            if not a["psd"] or ref_a.shape[-1] != ref_a.shape[-2] or ref_a.shape[-1] < 2 or not _well_conditioned(ref_a):
                continue
            n = ref_a.shape[-1]
            q = 1 + p % 2
            Bv = torch.tensor([[((p // (i * q + j + 2)) % 9 - 4) / 4.0 for j in range(q)] for i in range(n)], dtype=tdt)
            gen_roots = bool((p // 17) % 2)
            fn_lib = lambda: a["lib"].add_low_rank(Bv, generate_roots=gen_roots)  # noqa: E731
            B64 = Bv.to(torch.float64)
            ref, mag = ref_a + B64 @ B64.T, mag_a + B64.abs() @ B64.abs().T
            loose = True
        elif k == "cat_rows":
            if not a["psd"] or ref_a.shape[-1] != ref_a.shape[-2] or nb > 0 or not _well_conditioned(ref_a):
                continue
            n = ref_a.shape[-1]
            Bv = torch.tensor([[((p // (j + 2)) % 5 - 2) / 8.0 for j in range(n)]], dtype=tdt)
            Dv = torch.tensor([[float(ref_a.abs().max()) + 4.0]], dtype=tdt)
            fn_lib = lambda: a["lib"].cat_rows(Bv, Dv)  # noqa: E731
            B64, D64 = Bv.to(torch.float64), Dv.to(torch.float64)
            ref = torch.cat([torch.cat([ref_a, B64.T], -1), torch.cat([B64, D64], -1)], -2)
            mag = torch.cat([torch.cat([mag_a, B64.abs().T], -1), torch.cat([B64.abs(), D64.abs()], -1)], -2)
            loose = True
        else:
            raise HarnessError("unknown step %r" % (k,))
        executed += 1
        kinds.append(k)
        sig_head = "%s%s" % (a["head"], ("," + pool[stp["b"]]["head"]) if "b" in stp else "")

        def fail(symptom, detail):
            raise Violation("C02|%s|%s|%s" % (k, sig_head, symptom), "%s :: step %d of %s, operand types %s" % (detail, si, kinds, [_typename(a["lib"])] + ([_typename(pool[stp["b"]]["lib"])] if "b" in stp else [])))

        try:
            with warnings.catch_warnings(record=True) as ws1:
                warnings.simplefilter("always")
                res = fn_lib()
                rt = _typename(res)
                dense_res = res if torch.is_tensor(res) else res.to_dense()
                shp_attr = tuple(res.shape)
            jitv = max(jitv, _jitter_reported(ws1))
        except Exception as e:
            if X.is_declined(e, opk):
                labels.append("declined:%s:%s:%s" % (k, sig_head, str(e)[:50]))
                # continue the program from the dense reference wrapped as a DenseLinearOperator
                from linear_operator.operators import DenseLinearOperator

                if ref.dim() >= 2:
                    pool.append({"lib": DenseLinearOperator(ref.to(tdt)), "ref": ref.to(tdt).to(torch.float64), "mag": mag, "head": "Dense", "psd": False, "loose": False, "depth": 1})
                    continue
                break
            fail("exc:" + X.describe(e), "raised %r" % (e,))
        rtypes.append(rt)
        if tuple(dense_res.shape) != tuple(ref.shape) or shp_attr != tuple(ref.shape):
            fail("shape", "result shape %s (attr %s) != torch %s" % (tuple(dense_res.shape), shp_attr, tuple(ref.shape)))
        if dense_res.numel():
            S = mag + (float(mag.max()) * 1e-3)
            if loose:
                # results defined through root decompositions: normwise; the jitter part only if jitter was actually added
                nn_ = max(ref.shape[-2:]) if ref.dim() >= 2 else 1
                S = torch.full_like(S, float(S.max())) * (8.0 * nn_ + 4.0 * jitv / tol.U[dt] / 64.0)
            extra = 8.0 if any("Toeplitz" in l for l in labels) else 1.0
            bound = tol.exact_bound(S, dt, max(ref.shape[-2:]) if ref.dim() >= 2 else 1, a.get("depth", 1) + len(kinds) + 1, extra)
            if loose:
                # jitter carried over from earlier steps grows with the result (scalar factors, matmul, sums over batch)
                if jit_scale and float(mag_a.max()) > 0:
                    jit_scale = jit_scale * max(1.0, float(mag.max()) / float(mag_a.max()))
                bound = bound + 16.0 * 4.0 * jitv * (1.0 + float(mag.max()) + jit_scale)
            ratio, i = tol.worst_excess(dense_res, ref, bound)
            if ratio > 1.0:
                fail("value", "max |lib-ref|/bound = %.3g (lib=%r ref=%r flat %s) result type %s" % (ratio, dense_res.reshape(-1)[i].item(), ref.reshape(-1)[i].item(), i, rt))
        new_psd = a["psd"] and k in ("add_jitter", "add_low_rank", "cat_rows", "expand", "repeat", "squeeze", "unsqueeze", "permute", "transpose", "prod", "sum") and not (k == "sum" and stp.get("a") is not None and False)
        if k == "sum":
            new_psd = a["psd"] and torch.is_tensor(ref) and ref.dim() >= 2 and not torch.is_tensor(res)
        pool.append({"lib": res, "ref": ref, "mag": mag, "head": rt, "psd": bool(new_psd), "loose": loose, "jit": jit_scale, "jitv": jitv, "depth": a.get("depth", 1) + 1})
        if len(kinds) >= 2 and rtypes[0] not in ("Sum", "Dense", "Tensor"):
            nontrivial = True
    labels += ["step:" + k for k in kinds] + ["rtype:" + t for t in rtypes] + ["dtype:" + dt, "nsteps:%d" % executed]
    if case["steps"] and "b" in case["steps"][0] and len(heads) > 1:
        labels.append("pair:%s|%s|%s" % (case["steps"][0]["k"], heads[0], heads[1]))
    return {
        "nontrivial": nontrivial and executed > 0,
        "key": {"heads": heads, "kinds": kinds, "rtypes": rtypes, "scalars": [l for l in labels if l.startswith("scalar:")]},
        "labels": labels,
        "sample": {"heads": heads, "steps": [dict((kk, vv) for kk, vv in s_.items() if kk != "s") for s_ in case["steps"]], "result_types": rtypes},
    }


def _has_head(name):
    def f(case):
        return any(o["kind"] == "op" and any(n["op"] == name for n in R.walk(o["recipe"])) for o in case["operands"])

    return f


def _step_is(*names):
    def f(case):
        return any(s["k"] in names for s in case["steps"])

    return f


def _heads(case):
    return [o["recipe"]["op"] if o["kind"] == "op" else "Tensor" for o in case["operands"]]


def _all_classes(case):
    out = set()
    for o in case["operands"]:
        if o["kind"] == "op":
            out.update(R.classes(o["recipe"]))
    return out


def _first(case):
    return case["steps"][0]["k"] if case["steps"] else None


def _kinds(case):
    return [s["k"] for s in case["steps"]]


def _nonsquare0(case):
    shp = refmodel.shape(case["operands"][0]["recipe"])
    return shp[-1] != shp[-2]


def _batchrepeat_nonsquare(case):
    for o in case["operands"]:
        if o["kind"] != "op":
            continue
        for n in R.walk(o["recipe"]):
            if n["op"] == "BatchRepeat":
                shp = refmodel.shape(n)
                if shp[-1] != shp[-2]:
                    return True
    return False


def _any_batched(case):
    for o in case["operands"]:
        try:
            shp = refmodel.shape(o["recipe"]) if o["kind"] == "op" else tuple(L.shape_of(o["t"]))
        except Exception:
            return True
        if len(shp) > 2:
            return True
    return any(s.get("s", {}).get("kind") == "batched" for s in case["steps"])


DIAGISH = {"Diag", "ConstantDiag", "Identity", "KroneckerDiag"}

BATCHED_CONST_BAD = {"BlockInterleaved", "BlockDiag", "SumBatch", "Zero"}
GETITEM_OPEN = {"Kernel", "KeOps", "Matmul", "BatchRepeat", "BlockDiag", "BlockInterleaved", "Cat", "TransposePermutation"}

def _squeeze_step(c):
    """squeeze (or prod over a size-1 batch dimension, which is implemented as squeeze) = __getitem__ with an int batch
    index on an operand whose class has an open indexing defect; BatchRepeat also arises from an earlier repeat / expand."""
    ks = _kinds(c)
    idx = [i for i, k in enumerate(ks) if k in ("squeeze", "prod")]
    if not idx:
        return False
    if _first(c) == "matmul" or bool(GETITEM_OPEN & _all_classes(c)) or bool({"repeat", "expand"} & set(ks[: idx[-1]])):
        return True
    # a BatchRepeat created by a constructor that batch-expands a component with the default _expand_batch
    return any(o["kind"] == "op" and R.built_has_class(o["recipe"], "BatchRepeatLinearOperator") for o in c["operands"])


TRIGGERS = {
    # (class-specific _mul_constant / constructor defects; the base-class dispatch and the other classes ARE checked)
    "scalar_batched": lambda c: any(s.get("s", {}).get("kind") == "batched" and s["k"] in ("mul_scalar", "rmul_scalar", "div_scalar") for s in c["steps"]) and bool(BATCHED_CONST_BAD & _all_classes(c)),
    "interp_matmul_operator": lambda c: _first(c) == "matmul" and _heads(c)[0] == "Interpolated",
    "mul_with_identity": lambda c: _first(c) == "mul" and "Identity" in _heads(c),
    # (a BatchRepeat written in the recipe is the same object as the result of a repeat() step)
    "repeat_step": lambda c: ("repeat" in _kinds(c) and (_nonsquare0(c) or _first(c) in ("matmul", "cat"))) or _batchrepeat_nonsquare(c),
    # squeeze() is __getitem__ with an int batch index: it inherits the open C03 __getitem__ defects of these classes
    # (BatchRepeat also arises from an earlier repeat / expand step)
    "squeeze_step": _squeeze_step,
    "sum_step": lambda c: "sum" in _kinds(c) and (bool({"Interpolated", "KroneckerAddedDiag"} & _all_classes(c)) or (_first(c) in ("add", "sub", "radd_tensor", "rsub_tensor") and bool(DIAGISH & set(_heads(c))))),
    # TransposePermutation cannot carry a batch shape: any program in which a batch dimension meets one
    "expand_transpose_permutation": lambda c: "TransposePermutation" in _all_classes(c) and (bool({"expand", "repeat", "unsqueeze"} & set(_kinds(c))) or _any_batched(c)),
    "cat_transpose_permutation": lambda c: "cat" in _kinds(c) and "TransposePermutation" in _all_classes(c),
    # `x + <root-form>` is routed through add_low_rank on the NON-DIAGONAL part of these classes, which need not be invertible
    "add_rootform_to_added_diag": lambda c: _first(c) in ("add", "sub") and len(_heads(c)) > 1 and _heads(c)[1] in ROOTFORM and _heads(c)[0] in ("AddedDiag", "KroneckerAddedDiag", "LowRankRootAddedDiag"),
    "zero_add_diagonal": lambda c: bool({"add_diagonal", "add_jitter"} & set(_kinds(c))) and "Zero" in _all_classes(c),
}


def gaps(labels):
    seen = {k.split(":", 1)[1] for k in labels if k.startswith("step:")}
    return sorted("step never executed: " + s for s in set(BINARY + UNARY) - seen)
