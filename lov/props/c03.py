"""C03 -- indexing and diagonal extraction match torch indexing of the dense matrix (DESIGN section 4, C03)."""
import torch
from hypothesis import strategies as st

from lov import exc as X
from lov import gen, lit as L, recipe as R, refmodel, state, tol
from lov.core import HarnessError, Violation
from lov.findings import load as load_findings

ID = "C03"
RULE = (
    "case = (operator recipe, index tuple of length <= ndim over {int incl. negative, non-empty slice with None/negative/"
    "stepped/over-long/stop==size bounds, one Ellipsis, 0-d/1-d LongTensor, python list, rank-2 mutually broadcasting "
    "LongTensors when >=2 positions carry tensors and a matrix position is among them} or diagonal(), settings.debug on/off). "
    "The index is applied to the dense reference first: only indices torch accepts are kept. Non-trivial: index not all-':' and "
    "operator not a bare Dense. Distinct by (class path, index kind per position, debug flag) - i.e. cells, not examples."
)
FUZZ = {"workers": 8, "runs": 3000}  # Atheris campaigns in the thorough tier (DESIGN section 5)
BUDGET = {"quick": 1800, "thorough": 6000}
ASSUMPTIONS = [
    "boolean masks, None and negative steps are not generated (not in the statement / rejected by torch)",
    "negative entries inside index tensors are generated as a separately labelled sub-domain (neg_tensor_entries)",
]

SELECTION = {"Dense", "Minimal", "Diag", "ConstantDiag", "Identity", "Zero", "Tri", "Cat", "Masked", "Permutation", "TransposePermutation", "BatchRepeat"}


def _open_triggers():
    return {e.get("trigger") for e in load_findings() if e.get("property") == ID and e.get("status", "open") == "open"}


def _exclusions():
    # multi-output kernels explicitly decline non-slice / unaligned indices ("does not accept non-slice indices"):
    # they are exercised by C01, not here
    ex = {"Kernel.multitask"}
    for e in load_findings():
        if e.get("status", "open") == "open":
            ex.update(e.get("exclude_nodes", []))
            if e.get("property") == ID:
                ex.update(e.get("exclude_nodes_c03", []))
    return tuple(sorted(ex))


# ------------------------------------------------------------------------------------------------
# index generation
# ------------------------------------------------------------------------------------------------
def _slice(draw, size):
    def bound(kind):
        if kind == "none":
            return None
        if kind == "neg":
            return -draw(st.integers(1, size))
        if kind == "over":
            return size + draw(st.integers(0, 3))
        if kind == "size":
            return size
        return draw(st.integers(0, max(0, size - 1)))

    start = bound(draw(st.sampled_from(["none", "none", "int", "neg", "int"])))
    stop = bound(draw(st.sampled_from(["none", "none", "int", "neg", "over", "size"])))
    step = draw(st.sampled_from([None, None, 1, 2, 3]))
    sl = slice(start, stop, step)
    if len(range(*sl.indices(size))) == 0:
        return [None, None, step]
    return [start, stop, step]


@st.composite
def indices(draw, shape, neg_tensor=True, neg_int_matrix=True):
    nd = len(shape)
    # which positions are explicitly indexed: a prefix, or prefix + ellipsis + suffix
    use_ellipsis = draw(st.integers(0, 3)) == 0
    if use_ellipsis:
        npre = draw(st.integers(0, nd))
        nsuf = draw(st.integers(0, nd - npre))
        positions = list(range(npre)) + list(range(nd - nsuf, nd))
    else:
        npre = draw(st.integers(1, nd))
        nsuf = 0
        positions = list(range(npre))
    kinds = {}
    for p in positions:
        kinds[p] = draw(st.sampled_from(["int", "slice", "slice", "full", "tensor1", "tensor0", "list"]))
    tpos = [p for p in positions if kinds[p] in ("tensor1", "list")]
    rank2 = len(tpos) >= 2 and any(p >= nd - 2 for p in tpos) and draw(st.integers(0, 2)) == 0
    common = draw(st.integers(1, 3))
    common2 = draw(st.integers(1, 2))
    items = {}
    for p in positions:
        size = shape[p]
        k = kinds[p]
        lo = -size if neg_tensor and draw(st.integers(0, 4)) == 0 else 0
        if k == "int":
            lo_i = -size if (p < nd - 2 or neg_int_matrix) else 0
            items[p] = {"k": "int", "v": draw(st.integers(lo_i, size - 1))}
        elif k == "full":
            items[p] = {"k": "slice", "v": [None, None, None]}
        elif k == "slice":
            items[p] = {"k": "slice", "v": _slice(draw, size)}
        elif k == "tensor0":
            items[p] = {"k": "tensor", "v": draw(st.integers(lo, size - 1))}
        else:
            if rank2:
                shp = draw(st.sampled_from([(common2, common), (1, common), (common2, 1), (common,)]))
            else:
                shp = (common,) if draw(st.integers(0, 3)) else (1,)
            n = 1
            for s in shp:
                n *= s
            flat = draw(st.lists(st.integers(lo, size - 1), min_size=n, max_size=n))
            vals = gen._nest(flat, list(shp))
            items[p] = {"k": "list" if (k == "list" and len(shp) == 1) else "tensor", "v": vals}
    # the SAME non-trivial slice for rows and columns of a square operator (a principal sub-matrix: classes may return a
    # structured result for it - stepped ones in particular)
    if nd >= 2 and shape[-1] == shape[-2] and (nd - 1) in items and (nd - 2) in items and draw(st.integers(0, 5)) == 0:
        sl = {"k": "slice", "v": _slice(draw, shape[-1])}
        if draw(st.booleans()):
            sl["v"][2] = draw(st.sampled_from([2, 2, 3]))
        items[nd - 1] = sl
        items[nd - 2] = {"k": "slice", "v": list(sl["v"])}
    out = []
    for p in range(npre):
        out.append(items[p])
    if use_ellipsis:
        out.append({"k": "ellipsis"})
        for p in range(nd - nsuf, nd):
            out.append(items[p])
    return out


def to_index(items):
    idx = []
    for it in items:
        k = it["k"]
        if k == "int":
            idx.append(int(it["v"]))
        elif k == "slice":
            idx.append(slice(*it["v"]))
        elif k == "ellipsis":
            idx.append(Ellipsis)
        elif k == "tensor":
            idx.append(torch.tensor(it["v"], dtype=torch.long))
        elif k == "list":
            idx.append(list(it["v"]))
        else:
            raise HarnessError("bad index item %r" % (it,))
    return tuple(idx) if len(idx) != 1 else (idx[0] if _single_ok(items) else tuple(idx))


def _single_ok(items):
    # a single-element tuple and the bare element mean the same for ints / slices / ellipsis; keep lists in a tuple
    return items[0]["k"] in ("int", "slice", "ellipsis", "tensor")


def _positions(items, nd):
    """Map every item to the dimension it indexes."""
    n_explicit = sum(1 for it in items if it["k"] != "ellipsis")
    pos = []
    p = 0
    for it in items:
        if it["k"] == "ellipsis":
            p += nd - n_explicit
            pos.append(None)
        else:
            pos.append(p)
            p += 1
    return pos


def _kind(it, p, nd):
    k = it["k"]
    if k == "slice":
        k = "full" if it["v"] == [None, None, None] else "slice"
    where = "..." if p is None else ("b" if p < nd - 2 else ("r" if p == nd - 2 else "c"))
    return "%s@%s" % (k, where)


def _has_neg_entries(v):
    if isinstance(v, list):
        return any(_has_neg_entries(x) for x in v)
    return v < 0


def features(items, nd):
    pos = _positions(items, nd)
    f = {"neg_int_matrix": False, "neg_int_batch": False, "neg_tensor_entries": False, "stepped": False, "tensor_matrix": False, "rank2": False}
    for it, p in zip(items, pos):
        if it["k"] == "int" and it["v"] < 0:
            if p >= nd - 2:
                f["neg_int_matrix"] = True
            else:
                f["neg_int_batch"] = True
        if it["k"] in ("tensor", "list"):
            if _has_neg_entries(it["v"]):
                f["neg_tensor_entries"] = True
            if p >= nd - 2:
                f["tensor_matrix"] = True
            if isinstance(it["v"], list) and it["v"] and isinstance(it["v"][0], list):
                f["rank2"] = True
        if it["k"] == "slice" and it["v"][2] not in (None, 1):
            f["stepped"] = True
    return f


@st.composite
def cases(draw, tier):
    max_depth = 3 if tier == "quick" else 4
    ex = _exclusions()
    product = draw(st.integers(0, 9)) == 0
    if product:
        # product family: Matmul of two structured square factors (class pairs such as lower x upper triangular, diagonal x
        # triangular, ... have their own _diagonal / _getitem shortcuts), optionally below a sum / scaling
        cfg = gen.Cfg(dt=draw(st.sampled_from(["f64", "f64", "f32"])), exclude=ex)
        n_ = draw(st.integers(1, 5))
        batch_ = draw(st.sampled_from(gen.BATCHES))

        def factor():
            h = draw(st.sampled_from(["TriT", "TriT", "TriT", "Diag", "Dense", "Toeplitz", "ConstantDiag", "Identity"]))
            dom = draw(st.sampled_from(["tril", "triu"])) if h == "TriT" else "any"
            return gen.call_maker(h, draw, cfg, dom, n_, n_, batch_, 1)

        r = {"op": "Matmul", "args": [factor(), factor()]}
        wrap = draw(st.sampled_from(["none", "none", "sum", "constmul"]))
        if wrap == "sum":
            r = {"op": "Sum", "args": [r, gen.mk_dense(draw, cfg, "any", n_, n_, batch_, 1)]}
        elif wrap == "constmul":
            r = {"op": "ConstantMul", "base": r, "c": gen.flit(draw, cfg, (), -24, 24, scale_ok=False)}
    elif draw(st.integers(0, 2)):
        r = draw(gen.head_first_recipes("any", max_depth=max_depth, exclude=ex))
    else:
        r = draw(gen.recipes(draw(st.sampled_from(["any", "psd", "pd"])), max_depth=max_depth, exclude=ex))
    shape = refmodel.shape(r)
    trig = _open_triggers()
    case = {"recipe": r, "debug": draw(st.sampled_from([True, True, False]))}
    if shape[-1] == shape[-2] and draw(st.integers(0, 1 if product else 7)) == 0 and not ("kron_nonsquare_factor" in trig and _kron_nonsquare(r)):
        case["diag"] = True
    else:
        case["index"] = draw(indices(shape, neg_tensor="neg_tensor_entries" not in trig, neg_int_matrix="neg_int_matrix" not in trig))
    return case


def strategy(tier):
    return cases(tier)


# ------------------------------------------------------------------------------------------------
# oracle
# ------------------------------------------------------------------------------------------------
def check(case):
    r = case["recipe"]
    ref = refmodel.dense(r)
    mag = refmodel.dense_abs(r)
    head = r["op"]
    nd = ref.dim()
    dtname = R.dtype_of(r)
    if case.get("diag"):
        opk = "diagonal"
        expect = ref.diagonal(dim1=-2, dim2=-1)
        S = mag.diagonal(dim1=-2, dim2=-1)
        kinds = ["diag"]
        feats = {}
    else:
        opk = "getitem"
        items = case["index"]
        index = to_index(items)
        try:
            expect = ref[index]
            S = mag[index]
        except (IndexError, RuntimeError, TypeError, ValueError):
            # torch itself rejects this index on the dense matrix: not a C03 case (belongs to C19)
            return {"nontrivial": False, "labels": ["rejected_by_torch"], "key": "rejected"}
        pos = _positions(items, nd)
        kinds = [_kind(it, p, nd) for it, p in zip(items, pos)]
        feats = features(items, nd)

    def fail(symptom, detail):
        raise Violation("C03|%s|%s|%s" % (opk, head, symptom), "%s :: index=%s debug=%s recipe=%s" % (detail, case.get("index", "diagonal()"), case["debug"], R.class_path(r)))

    try:
        op = R.build(r)
        jrep = R.LAST_BUILD_JITTER
    except Exception as e:
        fail("build:" + X.describe(e), "constructor raised %r" % (e,))
    state.settings.debug._state = bool(case["debug"])
    try:
        if case.get("diag"):
            res = op.diagonal()
        else:
            res = op[index]
        lazy = not torch.is_tensor(res)
        if lazy:
            shp_attr = tuple(res.shape)
            res = res.to_dense()
            if shp_attr != tuple(res.shape):
                fail("shape", "lazy result reports shape %s but densifies to %s" % (shp_attr, tuple(res.shape)))
    except Violation:
        raise
    except Exception as e:
        if X.is_declined(e, opk):
            return {"nontrivial": False, "labels": ["declined", "declined:%s:%s" % (head, str(e)[:60])], "key": "declined"}
        fail("exc:" + X.describe(e), "raised %r" % (e,))
    finally:
        state.settings.debug._state = None

    if tuple(res.shape) != tuple(expect.shape):
        fail("shape", "result shape %s != dense[index] shape %s" % (tuple(res.shape), tuple(expect.shape)))
    if res.numel():
        classes = set(R.classes(r))
        if classes <= SELECTION and not any(n["op"] == "Toeplitz" and False for n in R.walk(r)):
            bad = res.to(torch.float64) != expect
            if bool(bad.any()):
                i = int(torch.nonzero(bad.reshape(-1))[0])
                fail("value", "pure-selection operator returned %r, dense[index] is %r (flat %d)" % (res.reshape(-1)[i].item(), expect.reshape(-1)[i].item(), i))
        else:
            Sb = S + (mag.abs().max() * 1e-3 if mag.numel() else 0.0)
            mul = any(n["op"] == "Mul" for n in R.walk(r))
            if mul:
                Sb = torch.full_like(Sb, float(mag.max())) * tol.root_slack(dtname, ref.shape[-1])
            extra = 8.0 if any(n["op"] == "Toeplitz" for n in R.walk(r)) else 1.0
            bound = tol.exact_bound(Sb, dtname, max(ref.shape[-2:]), R.depth(r), extra)
            if mul:
                # psd_safe_cholesky jitter is absolute, not relative to the operand's magnitude
                bound = bound + 16.0 * tol.JITTER_MAX[dtname] * (1.0 + float(mag.max()))
                if jrep > 0.0:
                    # REPORTED jitter e on a factor: (A + e I) o (B + e I) = A o B + e (diag A + diag B) + e^2 - scaled by the
                    # magnitudes of the other (leaf) factors of the nested product, which |A| o |B| (zero for a zero factor) hides
                    prod_f = 1.0
                    for nd in R.walk(r):
                        if nd["op"] == "Mul":
                            for c in nd["args"]:
                                if c["op"] != "Mul":
                                    mc = refmodel.dense_abs(c)
                                    prod_f *= 1.0 + (float(mc.max()) if mc.numel() else 0.0)
                    bound = bound + 16.0 * jrep * prod_f
            ratio, i = tol.worst_excess(res, expect, bound)
            if ratio > 1.0:
                fail("value", "max |lib-ref|/bound = %.3g (lib=%r ref=%r flat %s)" % (ratio, res.reshape(-1)[i].item(), expect.reshape(-1)[i].item(), i))
    nontrivial = head != "Dense" and any(k not in ("full@b", "full@r", "full@c", "ellipsis@...") for k in kinds)
    labels = ["head:" + head, "debug:%s" % case["debug"], "depth:%d" % R.depth(r), "lazy_result" if (not case.get("diag") and lazy) else "tensor_result"]
    labels += ["kind:" + k for k in kinds] + ["feat:" + k for k, v in feats.items() if v] + ["class:" + c for c in R.classes(r)]
    return {
        "nontrivial": nontrivial,
        "key": {"cp": R.class_path(r), "kinds": kinds, "debug": case["debug"], "feats": sorted(k for k, v in feats.items() if v)},
        "labels": labels,
        "sample": {"recipe": R.class_path(r), "shape": list(ref.shape), "index": case.get("index", "diagonal()"), "debug": case["debug"]},
    }


def _kron_nonsquare(r):
    for n in R.walk(r):
        if n["op"] == "Kronecker":
            for a in n["args"]:
                shp = refmodel.shape(a)
                if shp[-1] != shp[-2]:
                    return True
    return False


def _trig(name):
    def f(case):
        if "index" not in case:
            return False
        nd = len(refmodel.shape(case["recipe"]))
        return features(case["index"], nd).get(name, False)

    return f


def _has_class(name):
    def f(case):
        return any(n["op"] == name for n in R.walk(case["recipe"]))

    return f


TRIGGERS = {
    "neg_int_matrix": _trig("neg_int_matrix"),
    "neg_tensor_entries": _trig("neg_tensor_entries"),
    "stepped": _trig("stepped"),
    "has_BatchRepeat": lambda case: _has_class("BatchRepeat")(case) or R.built_has_class(case["recipe"], "BatchRepeatLinearOperator"),
    "has_Cat": _has_class("Cat"),
    "has_BlockDiag": _has_class("BlockDiag"),
    "has_BlockInterleaved": _has_class("BlockInterleaved"),
    "has_TransposePermutation": _has_class("TransposePermutation"),
    "kron_nonsquare_factor": lambda case: _kron_nonsquare(case["recipe"]),
}


def gaps(labels):
    heads = {k.split(":", 1)[1] for k in labels if k.startswith("class:")}
    allc = {n if n not in ("TriT", "TriBase") else "Tri" for n in gen.PREDS}
    return sorted("class never generated: " + c for c in allc - heads)
