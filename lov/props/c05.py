"""C05 -- logdet and inverse quadratic forms equal the dense values or their quadrature (DESIGN section 4, C05).

ORACLE A (deterministic paths: the returned log-determinant has no `InvQuadLogdetBackward` node in its autograd graph)
    logdet   = float64 slogdet of the independent dense reference,
    inv_quad = diag / trace (R^T A_ref^{-1} R) through a float64 solve,
    shapes (*batch) / (*batch, M), dtype = operator dtype, placeholders None or empty for a term not asked for.
ORACLE B (stochastic Lanczos quadrature: the node exists).  Reading functions/_inv_quad_logdet.py + utils/linear_cg.py +
    utils/stochastic_lq.py: the node stores `probe_vectors` z_i/|z_i| (z_i ~ N(0, P), shape (*batch, n, m)); preconditioned CG
    started from z_i with the closure P^{-1} produces the Jacobi matrix T_i of Lanczos on M = P^{-1/2} A P^{-1/2} started
    from u_i = P^{-1/2} z_i / |P^{-1/2} z_i| (the normalisation of z_i cancels, so `probe_vector_norms` is not needed);
    StochasticLQ returns (n/m) sum_i e_1^T log(T_i) e_1 and inv_quad_logdet adds log|P|.  Once T_i has the Krylov
    dimension of (M, u_i) -- guaranteed by max_lanczos_quadrature_iterations >= n and max_cg_iterations >= n (>= n + 1 before
    the linear_cg fix 435e1ec, see F-C05-cg-budget-equals-n) -- Gauss quadrature is exact:
        logdet == log|P| + (n/m) sum_i u_i^T log(M) u_i.
    Early breakdown (Krylov dimension < n) keeps the identity (Gauss quadrature is exact at the Krylov dimension); what
    linear_cg does at and after a breakdown (frozen columns, tridiagonalisation cut at 1e-6) enters the tolerance only.
    P is the operator returned by `op._preconditioner()` (identity when it returns None), densified in float64.
"""
import math
import re

import torch
from hypothesis import strategies as st

import linear_operator
from lov import exc as X
from lov import gen, lit as L, recipe as R, refmodel, state, tol
from lov.core import HarnessError, Violation, sha
from lov.findings import load as load_findings

ID = "C05"
F64 = torch.float64
RULE = (
    "case = (positive-definite operator recipe: head drawn uniformly from the classes with a closed-form override "
    "{Chol, Diag, ConstantDiag, Identity, KroneckerDiag, Kronecker, KroneckerAddedDiag, SumKronecker, LowRankRootAddedDiag, "
    "BlockDiag, BlockInterleaved, BatchRepeat, Cat} and the generic ones {Dense, Minimal, Toeplitz, Root, Sum, PsdSum, Mul, "
    "ConstantMul, SumBatch, Masked, AddedDiag}, nesting <= 3, n <= 6, batch kinds, f32/f64, one float leaf requires grad; "
    "plus Triangular heads with positive diagonal (logdet / inv_quad_logdet only) and a Zero.logdet side cell) x "
    "rhs in {None, vector, 1-3 columns with the operator's batch} x reduce_inv_quad x "
    "logdet flag x entry point {op.logdet, torch.logdet, op.inv_quad, op.inv_quad_logdet, linear_operator.inv_quad, "
    "linear_operator.inv_quad_logdet} x settings cell {max_cholesky_size 0/default, fast log_prob, num_trace_samples 1/4/10, "
    "max_lanczos_quadrature_iterations n/n+2, skip_logdet_forward, min_preconditioning_size / max_preconditioner_size, "
    "cg_tolerance, max_cg_iterations >= n, deterministic_probes}. Non-trivial: stochastic path taken (autograd node found), "
    "or closed-form override head with non-empty batch or reduce=False (value comparison not vacuous). Distinct by (class path, entry, path, rhs kind, flags, "
    "settings cell, batch shape, values)."
)
BUDGET = {"quick": 1500, "thorough": 4000}
ASSUMPTIONS = [
    "inv_quad_logdet is only called with rhs batch == operator batch and a 1-D rhs only against non-batched operators "
    "(every implementation raises RuntimeError otherwise, explicitly)",
    "max_cg_iterations >= max(n, max_lanczos_quadrature_iterations) (linear_cg rejects max_tridiag_iter > max_iter): with fewer "
    "CG iterations than n the tridiagonal matrix is smaller than the Krylov space and exactness is not claimed",
    "MulLinearOperator is only generated with the default max_cholesky_size (its very matrix is defined through root "
    "decompositions, Lanczos-based above the threshold: C01/C06 business)",
    "a term that was not asked for must be None (documentation: 'or None') or an empty tensor (return annotation; what the "
    "library's own wrappers BlockDiag / BlockInterleaved / BatchRepeat test with `is not None and .numel()`)",
    "paths that diagonalise factors through Lanczos (diagonalization() above max_cholesky_size, used by the Kronecker+diagonal "
    "solves) are approximate by construction and poisoned by the open C09 finding F-C09-diag-jitter: values not compared there",
    "with skip_logdet_forward the code returns log|P| (zero without preconditioner): asserted as such",
    "deterministic_probes together with an active preconditioner is not generated while C09 findings are open (the probes are "
    "then drawn through a Lanczos root decomposition of the preconditioner, which is C09's subject)",
]

OVERRIDE_HEADS = ["Chol", "Diag", "ConstantDiag", "Identity", "KroneckerDiag", "Kronecker", "KroneckerAddedDiag", "SumKronecker",
                  "LowRankRootAddedDiag", "BlockDiag", "BlockInterleaved", "BatchRepeat", "Cat", "Tri"]
GENERIC_HEADS = ["Dense", "Minimal", "Toeplitz", "Root", "Sum", "PsdSum", "Mul", "ConstantMul", "SumBatch", "Masked", "AddedDiag"]

# tolerance constants (derivations next to their use)
C_LOGDET = 64.0
C_SOLVE = 256.0
C_CG = 1024.0
C_SLQ = 4096.0
LARGE_KAPPA_MAX = 64.0
CG_EPS = 1e-10  # linear_cg: eps of the "safe division" (alpha := 0 when p^T A p < eps, rhs normalised): the iteration stalls
TRIDIAG_CUT = 1e-6  # linear_cg: tridiagonalisation stops once every off-diagonal entry is below this


# ------------------------------------------------------------------------------------------------
# known findings -> generator-side exclusions
# ------------------------------------------------------------------------------------------------
def _open_entries():
    return [e for e in load_findings() if e.get("status", "open") == "open"]


def _open_triggers():
    return {e.get("trigger") for e in _open_entries() if e.get("property") == ID and e.get("trigger")}


def _exclusions():
    ex = set()
    for e in _open_entries():
        ex.update(e.get("exclude_nodes", []))
        if e.get("id") == "F-C15-tri-structured-solve":
            # TriangularLinearOperator over a structured (non-dense) operator solves wrongly (open C15 / C04 finding)
            ex.add("TriBase")
        if e.get("property") == ID:
            ex.update(e.get("exclude_nodes_c05", []))
    return tuple(sorted(ex))


# ------------------------------------------------------------------------------------------------
# generation
# ------------------------------------------------------------------------------------------------
def _mark_grad(r):
    lits = R.float_literals(r)
    if lits:
        lits[0]["rg"] = True


@st.composite
def _cat_pd(draw, dt):
    """A positive-definite matrix stored as a CatLinearOperator: rows (or columns) of a PD dense matrix cut into pieces, or
    PD operators concatenated along a batch dimension."""
    cfg = gen.Cfg(dt=dt)
    n = draw(st.integers(2, 6))
    if draw(st.booleans()):
        batch = draw(st.sampled_from([(), (), (2,)]))
        vals = gen.psd_values(draw, cfg, batch, n, True)
        t = torch.tensor(vals, dtype=F64)
        dim = draw(st.sampled_from([-2, -1]))
        cut = draw(st.integers(1, n - 1))
        a, b = (t[..., :cut, :], t[..., cut:, :]) if dim == -2 else (t[..., :, :cut], t[..., :, cut:])
        args = [{"op": "Dense", "t": L.lit(a.tolist(), dt)}, {"op": "Dense", "t": L.lit(b.tolist(), dt)}]
        return {"op": "Cat", "args": args, "dim": dim}
    b1, b2 = draw(st.integers(1, 2)), draw(st.integers(1, 2))
    args = []
    for b in (b1, b2):
        which = draw(st.sampled_from(["Dense", "Diag", "Toeplitz"]))
        args.append(gen.MAKERS[which](draw, cfg, "pd", n, n, (b,), 1))
    return {"op": "Cat", "args": args, "dim": draw(st.sampled_from([0, -3]))}


KRON_HEADS = ("Kronecker", "KroneckerDiag", "KroneckerAddedDiag", "SumKronecker")


@st.composite
def _kron_head(draw, head, dt, ex):
    """Kronecker-structured heads need a composite size (gen.recipes draws n in 1..6 and falls back to another class for
    primes): draw n from {4, 6} and call the class's maker directly."""
    cfg = gen.Cfg(dt=dt, exclude=ex)
    batch = draw(st.sampled_from(gen.BATCHES))
    n = draw(st.sampled_from([4, 6, 4]))
    depth = draw(st.integers(2, 3))
    return gen.call_maker(head, draw, cfg, "pd", n, n, batch, depth)


@st.composite
def _recipe(draw, tier, focus):
    if "batch_repeat_nested_below_head" not in _open_triggers():
        return draw(_recipe1(tier, focus))
    for _ in range(4):
        r = draw(_recipe1(tier, focus))
        if not _recipe_tri_solve_over_repeat(r):
            return r
    return gen.mk_dense(draw, gen.Cfg(dt="f64"), "pd", 3, 3, (), 1)


@st.composite
def _recipe1(draw, tier, focus):
    ex = _exclusions()
    trig = _open_triggers()
    max_depth = 3  # both tiers: deeper trees only add failures of the factors' own root / eigen decompositions (C02 / C06)
    if focus == "slq":
        # classes that reach the InvQuadLogdet function when n > max_cholesky_size: the generic ones, AddedDiag (with its
        # pivoted-Cholesky preconditioner), KroneckerAddedDiag's fall-back branch, and the delegating wrappers over them
        kind = draw(st.sampled_from(["generic", "generic", "added_diag", "added_diag", "kpad", "wrapper", "cat"] + ["large", "large"]))
    elif focus == "closed":
        kind = draw(st.sampled_from(["override"] * 6 + ["kpad"]))
    else:
        kind = draw(st.sampled_from(["override", "generic", "any", "any", "added_diag"]))
    dt = draw(st.sampled_from(["f64", "f64", "f32"]))
    if kind == "large":
        # sizes ABOVE the solver's fixed thresholds (10 warm-up iterations, the default 20-step quadrature budget, 10 probes):
        # the tridiagonal matrices must still be complete (n rows) when the budget reaches n
        nl = draw(st.sampled_from([12, 13, 14, 16, 18, 20]))
        bl = draw(st.sampled_from([(), (), (2,)]))
        cfgl = gen.Cfg(dt="f64", max_dim=20, exclude=ex, max_elems=2000)
        if draw(st.booleans()):
            return gen.mk_dense(draw, cfgl, "pd", nl, nl, bl, 1)
        return {"op": "AddedDiag", "args": [gen.mk_dense(draw, cfgl, "psd", nl, nl, bl, 1), gen.mk_diag(draw, cfgl, "pd", nl, nl, bl, 1)]}
    if kind == "override":
        heads = [h for h in OVERRIDE_HEADS + ["Kronecker", "Kronecker", "BatchRepeat", "Chol"] if h not in ex and ("has_" + h) not in trig]
        head = draw(st.sampled_from(heads))
        if head == "Cat":
            return draw(_cat_pd(dt))
        if head == "Tri":
            dom = draw(st.sampled_from(["tril+", "triu+"]))
            # (KroneckerProductTriangularLinearOperator declines: "_symeig not applicable to triangular lazy tensors")
            hd = draw(st.sampled_from([h for h in ["TriT", "TriT", "TriBase"] if h not in ex]))
            return draw(gen.recipes(dom, max_depth=max_depth, head=hd, dts=(dt,), exclude=ex))
        if head in KRON_HEADS:
            return draw(_kron_head(head, dt, ex))
        batches = [b for b in gen.BATCHES if b] if head == "BatchRepeat" else None
        return draw(gen.recipes("pd", max_depth=max_depth, head=head, dts=(dt,), exclude=ex, batches=batches))
    if kind == "generic":
        head = draw(st.sampled_from([h for h in GENERIC_HEADS if h not in ex and ("has_" + h) not in trig and not (focus == "slq" and h == "Mul")]))
        return draw(gen.recipes("pd", max_depth=max_depth, head=head, dts=(dt,), exclude=ex))
    if kind == "cat":
        return draw(_cat_pd(dt))
    if kind == "wrapper":
        head = draw(st.sampled_from(["BlockDiag", "BlockInterleaved", "BatchRepeat"]))
        batches = [b for b in gen.BATCHES if b] if head == "BatchRepeat" else None
        return draw(gen.recipes("pd", max_depth=2, head=head, dts=(dt,), exclude=ex, batches=batches, classes=GENERIC_HEADS[:4] + ["AddedDiag", "Diag", "ConstantDiag", head]))
    if kind == "added_diag":
        return draw(gen.recipes("pd", max_depth=2, head="AddedDiag", dts=(dt,), exclude=ex))
    if kind == "kpad" and "KroneckerAddedDiag" not in ex:
        return draw(_kron_head("KroneckerAddedDiag", dt, ex))
    return draw(gen.recipes("pd", max_depth=max_depth, dts=(dt,), exclude=ex))


def _rhs_kinds(shape, entry):
    batch = tuple(shape[:-2])
    kinds = ["matrix", "matrix", "matrix1"]
    if not batch:
        kinds.append("vector")
    # (a right-hand side whose batch merely broadcasts against the operator's is accepted by inv_quad, but then the verdict is
    #  that of the class's solve under broadcasting - C04; a sweep hit KroneckerProductTriangular.solve there)
    return kinds


@st.composite
def _rhs(draw, shape, dt, kind):
    *batch, n, _ = shape
    batch = tuple(batch)
    cfg = gen.Cfg(dt=dt, wide=False)
    if kind == "vector":
        return kind, gen.flit(draw, cfg, (n,), -16, 16)
    c = 1 if kind == "matrix1" else draw(st.integers(1, 3))
    if kind == "bcast":
        how = draw(st.sampled_from(["fewer", "size1", "more"]))
        if how == "fewer":
            b = batch[draw(st.integers(1, len(batch))):]
        elif how == "size1":
            b = tuple(1 if draw(st.booleans()) else x for x in batch)
        else:
            b = (2,) + batch
        return kind, gen.flit(draw, cfg, tuple(b) + (n, c), -16, 16)
    return kind, gen.flit(draw, cfg, batch + (n, c), -16, 16)


def _settings_cell(draw, n, has_mul, focus, added_diag=False):
    cell = {}
    if focus == "slq" and not has_mul:
        cell["max_cholesky_size"] = 0
    else:
        if draw(st.booleans()) and not has_mul:
            cell["max_cholesky_size"] = 0
        if draw(st.integers(0, 3)) == 0:
            cell["fast.log_prob"] = False
    cell["num_trace_samples"] = draw(st.sampled_from([1, 4, 10]))
    lq = draw(st.sampled_from([n, n + 2, None]))
    if lq is not None:
        cell["max_lanczos_quadrature_iterations"] = lq
    lqv = lq if lq is not None else 20
    mcg = draw(st.sampled_from([None, None, max(n + 1, lqv), lqv + 3, 20]))
    if lq == n and "cg_budget_equals_lanczos_budget_equals_n" not in _open_triggers() and draw(st.integers(0, 7)) == 0:
        mcg = n  # the smallest CG budget linear_cg accepts for n Lanczos steps (max_tridiag_iter <= max_iter)
    if mcg is not None:
        cell["max_cg_iterations"] = mcg
        cell["cg_tolerance"] = draw(st.sampled_from([1.0, 1e-2, 1e-12]))
    elif draw(st.integers(0, 2)) == 0:
        cell["cg_tolerance"] = 1e-2
    if draw(st.sampled_from([False] * 7 + [True])):
        cell["skip_logdet_forward"] = True
    pre = draw(st.sampled_from(["on", "on", "on", "on", "off", "default"] if added_diag else ["default", "on", "on", "off"]))
    if pre == "on":
        cell["min_preconditioning_size"] = draw(st.sampled_from([0, n]))
        cell["max_preconditioner_size"] = draw(st.sampled_from([1, 2, 15]))
    elif pre == "off":
        cell["min_preconditioning_size"] = 0
        cell["max_preconditioner_size"] = 0
    # deterministic_probes (deprecated) draws its probes through precond_lt.root_decomposition(): Lanczos above
    # max_cholesky_size, which fails on batches with members of different Krylov dimension (open C09 findings) - with an
    # active preconditioner it is therefore only generated while no C09 finding is open
    if draw(st.sampled_from([False] * 11 + [True])) and not (pre == "on" and any(e.get("property") == "C09" for e in _open_entries())):
        cell["deterministic_probes"] = True
    return cell


@st.composite
def cases(draw, tier):
    if draw(st.integers(0, 39)) == 0 and "zero_logdet" not in _open_triggers():
        b = draw(st.sampled_from([(), (2,), (2, 3)]))
        n = draw(st.integers(1, 4))
        return {"recipe": {"op": "Zero", "sizes": list(b) + [n, n], "dt": draw(st.sampled_from(["f64", "f32"]))}, "entry": draw(st.sampled_from(["logdet", "torch.logdet"])), "settings": {}}
    focus = draw(st.sampled_from(["slq", "slq", "closed", "closed", "any"]))
    r = draw(_recipe(tier, focus))
    _mark_grad(r)
    shape = refmodel.shape(r)
    n = shape[-1]
    dt = R.dtype_of(r)
    has_mul = any(x["op"] == "Mul" for x in R.walk(r))
    cell = _settings_cell(draw, n, has_mul, focus, added_diag=_effective(r)[0]["op"] == "AddedDiag")
    tri = r["op"] in ("Tri", "KroneckerTri")
    # every (entry, rhs kind, logdet flag) combination; those for which the trigger of an OPEN finding holds are removed
    options = [("logdet", None, True), ("torch.logdet", None, True)] * 2
    for e in ("inv_quad", "fn.inv_quad", "inv_quad", "fn.inv_quad"):
        if not tri:
            options += [(e, k, False) for k in _rhs_kinds(shape, e)]
    for e in ("inv_quad_logdet", "inv_quad_logdet", "fn.inv_quad_logdet"):
        options += [(e, None, True)] * 2
        options += [(e, k, ldf) for k in _rhs_kinds(shape, e) for ldf in (True, True, False)]
    open_trig = [TRIGGERS[t] for t in sorted(_open_triggers()) if t in TRIGGERS]
    if open_trig:
        def clean(o):
            skel = {"recipe": r, "entry": o[0], "settings": cell, "logdet": o[2]}
            if o[1] is not None:
                skel["rhs_kind"] = o[1]
            return not any(t(skel) for t in open_trig)

        options = [o for o in options if clean(o)] or [("inv_quad", "matrix", False)]
    if focus == "slq" and any(o[2] for o in options):
        options = [o for o in options if o[2]]
    if n > 8:
        # the large cases exist for the log-determinant quadrature (complete tridiagonal matrices); their CG solves sit at
        # linear_cg's 1e-10 residual floor (C08), which the inv_quad bound derived for n <= 6 does not model
        options = [o for o in options if o[1] is None] or [("logdet", None, True)]
    entry, kind, ldf = draw(st.sampled_from(options))
    case = {"recipe": r, "entry": entry}
    if kind is not None:
        case["rhs_kind"], case["rhs"] = draw(_rhs(shape, dt, kind))
    if entry not in ("logdet", "torch.logdet"):
        case["reduce"] = draw(st.booleans())
    if entry in ("inv_quad_logdet", "fn.inv_quad_logdet"):
        case["logdet"] = ldf
    case["settings"] = cell
    if "max_cholesky_size" not in cell and not tri and draw(st.integers(0, 2)) == 0:
        # a query issued on the SAME operator object beforehand (fills its caches): the values must not depend on it.
        # Only in cells that take the deterministic path anyway, so that the expected path is unchanged.
        case["warm"] = draw(st.sampled_from(WARM))
    return case


WARM = ["root_inv_decomposition", "cholesky", "root_decomposition", "diagonalization", "diagonalization:lanczos", "diagonalization:lanczos:trunc", "solve", "inv_quad_logdet", "logdet", "to_dense"]


def _warm(op, kind):
    n = op.shape[-1]
    if kind == "solve":
        op.solve(torch.ones(*op.batch_shape, n, 1, dtype=op.dtype))
    elif kind == "inv_quad_logdet":
        op.inv_quad_logdet(torch.ones(*op.batch_shape, n, 1, dtype=op.dtype), logdet=True)
    elif kind == "diagonalization:lanczos":
        op.diagonalization(method="lanczos")
    elif kind == "diagonalization:lanczos:trunc":
        # an earlier query under another setting: a rank-limited Lanczos diagonalization stays in the cache
        with linear_operator.settings.max_root_decomposition_size(max(1, n // 2)):
            op.diagonalization(method="lanczos")
    else:
        getattr(op, kind)()


def strategy(tier):
    return cases(tier)


# ------------------------------------------------------------------------------------------------
# reference quantities
# ------------------------------------------------------------------------------------------------
def _sym(a):
    return 0.5 * (a + a.transpose(-1, -2))


def _spectral_info(A, symmetric):
    """(kappa, lmin, lmax, sum_i |log lambda_i| max over batch) of the reference (2-norm condition number)."""
    if A.numel() == 0:
        return 1.0, 1.0, 1.0, 0.0
    if symmetric:
        w = torch.linalg.eigvalsh(_sym(A))
        lmin, lmax = float(w.min()), float(w.abs().max())
        if lmin <= 0:
            raise HarnessError("reference matrix of a 'pd' recipe is not positive definite (lambda_min=%g)" % lmin)
        kap = float((w.abs().max(-1).values / w.min(-1).values).max())
        return kap, lmin, lmax, float(w.log().abs().sum(-1).max())
    s = torch.linalg.svdvals(A)
    kap = float((s.max(-1).values / s.min(-1).values).max())
    return kap, float(s.min()), float(s.max()), float(s.log().abs().sum(-1).max())


def _find_nodes(*tensors):
    out, seen, stack = [], set(), [t.grad_fn for t in tensors if torch.is_tensor(t) and t.grad_fn is not None]
    while stack:
        f = stack.pop()
        if f is None or id(f) in seen:
            continue
        seen.add(id(f))
        if type(f).__name__ == "InvQuadLogdetBackward":
            out.append(f)
        stack.extend(g for g, _ in f.next_functions)
    return out


def _lanczos_profile(M, u, mu_max):
    """Reference Lanczos (float64, full re-orthogonalisation) of (M, u_i), batched over (*batch, m): returns
    (amp, cut) with amp = max_j ||M|| / beta_j over the steps before the first off-diagonal beta_j < 10 * TRIDIAG_CUT
    (rounding errors of a Lanczos / CG step are amplified by the division by beta_j), and cut = the largest such
    first-small beta_j (0.0 if no probe comes near a breakdown within n - 1 steps)."""
    n = M.shape[-1]
    if n == 1:
        return 1.0, 0.0
    Q = [u]
    q_prev, beta_prev, q = torch.zeros_like(u), torch.zeros_like(u[..., :1, :]), u
    alive = torch.ones_like(u[..., :1, :], dtype=torch.bool)
    amp = torch.ones_like(u[..., :1, :])
    cut = torch.zeros_like(u[..., :1, :])
    scale = mu_max.reshape(*mu_max.shape, 1, 1)
    for j in range(n - 1):
        w = M @ q - beta_prev * q_prev
        alpha = (q * w).sum(-2, keepdim=True)
        w = w - alpha * q
        for _ in range(2):
            for qq in Q:
                w = w - (qq * w).sum(-2, keepdim=True) * qq
        beta = w.norm(dim=-2, keepdim=True)
        small = beta < 10.0 * TRIDIAG_CUT
        cut = torch.where(alive & small, torch.maximum(cut, beta.clamp_min(TRIDIAG_CUT)), cut)
        alive = alive & ~small
        amp = torch.where(alive, torch.maximum(amp, scale / beta.clamp_min(1e-300)), amp)
        q_prev, beta_prev = q, beta
        q = w / beta.clamp_min(1e-300)
        Q.append(q)
    return float(amp.max()), float(cut.max())


def _tridiag_size(lines):
    """Size of the Jacobi matrices handed to the eigensolver after the last CG run (from the verbose log)."""
    k = None
    after_cg = False
    for ln in lines:
        if "Running CG" in ln:
            after_cg, k = True, None
        elif after_cg and "symeig" in ln and k is None:
            try:
                k = int(ln.split("torch.Size([")[1].split("])")[0].split(",")[-1])
            except Exception:
                k = None
    return k


def _slq_leaf(op, A, nodes, info):
    """Exact value of the estimator for the probes stored on the node that belongs to `op` (A: float64 reference)."""
    n = A.shape[-1]
    node = None
    for nd_ in nodes:
        pv = getattr(nd_, "probe_vectors", None)
        if pv is not None and tuple(pv.shape[:-1]) == tuple(A.shape[:-1]):
            node = nd_
    if node is None:
        return None
    z = node.probe_vectors.detach().to(F64)
    m = z.shape[-1]
    _, P_op, _ = op._preconditioner()
    if P_op is None:
        Pm = None
        logdet_p = torch.zeros(A.shape[:-2], dtype=F64)
        M = _sym(A)
        u = z
        kp = 1.0
    else:
        Pd = P_op.to_dense().detach().to(F64).expand(*A.shape)
        p, V = torch.linalg.eigh(_sym(Pd))
        if float(p.min()) <= 0:
            raise Violation("C05|%s|slq|%s|precond_not_pd" % (info["entry"], info["head"]), "preconditioner operator has eigenvalue %g" % float(p.min()))
        Pm = (V * p.rsqrt().unsqueeze(-2)) @ V.transpose(-1, -2)
        logdet_p = p.log().sum(-1)
        M = _sym(Pm @ A @ Pm)
        u = Pm @ z
        kp = float((p.max(-1).values / p.min(-1).values).max())
    u = u / u.norm(dim=-2, keepdim=True)
    mu, W = torch.linalg.eigh(M)
    c = W.transpose(-1, -2) @ u
    quad = (c.pow(2) * mu.log().unsqueeze(-1)).sum(-2)  # (*batch, m)
    info["m"] = m
    info["precond"] = P_op is not None
    info["kappa_M"] = max(info.get("kappa_M", 1.0), float((mu.max(-1).values / mu.min(-1).values).max()))
    info["kappa_P"] = max(info.get("kappa_P", 1.0), kp)
    info["p_max"] = max(info.get("p_max", 0.0), 1.0 if P_op is None else float(p.max()))
    info["lmin_leaf"] = min(info.get("lmin_leaf", float("inf")), float(torch.linalg.eigvalsh(_sym(A)).min()))
    info["logmax"] = max(info.get("logmax", 0.0), float(mu.log().abs().max()))
    info["mu_min"] = min(info.get("mu_min", float("inf")), float(mu.min()))
    info["skip_value"] = logdet_p
    amp, cut = _lanczos_profile(M, u, mu.max(-1).values)
    info["amp"] = max(info.get("amp", 1.0), amp)
    info["cut"] = max(info.get("cut", 0.0), cut)
    info["n_leaf"] = n
    return logdet_p + (n / float(m)) * quad.sum(-1)


def _cg_precond_info(op, A, info):
    """Spectral data of the preconditioner the InvQuad function hands to CG (no autograd node to start from): the head's
    own `_preconditioner()` under the settings in force (None for every class but AddedDiag)."""
    try:
        _, P_op, _ = op._preconditioner()
    except Exception:
        return
    if P_op is None:
        return
    Pd = P_op.to_dense().detach().to(F64).expand(*A.shape)
    p, V = torch.linalg.eigh(_sym(Pd))
    if float(p.min()) <= 0:
        return
    Pm = (V * p.rsqrt().unsqueeze(-2)) @ V.transpose(-1, -2)
    mu = torch.linalg.eigvalsh(_sym(Pm @ A @ Pm))
    info["kappa_P"] = float((p.max(-1).values / p.min(-1).values).max())
    info["kappa_M"] = float((mu.max(-1).values / mu.min(-1).values).max())
    info["p_max"] = float(p.max())
    info["mu_min"] = float(mu.min())
    info["precond"] = True


def _kappa_struct(r, kappa):
    """Condition number that governs the closed-form solve actually used.  Woodbury (LowRankRootAddedDiag) and the
    'pull the diagonal across' identities (KroneckerProductAddedDiag, SumKronecker) invert the diagonal / second summand
    separately, so their forward error scales with ||A|| ||D^{-1}|| (resp. kappa(A) kappa(B2)), not with kappa(A) alone."""
    e, _ = _effective(r)
    try:
        if e["op"] in ("LowRankRootAddedDiag", "KroneckerAddedDiag"):
            Ae = refmodel.dense(e)
            lmax_e = float(torch.linalg.eigvalsh(_sym(Ae)).abs().max())
            d = [a for a in e["args"] if gen.is_diag_instance(a)]
            if d:
                dd = refmodel.dense(d[0]).diagonal(dim1=-2, dim2=-1)
                return max(kappa, lmax_e / float(dd.min()), float((dd.max(-1).values / dd.min(-1).values).max()) * kappa)
        if e["op"] == "SumKronecker":
            w = torch.linalg.eigvalsh(_sym(refmodel.dense(e["args"][1])))
            return kappa * float((w.max(-1).values / w.min(-1).values).max())
    except Exception as exc:  # pragma: no cover
        raise HarnessError("structural condition number failed: %r" % (exc,))
    return kappa


def _slq_expected(r, A, op, nodes, info):
    """Expected stochastic log-determinant of the operator `op` built from recipe r (A = its float64 dense reference, in the
    batch order of `op`), following the delegation of the block / repeat wrappers to their base operator.  The reference of
    the base is cut out of A itself (diagonal blocks / interleaved sub-grids / the first copy of a repeat), so that batch
    permutations applied by an enclosing wrapper (block_dim != -3) are followed."""
    kind = r["op"]
    if kind in ("BlockDiag", "BlockInterleaved") and hasattr(op, "base_linear_op") and not gen.is_diag_instance(r):
        sub = r["base"]
        sshape = refmodel.shape(sub)
        nd = len(sshape)
        bd = r.get("block_dim", -3)
        k = sshape[bd if bd < 0 else bd - nd]
        n = A.shape[-1]
        p_ = n // k
        if kind == "BlockDiag":
            blocks = [A[..., j * p_ : (j + 1) * p_, j * p_ : (j + 1) * p_] for j in range(k)]
        else:
            blocks = [A[..., j::k, j::k] for j in range(k)]
        A_sub = torch.stack(blocks, dim=-3)
        e = _slq_expected(sub, A_sub, op.base_linear_op, nodes, info)
        if e is None:
            return None
        info["skip_value"] = info["skip_value"].sum(-1)
        return e.sum(-1)
    if kind == "BatchRepeat" and hasattr(op, "base_linear_op"):
        sub = r["base"]
        rep = list(r["repeat"])
        bb = list(refmodel.shape(sub)[:-2])
        bb = [1] * (len(rep) - len(bb)) + bb
        A_sub = A[tuple(slice(0, s_) for s_ in bb)]
        e = _slq_expected(sub, A_sub, op.base_linear_op, nodes, info)
        if e is None:
            return None
        info["skip_value"] = info["skip_value"].repeat(*rep)
        return e.repeat(*rep)
    return _slq_leaf(op, A, nodes, info)


KRON_SOLVE_NODES = ("Kronecker", "KroneckerAddedDiag", "KroneckerDiag", "KroneckerTri", "SumKronecker")
_CG_RHS_RE = re.compile(r"Running CG on a torch\.Size\(\[([0-9, ]*)\]\) RHS")


def _cg_inner(lines, n):
    """True iff some logged CG call worked on a right-hand side with a row count other than the operator's size n."""
    for ln in lines:
        m = _CG_RHS_RE.search(ln)
        if m:
            dims = [int(x) for x in m.group(1).replace(" ", "").split(",") if x]
            if len(dims) >= 2 and dims[-2] != n:
                return True
    return False


def _placeholder_kind(t):
    if t is None:
        return "None"
    if torch.is_tensor(t) and t.numel() == 0:
        return "empty"
    if torch.is_tensor(t) and not bool(t.ne(0).any()):
        return "zeros%s" % (list(t.shape),)
    return "value"


# ------------------------------------------------------------------------------------------------
# the check
# ------------------------------------------------------------------------------------------------
def _call(op, entry, rhs, reduce_, logdet):
    if entry == "logdet":
        return None, op.logdet()
    if entry == "torch.logdet":
        return None, torch.logdet(op)
    if entry == "inv_quad":
        return op.inv_quad(rhs, reduce_inv_quad=reduce_), None
    if entry == "fn.inv_quad":
        return linear_operator.inv_quad(op, rhs, reduce_inv_quad=reduce_), None
    if entry == "inv_quad_logdet":
        return op.inv_quad_logdet(inv_quad_rhs=rhs, logdet=logdet, reduce_inv_quad=reduce_)
    if entry == "fn.inv_quad_logdet":
        return linear_operator.inv_quad_logdet(op, inv_quad_rhs=rhs, logdet=logdet, reduce_inv_quad=reduce_)
    raise HarnessError("unknown entry %r" % entry)


def check(case):
    r, entry, cell = case["recipe"], case["entry"], case.get("settings", {})
    head = r["op"]
    dtname = R.dtype_of(r)
    dt = L.DT[dtname]
    u = tol.u_of(dtname)
    A = refmodel.dense(r)
    n = A.shape[-1]
    batch = tuple(A.shape[:-2])
    cp = R.class_path(r)
    rhs_lit = case.get("rhs")
    reduce_ = bool(case.get("reduce", True))
    want_ld = entry in ("logdet", "torch.logdet") or bool(case.get("logdet", False))
    want_iq = rhs_lit is not None
    seen = {"path": "closed"}

    def fail(symptom, detail):
        raise Violation(
            "C05|%s|%s|%s|%s" % (entry, seen["path"], head, symptom),
            "%s :: %s rhs=%s reduce=%s logdet=%s settings=%s" % (detail, cp, L.shape_of(rhs_lit) if rhs_lit else None, reduce_, want_ld, cell),
        )

    # ---------------- Zero side cell: log|0| = -inf with the operator's batch shape and dtype
    if head == "Zero":
        try:
            op = R.build(r)
            _, ld = _call(op, entry, None, True, True)
        except Exception as e:
            fail("exc:" + X.describe(e), "raised %r" % (e,))
        if not torch.is_tensor(ld) or not bool((ld == float("-inf")).all()):
            fail("value", "log|0| returned %r" % (ld,))
        if tuple(ld.shape) != batch:
            fail("shape", "logdet shape %s, documented (*batch) = %s" % (tuple(ld.shape), batch))
        if ld.dtype != dt:
            fail("dtype", "logdet dtype %s for a %s operator" % (ld.dtype, dt))
        return {"nontrivial": bool(batch), "key": {"zero": r["sizes"], "dt": dtname, "entry": entry}, "labels": ["head:Zero", "entry:" + entry, "path:closed"], "sample": {"recipe": cp}}

    symmetric = head not in ("Tri", "KroneckerTri")
    kappa, lmin, lmax, sumlog = _spectral_info(A, symmetric)

    try:
        ctx = R.BuildCtx()
        op = R.build(r, ctx)
    except Exception as e:
        fail("build:" + X.describe(e), "constructor raised %r" % (e,))
    rhs = L.materialise(rhs_lit) if rhs_lit is not None else None

    info = {"entry": entry, "head": head}
    expected_slq = None
    nodes = []
    lines = []
    raised = None
    warm_label = "warm:none"
    with state.apply_settings(cell):
        if case.get("warm"):
            try:
                with torch.no_grad():
                    _warm(op, case["warm"])
                warm_label = "warm:" + case["warm"]
            except Exception:
                # the warm-up query itself is another property's business; a half-filled cache is still a legal history
                warm_label = "warm:%s:raised" % case["warm"]
    with state.apply_settings(cell), state.linalg_log() as lines:
        try:
            iq, ld = _call(op, entry, rhs, reduce_, want_ld)
        except Exception as e:
            raised = e
        if raised is None and want_ld and torch.is_tensor(ld):
            nodes = _find_nodes(ld)
            if nodes:
                try:
                    expected_slq = _slq_expected(r, A, op, nodes, info)
                except Violation:
                    raise
                except Exception as e:
                    seen["path"] = "slq"
                    fail("exc_precond:" + X.describe(e), "re-reading the preconditioner raised %r" % (e,))
        if raised is None and not nodes and rhs is not None:
            _cg_precond_info(op, A, info)
    if raised is not None:
        algos = state.algorithms(lines)
        seen["path"] = "slq" if (want_ld and "symeig" in algos and "cg" in algos) else ("cg" if "cg" in algos else ("chol" if "cholesky" in algos else "closed"))
        fr = X.innermost_lo_frame(raised)
        if fr is not None and fr[0].replace("\\", "/") in ("utils/lanczos.py", "functions/_diagonalization.py") and any(
            e.get("property") == "C09" or e.get("id") == "F-C04-lanczos-structured-solve" for e in _open_entries()
        ):
            # raised inside the Lanczos utilities (factor diagonalisation / root decomposition above max_cholesky_size) while
            # the C09 break-down findings / F-C04-lanczos-structured-solve are open: their subject, counted, not a C05 verdict
            return {"nontrivial": False, "key": "foreign_c09", "labels": ["foreign:c09_lanczos_exception", "head:" + head]}
        if X.is_declined(raised, "logdet"):
            return {"nontrivial": False, "key": "declined", "labels": ["declined", "declined:%s:%s" % (head, str(raised)[:60])]}
        fail("exc:" + X.describe(raised), "raised %r" % (raised,))
    algos = state.algorithms(lines)
    if nodes:
        path = "slq"
    elif "lanczos" in algos:
        path = "lanczos"  # factor diagonalisation through Lanczos (see ASSUMPTIONS): values not compared
    elif "cg" in algos:
        path = "cg"
    elif "cholesky" in algos:
        path = "chol"
    else:
        path = "closed"
    seen["path"] = path
    labels = [warm_label, "head:" + head, "entry:" + entry, "path:" + path, "dtype:" + dtname, "batch:%d" % len(batch), "n:%d" % n,
              "rhs:" + case.get("rhs_kind", "none"), "depth:%d" % R.depth(r)]
    labels += ["class:" + c for c in R.classes(r)]
    labels += ["set:%s=%s" % (k, v) for k, v in sorted(cell.items())]
    labels.append("cell:chol=%s,fastlp=%s" % (cell.get("max_cholesky_size", "dflt"), cell.get("fast.log_prob", True)))

    # ---------------- requested / unrequested terms, shapes, dtypes
    if entry in ("inv_quad_logdet", "fn.inv_quad_logdet"):
        if not want_iq:
            k = _placeholder_kind(iq)
            labels.append("placeholder_iq:" + k.split("[")[0])
            if k not in ("None", "empty"):
                fail("placeholder", "inv_quad term not asked for: documented 'or None' (annotation: empty tensor), returned %r" % (iq,))
        if not want_ld:
            k = _placeholder_kind(ld)
            labels.append("placeholder_ld:" + k.split("[")[0])
            if k not in ("None", "empty"):
                fail("placeholder", "logdet term not asked for: documented 'or None', returned %r" % (ld,))
    if want_ld:
        if not torch.is_tensor(ld):
            fail("type", "logdet is %r" % (type(ld).__name__,))
        if tuple(ld.shape) != batch:
            fail("shape", "logdet shape %s, documented (*batch) = %s" % (tuple(ld.shape), batch))
        if ld.dtype != dt:
            fail("dtype", "logdet dtype %s for a %s operator" % (ld.dtype, dt))
    if want_iq:
        R64 = L.value(rhs_lit, F64)
        vec = R64.dim() == 1
        Rm = R64.unsqueeze(-1) if vec else R64
        ob = tuple(torch.broadcast_shapes(batch, Rm.shape[:-2]))
        Xs = torch.linalg.solve(A.expand(*ob, n, n), Rm.expand(*ob, *Rm.shape[-2:]))
        q = (Rm * Xs).sum(-2)  # (*ob, M)
        scale = Rm.norm(dim=-2) * Xs.norm(dim=-2)  # per column: |r_j| |x_j| >= |q_j|
        if reduce_:
            q_exp, scale = q.sum(-1), scale.sum(-1)
            shapes_ok = [ob]
        else:
            q_exp = q
            shapes_ok = [ob + (Rm.shape[-1],)]
            if vec:
                shapes_ok.append(ob)  # the documentation does not say whether a 1-D rhs counts as M = 1
        if not torch.is_tensor(iq):
            fail("type", "inv_quad is %r" % (type(iq).__name__,))
        if tuple(iq.shape) not in shapes_ok:
            fail("shape", "inv_quad shape %s, documented %s" % (tuple(iq.shape), shapes_ok[0]))
        if iq.dtype != dt:
            fail("dtype", "inv_quad dtype %s for a %s operator" % (iq.dtype, dt))

    # ---------------- values
    vacuous = ["lanczos_diag"] if "lanczos" in algos and not nodes else []
    has_mul = any(x["op"] == "Mul" for x in R.walk(r))
    # operators whose very matrix is defined through a jittered root decomposition (Mul): A is only known up to the jitter
    jit = (16.0 * tol.JITTER_MAX[dtname] * (1.0 + lmax) / lmin) if has_mul else 0.0
    if want_iq:
        # direct solve: forward error |x^ - x| <= c n u kappa |x|  =>  |r^T(x^ - x)| <= c n u kappa |r||x|.
        # CG (attainable accuracy c k u kappa |x|, columns frozen at relative residual 1e-10 => |x^-x| <= 1e-10 kappa |x|).
        # CG: rounding c k u kappa |x| (attainable accuracy), plus the stall of linear_cg's "safe division": a step with
        # p^T A p < eps = 1e-10 (right-hand side normalised to 1) gets alpha = 0, i.e. the iteration stops improving there.
        # For (preconditioned) CG started at 0 the quadratic form is b^T x_k = b^T x - |e_k|_A^2 (Galerkin), and at the stalled
        # step r^T P^{-1} r <= |p|_P^2 <= lmax(P) p^T A p / lmin(A) < eps lmax(P) / lmin(A), hence
        # |e_k|_A^2 = r^T A^{-1} r <= r^T P^{-1} r / mu_min < eps lmax(P) / (lmin(A) mu_min)   (times |b|^2; P = I: eps / lmin^2).
        cg_ran = "cg" in algos
        kappa_s = _kappa_struct(r, kappa)
        stall = 0.0
        if cg_ran:
            kap = max(kappa_s, info.get("kappa_P", 1.0), info.get("kappa_M", 1.0))
            rel = C_CG * n * u * kap
            lmin_cg = min(lmin, info.get("lmin_leaf", lmin))
            stall = 4.0 * CG_EPS * info.get("p_max", 1.0) / (lmin_cg * min(1.0, info.get("mu_min", lmin_cg) if info.get("precond") else lmin_cg))
            if _cg_inner(lines, n) or any(nd["op"] in KRON_SOLVE_NODES for nd in R.walk(r)):
                # CG that ran on a FACTOR or a block (Kronecker-type solves are factor-wise; the logged right-hand side has
                # fewer rows than the operator): the Galerkin identity above does not apply to the whole quadratic form, the
                # stalled inner solve leaves a relative residual <= sqrt(stall) and b^T (x^ - x) = x^T (A x^ - b) is LINEAR in it
                rel += math.sqrt(stall) * kappa_s
                labels.append("iq:inner_cg")
        else:
            rel = C_SOLVE * n * u * kappa_s
        rel = rel * (8.0 if has_mul else 1.0) + jit
        if "lanczos" in algos:
            # (also on the SLQ path: probes drawn / preconditioner built through a Lanczos root do not matter, but an
            #  inv_quad computed through Lanczos-diagonalised factors does)
            if "iq" not in vacuous and not cg_ran:
                vacuous.append("iq")
        b2 = Rm.norm(dim=-2).pow(2)
        b2 = b2.sum(-1) if reduce_ else b2
        if rel > 0.05 or float((stall * b2 / scale.clamp_min(tol.TINY)).max()) > 0.05 or "iq" in vacuous or "lanczos_diag" in vacuous:
            if "iq" not in vacuous:
                vacuous.append("iq")
        else:
            bound = rel * scale + stall * b2 + tol.TINY
            got = iq.detach().to(F64).reshape(q_exp.shape)
            ratio, i = tol.worst_excess(got, q_exp, bound)
            info["iq_ratio"] = ratio
            if ratio > 1.0:
                fail("value", "inv_quad: |lib-ref|/bound = %.3g (lib=%r ref=%r, rel bound %.2e, kappa=%.3g, cg=%s)" % (ratio, got.reshape(-1)[i].item(), q_exp.reshape(-1)[i].item(), rel, kappa, cg_ran))
    if want_ld:
        got = ld.detach().to(F64)
        ld_ref = torch.linalg.slogdet(A)[1]
        if not nodes and "cg" in algos and ld.grad_fn is None:
            # no defining tensor requires grad (e.g. sums of identities): an iterative run leaves no autograd node to read
            # the probes from, so the path of the log-determinant cannot be observed - not compared
            labels.append("slq:unobservable_no_grad_leaf")
            vacuous.append("ld_unobservable")
        elif path == "slq":
            labels.append("slq:precond=%s" % info.get("precond"))
            labels.append("slq:m=%s" % info.get("m"))
            if expected_slq is None:
                labels.append("slq:foreign_node")
            elif cell.get("skip_logdet_forward"):
                want = info["skip_value"]
                bound = C_LOGDET * u * n * (n * info.get("kappa_P", 1.0) + float(want.abs().max())) + tol.TINY
                ratio, i = tol.worst_excess(got, want, torch.full_like(want, bound))
                if ratio > 1.0:
                    fail("value_skip", "skip_logdet_forward: returned %r, log|P| = %r" % (got.reshape(-1)[i].item(), want.reshape(-1)[i].item()))
            else:
                # Floating-point error of the identity.  The Jacobi matrix assembled from the CG coefficients is the exact one
                # of a matrix within c u kappa(M) (relative) of M as long as no off-diagonal beta_j is small; a step with a
                # small beta_j amplifies the rounding error of all later coefficients by ||M|| / beta_j (division by beta_j
                # when the next Lanczos vector is normalised) - `amp`, from a float64 reference Lanczos run on the recovered
                # probes.  Log eigenvalues move by the relative perturbation, the quadrature weights sum to 1 and the (n/m)
                # sum over m probes carries total weight n:   c u n kappa(M) (1 + max|log mu|) amp, times sqrt(kappa(P)) for the
                # closure P^{-1} applied in working precision; plus the rounding of log|P| (c u n^2 kappa(P)).
                # (Near-)breakdown (an off-diagonal < 1e-5 in the reference run, or a Jacobi matrix smaller than n in the log):
                # linear_cg stops tridiagonalising once every new off-diagonal is < 1e-6 and continues converged columns with
                # alpha = 0, so the matrix used differs from the exact Jacobi matrix by a coupling entry beta <=
                # max(1e-6, beta_j); |e1^T (log T - log T') e1| <= ||T - T'|| / lambda_min (operator-Lipschitz bound of log on
                # [lambda_min, inf)), i.e. n * beta / mu_min in total.  Empirically (12 000 cases) err * beta_rel / (u n) <= 200.
                kM, kP = info["kappa_M"], info["kappa_P"]
                bound = C_SLQ * u * n * kM * math.sqrt(kP) * (1.0 + info["logmax"]) * info.get("amp", 1.0) + C_LOGDET * u * n * n * kP
                # stalled CG step (see inv_quad above): the Jacobi matrix is cut where |r_k|_{P^-1}^2 < eps lmax(P)/lmin(A); the
                # remainder of the Gauss rule for log is int_0^inf |e_k(t)|^2_{M+t} dt <= |r_k|^2 (1 + log(1 + kappa(M)))
                # Beyond ~10 steps the stall is not a clean cut: the step with p^T A p < eps enters the Jacobi matrix with
                # 1/alpha := 1 and the recurrence goes on with alpha = 0, so rows of a perturbed recurrence stay coupled to
                # the exact leading block, and the residual of the last exact step is not the smallest one (CG residual norms
                # are not monotone).  Measured on the unchanged tree (28 000 cases, n = 12..20): for kappa(M) <= 64 the error
                # stays below 0.03 of the clean-cut remainder bound; above, it grows past kappa(M) times that bound (heavy
                # tail up to 6e-4 absolute), i.e. the identity is only as good as linear_cg's thresholds there: not compared.
                stall = 4.0
                large_illcond = n > 8 and kM > LARGE_KAPPA_MAX
                bound += n * stall * CG_EPS * info.get("p_max", 1.0) / info.get("lmin_leaf", lmin) * (1.0 + math.log1p(kM))
                ksize = _tridiag_size(lines)
                info["tsize"] = ksize if ksize is not None else -1
                near = info.get("cut", 0.0) > 0.0 or (ksize is not None and ksize < info.get("n_leaf", n))
                if near:
                    labels.append("slq:near_breakdown")
                    cutv = max(TRIDIAG_CUT, info.get("cut", 0.0))
                    if n > 8 and not info.get("cut", 0.0) > 0.0:
                        # (large sizes, no small off-diagonal in the reference run: the library's matrix is smaller than n only
                        #  through a coupling entry below its own 1e-6 threshold, and dropping a coupling entry beta changes
                        #  e1^T log(T) e1 only in SECOND order - the eigenvectors of the decoupled matrix live in one block)
                        bound += n * 16.0 * (cutv / info["mu_min"]) ** 2
                    else:
                        bound += n * cutv / info["mu_min"]
                info["slq_bound"] = bound
                if bound > 0.05 * (1.0 + float(ld_ref.abs().max())):
                    vacuous.append("slq")
                elif large_illcond:
                    vacuous.append("slq_large_illcond")
                else:
                    ratio, i = tol.worst_excess(got, expected_slq, torch.full_like(expected_slq, bound))
                    info["slq_ratio"] = ratio
                    info["slq_err"] = float((got - expected_slq).abs().max())
                    if ratio > 1.0:
                        fail(
                            "value",
                            "SLQ identity: returned %r, log|P| + (n/m) sum u^T log(M) u = %r for the probes on the node (|diff|/bound = %.3g, bound %.2e; dense logdet %r; m=%s precond=%s)"
                            % (got.reshape(-1)[i].item(), expected_slq.reshape(-1)[i].item(), ratio, bound, ld_ref.reshape(-1)[i].item(), info.get("m"), info.get("precond"))
                            + " [n=%d tsize=%s amp=%.3g cut=%.3g kM=%.3g kP=%.3g]" % (n, info.get("tsize"), info.get("amp", 1.0), info.get("cut", 0.0), kM, kP),
                        )
        else:
            # backward error of a factorization: A + E, |E| <= c n u |A|  =>  |d logdet| = |tr(A^{-1}E)| <= c n^2 u kappa;
            # plus the rounding of sum_i log(lambda_i): u * sum|log lambda_i| (times n for the accumulation)
            bound = C_LOGDET * u * n * (n * _kappa_struct(r, kappa) + sumlog) * (8.0 if has_mul else 1.0) + n * jit + tol.TINY
            if bound > 0.05 * (1.0 + float(ld_ref.abs().max())) or "lanczos_diag" in vacuous:
                vacuous.append("ld")
            else:
                ratio, i = tol.worst_excess(got, ld_ref, torch.full_like(ld_ref, bound))
                info["ld_ratio"] = ratio
                if ratio > 1.0:
                    fail("value", "logdet: returned %r, float64 slogdet of the reference %r (|diff|/bound = %.3g, bound %.2e, kappa %.3g)" % (got.reshape(-1)[i].item(), ld_ref.reshape(-1)[i].item(), ratio, bound, kappa))
    labels += ["vacuous:" + v for v in vacuous]
    override = head in OVERRIDE_HEADS or head == "KroneckerTri"
    nontrivial = (path == "slq" and expected_slq is not None and "slq" not in vacuous) or (override and (bool(batch) or (want_iq and not reduce_)) and not vacuous)
    if head == "KroneckerAddedDiag":
        dg = [a for a in r["args"] if gen.is_diag_instance(a)]
        dk = dg[0]["op"] + ("(%s)" % ",".join(sorted({x["op"] for x in dg[0]["args"]})) if dg and dg[0]["op"] == "KroneckerDiag" else "") if dg else "?"
        labels.append("kpad:%s:%s" % ("above_threshold" if cell.get("max_cholesky_size") == 0 else "below_threshold", dk))
    return {
        "nontrivial": bool(nontrivial),
        "key": {"cp": cp, "entry": entry, "path": path, "rhs": case.get("rhs_kind"), "reduce": reduce_, "logdet": want_ld, "cell": cell, "batch": list(batch), "dt": dtname, "n": n, "values": sha(case)},
        "labels": labels,
        "sample": {"recipe": cp, "shape": list(A.shape), "entry": entry, "path": path, "rhs": L.shape_of(rhs_lit) if rhs_lit else None, "reduce": reduce_, "logdet": want_ld, "settings": cell},
        "info": {k: v for k, v in info.items() if isinstance(v, (int, float, str, bool))},
    }


# ------------------------------------------------------------------------------------------------
# triggers of known findings: narrow predicates over the generated case (also used by the generator to avoid them)
# ------------------------------------------------------------------------------------------------
WRAPPERS = ("BlockDiag", "BlockInterleaved", "BatchRepeat")
# classes whose inv_quad_logdet is the base-class implementation (Cholesky branch / InvQuadLogdet function)
BASE_IQL = ("Dense", "Minimal", "Toeplitz", "Root", "Sum", "PsdSum", "Mul", "ConstantMul", "SumBatch", "Masked", "AddedDiag", "Cat")


def _effective(r):
    """(node whose inv_quad_logdet implementation finally executes, was it reached through a delegating wrapper)."""
    wrapped = False
    while r["op"] in WRAPPERS and not gen.is_diag_instance(r):
        r = r["base"]
        wrapped = True
    return r, wrapped


def _iterative(case):
    cell = case.get("settings", {})
    return cell.get("max_cholesky_size") == 0 and cell.get("fast.log_prob", True) is not False


def _is_iql(case):
    return case["entry"] in ("inv_quad_logdet", "fn.inv_quad_logdet")


def _wants_logdet(case):
    return case["entry"] in ("logdet", "torch.logdet") or (_is_iql(case) and bool(case.get("logdet")))


def _has_rhs(case):
    return case.get("rhs_kind") is not None


def _missing_term(case):
    """inv_quad_logdet is executed with one of the two terms not asked for (directly, or by logdet() internally)."""
    if case["entry"] in ("logdet", "torch.logdet"):
        return True
    return _is_iql(case) and (not _has_rhs(case) or not case.get("logdet"))


def _t_placeholder(case):
    eff, wrapped = _effective(case["recipe"])
    if not (_iterative(case) and eff["op"] in BASE_IQL and not gen.is_diag_instance(eff)):
        return False
    if wrapped:
        return _missing_term(case)  # the wrapper's logdet() calls base.inv_quad_logdet(None, True) itself
    return _is_iql(case) and _missing_term(case)


def _t_cat_none(case):
    r = case["recipe"]
    return r["op"] == "Cat" and not _iterative(case) and _missing_term(case)


def _t_vector_chol(case):
    if case.get("rhs_kind") != "vector":
        return False
    eff, _ = _effective(case["recipe"])
    if eff["op"] == "Chol":
        return True  # CholLinearOperator.inv_quad itself (inv_quad and inv_quad_logdet entry points)
    return _is_iql(case) and (not _iterative(case)) and eff["op"] in BASE_IQL + ("Kronecker", "KroneckerAddedDiag") and not gen.is_diag_instance(eff)


def _t_block_vector(case):
    r = case["recipe"]
    return case.get("rhs_kind") == "vector" and _is_iql(case) and r["op"] in ("BlockDiag", "BlockInterleaved") and not gen.is_diag_instance(r)


def _t_vector_override(name):
    def f(case):
        eff, _ = _effective(case["recipe"])
        return case.get("rhs_kind") == "vector" and _is_iql(case) and eff["op"] == name

    return f


def _t_tri_batched(case):
    eff, _ = _effective(case["recipe"])
    if eff["op"] != "Tri" or not _wants_logdet(case):
        return False
    shp = refmodel.shape(eff)
    return gen.prod(shp[:-2]) > 1


def _kpad_kron_const(r):
    if r["op"] != "KroneckerAddedDiag":
        return False
    for a in r["args"]:
        if a["op"] == "KroneckerDiag" and all(x["op"] == "ConstantDiag" for x in a["args"]):
            return True
    return False


def _t_kpad_above(case):
    eff, _ = _effective(case["recipe"])
    return _kpad_kron_const(eff) and case.get("settings", {}).get("max_cholesky_size") == 0 and _wants_logdet(case)


def _t_cg_budget(case):
    cell = case.get("settings", {})
    n = refmodel.shape(case["recipe"])[-1]
    return _iterative(case) and _wants_logdet(case) and cell.get("max_cg_iterations") == n and cell.get("max_lanczos_quadrature_iterations") == n and not cell.get("skip_logdet_forward")


def _recipe_tri_solve_over_repeat(r):
    """A TriangularLinearOperator over a BatchRepeatLinearOperator gets solved: an explicit BatchRepeat below the head, or a
    Kronecker product whose factors have different batch shapes (the constructor expands the smaller ones by repeat())."""
    if any(x["op"] == "BatchRepeat" for c in R.children(r) for x in R.walk(c)):
        return True
    for x in R.walk(r):
        if x["op"] in ("Kronecker", "KroneckerTri", "KroneckerDiag") and len({tuple(refmodel.shape(a)[:-2]) for a in x["args"]}) > 1:
            return True
    return False


def _t_batchrepeat_nested(case):
    return _recipe_tri_solve_over_repeat(case["recipe"])


def _t_block_kron(case):
    r = case["recipe"]
    if r["op"] not in ("BlockDiag", "BlockInterleaved") or gen.is_diag_instance(r):
        return False
    return case["entry"] in ("inv_quad", "fn.inv_quad") and _iterative(case) and r["base"]["op"] in ("Kronecker", "KroneckerTri", "KroneckerDiag")


TRIGGERS = {
    "block_over_kronecker_inv_quad_iterative": _t_block_kron,
    "batch_repeat_nested_below_head": _t_batchrepeat_nested,
    "cg_budget_equals_lanczos_budget_equals_n": _t_cg_budget,
    "zero_logdet": lambda case: case["recipe"]["op"] == "Zero",
    "unrequested_term_on_iterative_path": _t_placeholder,
    "cat_unrequested_term_cholesky_path": _t_cat_none,
    "vector_rhs_reaches_chol_inv_quad": _t_vector_chol,
    "block_operator_vector_rhs": _t_block_vector,
    "triangular_vector_rhs": _t_vector_override("Tri"),
    "low_rank_root_added_diag_vector_rhs": _t_vector_override("LowRankRootAddedDiag"),
    "sum_kronecker_vector_rhs": _t_vector_override("SumKronecker"),
    "triangular_batched_logdet": _t_tri_batched,
    "kpad_kronecker_constant_diag_above_cholesky_size": _t_kpad_above,
}


def coverage_extra():
    return {
        "tolerances": {
            "logdet_direct": "C_LOGDET u n (n kappa_s + sum|log lambda|), C_LOGDET=%g; kappa_s = structural condition number (kappa(A); ||A||/min(D) for Woodbury / Kronecker+diag identities; kappa(A) kappa(B2) for SumKronecker)" % C_LOGDET,
            "inv_quad_direct": "C_SOLVE n u kappa_s |r_j||x_j| per column, C_SOLVE=%g" % C_SOLVE,
            "inv_quad_cg": "C_CG n u max(kappa_s, kappa(P), kappa(M)) |r_j||x_j| + 4 eps lmax(P) / (lmin(A) min(1, mu_min)) |r_j|^2, C_CG=%g, eps=%g (linear_cg safe-division stall)" % (C_CG, CG_EPS),
            "slq_identity": "C_SLQ u n kappa(M) sqrt(kappa(P)) (1 + max|log mu|) amp + C_LOGDET u n^2 kappa(P) + 4 n eps lmax(P)/lmin(A) (1 + log(1 + kappa(M))) [+ n max(1e-6, beta)/mu_min when a reference off-diagonal < 1e-5 or the logged Jacobi matrix is smaller than n], C_SLQ=%g; amp = max ||M||/beta_j of a float64 reference Lanczos run on the recovered probes" % C_SLQ,
            "vacuous_rule": "a value comparison whose bound exceeds 5% of (1 + |reference|) (resp. of |r||x|) is not made and is labelled vacuous:*",
            "u": {"f64": 2.0**-53, "f32": 2.0**-24},
        }
    }


def gaps(labels):
    out = []
    heads = {k.split(":", 1)[1] for k in labels if k.startswith("head:")}
    for h in OVERRIDE_HEADS + GENERIC_HEADS:
        if h not in heads and not (h == "Tri" and "KroneckerTri" in heads):
            out.append("head never generated: " + h)
    for p in ("slq", "chol", "closed", "cg"):
        if ("path:" + p) not in labels:
            out.append("path never taken: " + p)
    return out
