"""SPD / PSD test matrices with a spectrum known to the oracle (DESIGN 2.3).

A *spec* is a small JSON dict; `build(spec)` deterministically returns the float64 matrix (batched) together with its
exact eigenvalues and the orthogonal factor:   A = Q diag(w) Q^T,  Q = product of Householder reflectors.

spec = {"n": n, "batch": [..], "family": name, "kappa": k, "lmax": s, "vs": nested list (*batch, r, n) of reflector
        vectors (r <= n reflectors per member), "rank": optional number of non-zero eigenvalues (PSD families),
        "w": optional explicit spectra (*batch, n) overriding family/kappa}
"""
import math

import torch
from hypothesis import strategies as st

FAMILIES = ["uniform", "two_clusters", "geometric", "one_outlier", "repeated"]
KAPPAS = [1.0, 10.0, 1e2, 1e4, 1e6]


def spectrum(family, n, kappa, lmax=1.0):
    """n eigenvalues in [lmax/kappa, lmax], descending."""
    lmin = lmax / kappa
    if n == 1:
        return [lmax]
    if family == "uniform":
        return [lmax - (lmax - lmin) * i / (n - 1) for i in range(n)]
    if family == "two_clusters":
        h = n // 2
        return [lmax * (1 - 1e-3 * i / max(1, n)) for i in range(h)] + [lmin * (1 + 1e-3 * i / max(1, n)) for i in range(n - h)][::-1]
    if family == "geometric":
        return [lmax * (lmin / lmax) ** (i / (n - 1)) for i in range(n)]
    if family == "one_outlier":
        return [lmax] + [lmin * (1 + (i / max(1, n - 2)) if n > 2 else 1.0) for i in range(n - 1)][::-1]
    if family == "repeated":
        h = max(1, n // 3)
        mid = math.sqrt(lmax * lmin)
        return [lmax] * h + [mid] * max(0, n - 2 * h) + [lmin] * min(h, n - h)
    raise KeyError(family)


def householder_q(vs, n):
    """Q (.., n, n) = H_1 ... H_r for reflector vectors vs (.., r, n); zero vectors are skipped."""
    vs = torch.as_tensor(vs, dtype=torch.float64)
    if vs.numel() == 0:
        vs = vs.reshape(*vs.shape[: max(0, vs.dim() - 2)], 0, n) if vs.dim() >= 2 else vs.reshape(0, n)
    batch = vs.shape[:-2]
    Q = torch.eye(n, dtype=torch.float64).expand(*batch, n, n).clone()
    for i in range(vs.shape[-2]):
        v = vs[..., i, :]
        nrm2 = (v * v).sum(-1, keepdim=True)
        ok = nrm2 > 0
        v = torch.where(ok, v, torch.zeros_like(v))
        nrm2 = torch.where(ok, nrm2, torch.ones_like(nrm2))
        # Q <- Q (I - 2 v v^T / v^T v)
        Qv = (Q * v.unsqueeze(-2)).sum(-1)
        Q = Q - 2.0 * Qv.unsqueeze(-1) * (v / nrm2).unsqueeze(-2)
    return Q


def build(spec):
    """-> (A, w, Q) float64 with A = Q diag(w) Q^T exactly symmetric."""
    n = spec["n"]
    batch = tuple(spec.get("batch", ()))
    if "w" in spec:
        w = torch.tensor(spec["w"], dtype=torch.float64)
    else:
        w = torch.tensor(spectrum(spec["family"], n, spec["kappa"], spec.get("lmax", 1.0)), dtype=torch.float64)
        rank = spec.get("rank")
        if rank is not None and rank < n:
            w = w.clone()
            w[rank:] = 0.0
    w = w.expand(*batch, n).clone()
    vs = torch.as_tensor(spec["vs"], dtype=torch.float64).reshape(*batch, -1, n) if n > 0 else torch.zeros(*batch, 0, 0)
    Q = householder_q(vs, n)
    A = (Q * w.unsqueeze(-2)) @ Q.transpose(-1, -2)
    A = 0.5 * (A + A.transpose(-1, -2))
    return A, w, Q


@st.composite
def specs(draw, max_n=12, min_n=1, batches=((), (), (2,), (1,), (2, 1), (3,)), kappas=KAPPAS, families=FAMILIES, psd=False, max_reflectors=4):
    n = draw(st.integers(min_n, max_n))
    batch = draw(st.sampled_from(list(batches)))
    family = draw(st.sampled_from(list(families)))
    kappa = draw(st.sampled_from(list(kappas)))
    lmax = draw(st.sampled_from([1.0, 1.0, 4.0, 0.25, 100.0]))
    r = draw(st.integers(0, min(max_reflectors, n)))
    cnt = 1
    for b in batch:
        cnt *= b
    flat = draw(st.lists(st.integers(-8, 8), min_size=cnt * r * n, max_size=cnt * r * n))

    def nest(fl, shape):
        if len(shape) == 1:
            return [x / 4.0 for x in fl[: shape[0]]]
        step = 1
        for s in shape[1:]:
            step *= s
        return [nest(fl[i * step : (i + 1) * step], shape[1:]) for i in range(shape[0])]

    vs = nest(flat, list(batch) + [r, n]) if r > 0 and n > 0 else torch.zeros(*batch, 0, n).tolist()
    if r == 0:
        vs = []
    spec = {"n": n, "batch": list(batch), "family": family, "kappa": kappa, "lmax": lmax, "vs": vs}
    if psd and n > 1 and draw(st.booleans()):
        spec["rank"] = draw(st.integers(1, n - 1))
    return spec
