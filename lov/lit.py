"""Literal tensors inside JSON cases.

{"lit": nested-list, "dt": "f64"|"f32"|"i64"|"b", "lay": layout-tag, "exp": [target shape] (optional)}

`lay` only affects how `materialise` lays the values out in memory (DESIGN 2.4); the logical value is the same.
`exp` expands size-1 dims (a stride-0 view when materialised; a plain broadcast in the reference).
"""
import torch

DT = {"f64": torch.float64, "f32": torch.float32, "i64": torch.int64, "b": torch.bool}
RDT = {v: k for k, v in DT.items()}
SENTINEL = 777.0


def lit(values, dt="f64", lay="c", exp=None, rg=False):
    d = {"lit": values, "dt": dt}
    if lay != "c":
        d["lay"] = lay
    if exp is not None:
        d["exp"] = list(exp)
    if rg:
        d["rg"] = True
    return d


def from_tensor(t, lay="c"):
    return lit(t.detach().tolist(), RDT[t.dtype], lay)


def is_lit(x):
    return isinstance(x, dict) and "lit" in x


def shape_of(l):
    if "exp" in l:
        return tuple(l["exp"])
    v = l["lit"]
    s = []
    while isinstance(v, list):
        s.append(len(v))
        if not v:
            break
        v = v[0]
    return tuple(s)


def value(l, dtype=None):
    """Logical value (contiguous, no grad), optionally cast (the reference model uses float64)."""
    t = torch.tensor(l["lit"], dtype=DT[l["dt"]])
    if "exp" in l:
        t = t.expand(*l["exp"]).clone()
    if dtype is not None and t.dtype.is_floating_point:
        t = t.to(dtype)
    return t


def materialise(l, registry=None):
    """Build the tensor handed to the library, in the requested memory layout."""
    base = torch.tensor(l["lit"], dtype=DT[l["dt"]])
    lay = l.get("lay", "c")
    isf = base.dtype.is_floating_point
    fill = SENTINEL if isf else (1 if base.dtype == torch.bool else 5)
    if lay == "c" or base.dim() == 0:
        t = base.clone()
    elif lay == "t" and base.dim() >= 2:
        t = base.mT.contiguous().mT
    elif lay == "s":
        big = torch.full([s + 2 for s in base.shape], fill, dtype=base.dtype)
        idx = tuple(slice(1, -1) for _ in base.shape)
        big[idx] = base
        t = big[idx]
    elif lay == "n":
        shp = list(base.shape)
        shp[-1] = shp[-1] * 2
        big = torch.full(shp, fill, dtype=base.dtype)
        big[..., ::2] = base
        t = big[..., ::2]
    else:
        t = base.clone()
    if "exp" in l:
        t = t.expand(*l["exp"])
    if l.get("rg") and isf:
        if lay == "nl":
            leaf = t.clone().requires_grad_(True)
            t = leaf * 1.0
            if registry is not None:
                registry.append((l, leaf))
        else:
            if t.is_leaf:
                t.requires_grad_(True)
            else:
                # views of a larger storage: make the *base* values a leaf and re-derive the view
                leaf = base.clone().requires_grad_(True)
                t = _relayout(leaf, lay, fill)
                if "exp" in l:
                    t = t.expand(*l["exp"])
                if registry is not None:
                    registry.append((l, leaf))
                return t
            if registry is not None:
                registry.append((l, t))
    return t


def _relayout(leaf, lay, fill):
    if lay == "t" and leaf.dim() >= 2:
        return leaf.mT.contiguous().mT
    if lay == "s":
        big = torch.full([s + 2 for s in leaf.shape], fill, dtype=leaf.dtype)
        idx = tuple(slice(1, -1) for _ in leaf.shape)
        big = big.clone()
        big[idx] = leaf
        return big[idx]
    if lay == "n":
        shp = list(leaf.shape)
        shp[-1] = shp[-1] * 2
        big = torch.full(shp, fill, dtype=leaf.dtype)
        big[..., ::2] = leaf
        return big[..., ::2]
    return leaf
