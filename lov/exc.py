"""Exception classification: where was it raised, and is it an explicit 'not supported' declaration (DESIGN C02)."""
import os
import re
import traceback

import linear_operator

LO_DIR = os.path.dirname(os.path.realpath(linear_operator.__file__)) + os.sep

GENERIC = re.compile(
    r"(not|n't) (currently |yet )?(support|implement)|does not (support|accept|allow)|unsupported|not applicable|"
    r"is not possible|\b(can )?only (works?|supports?|accepts?|defined|implemented|operates?)|cannot (permute|transpose)|"
    r"Invalid (repeat|expand) arguments|are not (invertible|positive definite)|At the moment|\bexpects?\b|\bcannot\b",
    re.I,
)

KEOPS_CHOLESKY = "Cannot run Cholesky with KeOps"

OP_FAMILY = {
    "matmul": (("matmul", "_matmul", "__matmul__", "rmatmul", "__rmatmul__", "_t_matmul"), r"matmul|multipl"),
    "getitem": (("__getitem__", "_getitem", "_get_indices", "_split_slice", "_expand_batch"), r"slic|index"),
    "diagonal": (("diagonal", "_diagonal"), r"diag"),
    "permute": (("permute", "_permute_batch"), r"permute|transpose"),
    "transpose": (("transpose", "_transpose_nonbatch", "_permute_batch", "t"), r"permute|transpose"),
    "repeat": (("repeat", "_expand_batch", "expand"), r"repeat|expand"),
    "expand": (("repeat", "_expand_batch", "expand"), r"repeat|expand"),
    "unsqueeze": (("unsqueeze", "_unsqueeze_batch"), r"squeeze"),
    "squeeze": (("squeeze",), r"squeeze"),
    "prod": (("prod", "_prod_batch"), r"prod"),
    "sum": (("sum", "_sum_batch"), r"sum"),
    "add_diagonal": (("add_diagonal", "add_jitter"), r"add_diag|jitter"),
    "add_jitter": (("add_diagonal", "add_jitter"), r"add_diag|jitter"),
    "cat": (("cat", "__init__", "_check_args"), r"cat|concat"),
    "mul": (("mul", "__mul__", "__rmul__", "_mul_constant", "_mul_matrix", "div", "__truediv__"), r"mul|divi"),
    "div": (("mul", "__mul__", "_mul_constant", "div", "__truediv__"), r"mul|divi"),
    "add": (("add", "__add__", "__radd__", "sub", "__sub__", "__rsub__"), r"add|sub|\+"),
    "sub": (("add", "__add__", "__radd__", "sub", "__sub__", "__rsub__"), r"add|sub|\+|-"),
    "add_low_rank": (("add_low_rank",), r"low.rank"),
    "cat_rows": (("cat_rows",), r"cat_rows|cat"),
    "torch": ((), r"torch\.\w+\("),
}


def innermost_lo_frame(exc):
    """(relative file, function, is_raise_statement) of the innermost frame inside linear_operator, or None."""
    tb = traceback.extract_tb(exc.__traceback__)
    last = None
    for fr in tb:
        fn = os.path.realpath(fr.filename)
        if fn.startswith(LO_DIR):
            last = fr
    if last is None:
        return None
    rel = os.path.realpath(last.filename)[len(LO_DIR) :]
    line = (last.line or "").strip()
    return rel, last.name, line.startswith("raise ") or line.startswith("raise(")


def raised_in_library(exc):
    """True iff the *innermost* traceback frame is a `raise` statement in a linear_operator source file."""
    tb = traceback.extract_tb(exc.__traceback__)
    if not tb:
        return False
    fr = tb[-1]
    if not os.path.realpath(fr.filename).startswith(LO_DIR):
        return False
    line = (fr.line or "").strip()
    return line.startswith("raise")


def is_declined(exc, op_kind):
    """The library explicitly declares THIS operation unsupported (origin, about-this-operation, form)."""
    if not raised_in_library(exc):
        return False
    msg = str(exc)
    if "This is a bug" in msg:
        return False
    if isinstance(exc, NotImplementedError):
        form = True
    elif isinstance(exc, (RuntimeError, ValueError, TypeError)):
        form = bool(GENERIC.search(msg))
    else:
        form = False
    if not form:
        return False
    if msg.startswith(KEOPS_CHOLESKY):
        # the library's documented refusal to Cholesky-factorize a KeOps-backed operator: whatever public operation
        # needed the factorization is thereby explicitly declined (any property; counted by the callers)
        return True
    fam = OP_FAMILY.get(op_kind)
    if fam is None:
        return True
    frames, kw = fam
    tb = traceback.extract_tb(exc.__traceback__)
    if tb[-1].name in frames:
        return True
    return bool(re.search(kw, msg, re.I))


def describe(exc):
    if isinstance(exc, RecursionError):
        return "RecursionError@(stack-depth dependent frame)"
    fr = innermost_lo_frame(exc)
    where = "%s:%s" % (fr[0], fr[1]) if fr else "outside-library"
    return "%s@%s" % (type(exc).__name__, where)
