"""Hypothesis strategies: values, shapes, recipes by domain, right-hand sides, settings cells (DESIGN section 2).

Recipes are generated top-down for a requested (domain, rows, cols, batch) so that every composition is valid
by construction (no rejection sampling).  Domains:
  any   arbitrary (possibly rectangular) matrix        psd   symmetric positive semi-definite
  pd    symmetric positive definite                    tril/triu   triangular values ('+' = positive diagonal)
"""
import math

from hypothesis import strategies as st

from lov.lit import lit

DIAGLIKE = ("Diag", "ConstantDiag", "Identity", "KroneckerDiag")
BATCHES = [(), (), (), (1,), (2,), (3,), (1, 1), (2, 1), (1, 3), (2, 3), (2, 1, 2)]


class Cfg:
    def __init__(self, dt="f64", max_dim=6, exclude=(), layouts=False, wide=True, max_elems=600, classes=None):
        self.dt = dt
        self.max_dim = max_dim
        self.exclude = set(exclude)
        self.layouts = layouts
        self.wide = wide
        self.max_elems = max_elems
        self.classes = set(classes) if classes else None  # restrict composite/leaf alphabet (None = all)
        self.nested = False  # True while generating children of some node

    def ok(self, name):
        if name in self.exclude:
            return False
        return True


def prod(xs):
    p = 1
    for x in xs:
        p *= x
    return p


# ------------------------------------------------------------------------------------------------
# values
# ------------------------------------------------------------------------------------------------
def is_diag_instance(r):
    """Would the built object be a DiagLinearOperator instance? (the block-diag metaclass folds diagonal bases)"""
    if r["op"] in DIAGLIKE:
        return True
    return r["op"] == "BlockDiag" and r.get("block_dim", -3) == -3 and is_diag_instance(r["base"])


def _nest(flat, shape):
    if not shape:
        return flat[0]
    if len(shape) == 1:
        return list(flat[: shape[0]])
    step = prod(shape[1:])
    return [_nest(flat[i * step : (i + 1) * step], shape[1:]) for i in range(shape[0])]


def grid(draw, shape, lo=-32, hi=32, den=8.0):
    """Nested list of multiples of 1/den in [lo/den, hi/den] (exactly representable)."""
    n = prod(shape)
    if n == 0:
        return _nest([], shape) if shape else 0.0
    ints = draw(st.lists(st.integers(lo, hi), min_size=n, max_size=n))
    return _nest([i / den for i in ints], shape)


def flit(draw, cfg, shape, lo=-32, hi=32, den=8.0, scale_ok=True):
    """Float literal of the given shape."""
    vals = grid(draw, shape, lo, hi, den)
    l = lit(vals, cfg.dt)
    if cfg.wide and scale_ok and draw(st.integers(0, 9)) == 0:
        sc = draw(st.sampled_from([2.0**-7, 2.0**7]))
        l["lit"] = _scale(l["lit"], sc)
    if cfg.layouts and len(shape) >= 1:
        l_lay = draw(st.sampled_from(["c", "c", "t", "s", "n"]))
        if l_lay != "c":
            l["lay"] = l_lay
    return l


def _scale(v, s):
    if isinstance(v, list):
        return [_scale(x, s) for x in v]
    return v * s


def _map2(v, f):
    if isinstance(v, list):
        return [_map2(x, f) for x in v]
    return f(v)


def sub_batch(draw, batch):
    """A batch shape that broadcasts *to* `batch` (same, size-1 dims, or leading dims dropped)."""
    if not batch or draw(st.integers(0, 3)) != 0:
        return tuple(batch)
    b = list(batch)
    for i in range(len(b)):
        if draw(st.booleans()):
            b[i] = 1
    k = draw(st.integers(0, len(b)))
    while k > 0 and all(x == 1 for x in b[:k]) is False:
        k -= 1
    return tuple(b[k:])


def split_batches(draw, batch, k):
    """k batch shapes whose broadcast is exactly `batch`: either one holder of the full shape at a RANDOM position and
    sub_batch shapes for the others, or a complementary split in which every dimension of size > 1 is owned by some
    component and the others may carry a 1 there (leading 1-dims of all but one component may be dropped)."""
    batch = tuple(batch)
    if not batch:
        return [()] * k
    if draw(st.integers(0, 2)) != 0:
        h = draw(st.integers(0, k - 1))
        return [batch if j == h else sub_batch(draw, batch) for j in range(k)]
    shapes = [[1] * len(batch) for _ in range(k)]
    for i, b in enumerate(batch):
        owner = draw(st.integers(0, k - 1))
        for j in range(k):
            if j == owner or draw(st.booleans()):
                shapes[j][i] = b
    full = draw(st.integers(0, k - 1))  # this one keeps its full rank
    out = []
    for j, sh in enumerate(shapes):
        if j != full:
            d = 0
            while d < len(sh) and sh[d] == 1 and draw(st.booleans()):
                d += 1
            sh = sh[d:]
        out.append(tuple(sh))
    return out


def divisors(n):
    return [d for d in range(1, n + 1) if n % d == 0]


# ------------------------------------------------------------------------------------------------
# leaf value constructions for domains
# ------------------------------------------------------------------------------------------------
def tri_values(draw, cfg, batch, n, upper, posdiag):
    vals = grid(draw, tuple(batch) + (n, n), -16, 16)

    def fix(mat):
        for i in range(n):
            for j in range(n):
                if (j > i and not upper) or (j < i and upper):
                    mat[i][j] = 0.0
            if posdiag:
                mat[i][i] = abs(mat[i][i]) + 0.5
        return mat

    return _apply_mats(vals, len(batch), fix)


def _apply_mats(v, nb, f):
    if nb == 0:
        return f(v)
    return [_apply_mats(x, nb - 1, f) for x in v]


def _matmul_t(F):
    n = len(F)
    k = len(F[0]) if n else 0
    return [[sum(F[i][t] * F[j][t] for t in range(k)) for j in range(n)] for i in range(n)]


def psd_values(draw, cfg, batch, n, pd):
    """F F^T (+ I when pd) with grid F: exact in floating point (small integers / 64)."""
    k = n if pd else draw(st.integers(1, n))
    F = grid(draw, tuple(batch) + (n, k), -16, 16)

    def mk(f):
        a = _matmul_t(f)
        if pd:
            for i in range(n):
                a[i][i] += 1.0
        return a

    return _apply_mats(F, len(batch), mk)


def toeplitz_col(draw, cfg, batch, n, dom):
    c = grid(draw, tuple(batch) + (n,), -16, 16)
    if dom in ("psd", "pd"):

        def fix(col):
            s = sum(abs(x) for x in col[1:])
            col[0] = 2.0 * s + (0.5 if dom == "pd" else 0.0) + abs(col[0])
            return col

        c = _apply_mats(c, len(batch), fix)
    return c


# ------------------------------------------------------------------------------------------------
# recipe generation
# ------------------------------------------------------------------------------------------------
def gen(draw, cfg, dom, m, n, batch, depth):
    batch = tuple(batch)
    makers = _applicable(cfg, dom, m, n, batch, depth)
    if cfg.nested:
        makers = [mk for mk in makers if (mk + ".nested") not in cfg.exclude] or ["Dense"]
        if cfg.dt != "f32":
            # permutation operators carry no floating data and declare float32: they compose only with
            # float32 operators (a restriction of the generator to what the constructors accept)
            makers = [mk for mk in makers if mk not in ("Permutation", "TransposePermutation")] or ["Dense"]
    name = draw(st.sampled_from(sorted(makers)))
    return call_maker(name, draw, cfg, dom, m, n, batch, depth)


def call_maker(name, draw, cfg, dom, m, n, batch, depth):
    was = cfg.nested
    cfg.nested = True
    try:
        return MAKERS[name](draw, cfg, dom, m, n, batch, depth)
    finally:
        cfg.nested = was


def _applicable(cfg, dom, m, n, batch, depth):
    out = []
    sq = m == n
    comp = depth > 1
    nb = prod(batch)
    for name, pred in PREDS.items():
        if not cfg.ok(name):
            continue
        if cfg.classes is not None and name.split(":")[0] not in cfg.classes and name not in ("Dense",):
            continue
        try:
            if pred(cfg, dom, m, n, batch, comp, sq, nb):
                out.append(name)
        except Exception:
            raise
    if not out:
        out = ["Dense"]
    return out


PREDS = {}
MAKERS = {}


def maker(name, pred):
    def deco(fn):
        PREDS[name] = pred
        MAKERS[name] = fn
        return fn

    return deco


TRI = ("tril", "triu", "tril+", "triu+")
SYM = ("psd", "pd")


# ---- leaves ----------------------------------------------------------------------------------
def _dense_lit(draw, cfg, dom, m, n, batch):
    if dom in TRI:
        return lit(tri_values(draw, cfg, batch, n, dom.startswith("triu"), dom.endswith("+")), cfg.dt)
    if dom in SYM:
        return lit(psd_values(draw, cfg, batch, n, dom == "pd"), cfg.dt)
    return flit(draw, cfg, tuple(batch) + (m, n))


@maker("Dense", lambda c, d, m, n, b, comp, sq, nb: True)
def mk_dense(draw, cfg, dom, m, n, batch, depth):
    return {"op": "Dense", "t": _dense_lit(draw, cfg, dom, m, n, batch)}


@maker("Minimal", lambda c, d, m, n, b, comp, sq, nb: d in ("any", "psd", "pd"))
def mk_minimal(draw, cfg, dom, m, n, batch, depth):
    return {"op": "Minimal", "t": _dense_lit(draw, cfg, dom, m, n, batch)}


def _diag_range(dom):
    if dom in ("pd", "tril+", "triu+"):
        return 1, 32
    if dom == "psd":
        return 0, 32
    return -32, 32


@maker("Diag", lambda c, d, m, n, b, comp, sq, nb: sq)
def mk_diag(draw, cfg, dom, m, n, batch, depth):
    lo, hi = _diag_range(dom)
    return {"op": "Diag", "d": flit(draw, cfg, tuple(batch) + (n,), lo, hi, scale_ok=False)}


@maker("ConstantDiag", lambda c, d, m, n, b, comp, sq, nb: sq)
def mk_cdiag(draw, cfg, dom, m, n, batch, depth):
    lo, hi = _diag_range(dom)
    return {"op": "ConstantDiag", "c": flit(draw, cfg, tuple(batch) + (1,), lo, hi, scale_ok=False), "n": n}


@maker("Identity", lambda c, d, m, n, b, comp, sq, nb: sq)
def mk_identity(draw, cfg, dom, m, n, batch, depth):
    r = {"op": "Identity", "n": n, "batch": list(batch), "dt": cfg.dt}
    if cfg.dt == "f32" and draw(st.booleans()):
        r["nodt"] = True  # built without the dtype argument (its default is float32)
    return r


# (the zero matrix is PSD, but the class explicitly declares "ZeroLinearOperators are not positive definite"
#  for every root-based operation, so it is not offered as a PSD operand)
@maker("Zero", lambda c, d, m, n, b, comp, sq, nb: d in ("any", "tril", "triu"))
def mk_zero(draw, cfg, dom, m, n, batch, depth):
    return {"op": "Zero", "sizes": list(batch) + [m, n], "dt": cfg.dt}


@maker("Toeplitz", lambda c, d, m, n, b, comp, sq, nb: sq and d in ("any", "psd", "pd"))
def mk_toeplitz(draw, cfg, dom, m, n, batch, depth):
    return {"op": "Toeplitz", "c": lit(toeplitz_col(draw, cfg, batch, n, dom), cfg.dt)}


@maker("TriT", lambda c, d, m, n, b, comp, sq, nb: sq and d in ("any",) + TRI)
def mk_trit(draw, cfg, dom, m, n, batch, depth):
    upper = dom.startswith("triu") if dom in TRI else draw(st.booleans())
    pos = dom.endswith("+")
    return {"op": "Tri", "t": lit(tri_values(draw, cfg, batch, n, upper, pos), cfg.dt), "upper": upper}


@maker("Permutation", lambda c, d, m, n, b, comp, sq, nb: sq and d == "any")
def mk_perm(draw, cfg, dom, m, n, batch, depth):
    def one(_):
        return draw(st.permutations(list(range(n))))

    vals = _nest_fn(batch, one)
    return {"op": "Permutation", "perm": lit(vals, "i64")}


def _nest_fn(shape, f):
    if not shape:
        return f(None)
    return [_nest_fn(shape[1:], f) for _ in range(shape[0])]


@maker("TransposePermutation", lambda c, d, m, n, b, comp, sq, nb: sq and d == "any" and b == () and n in (1, 4, 9))
def mk_tperm(draw, cfg, dom, m, n, batch, depth):
    return {"op": "TransposePermutation", "m": int(round(math.sqrt(n)))}


def _kernel(draw, cfg, dom, m, n, batch, opname):
    D = draw(st.integers(1, 2))
    names = ["rbf", "linear"]
    if m % 2 == 0 and n % 2 == 0 and cfg.ok("Kernel.multitask"):
        names.append("multitask")
    kname = draw(st.sampled_from(names))
    mm, nn = (m // 2, n // 2) if kname == "multitask" else (m, n)
    b1 = sub_batch(draw, batch)
    x1 = flit(draw, cfg, tuple(b1) + (mm, D), -16, 16, scale_ok=False)
    if dom == "psd":
        x2 = dict(x1)
    else:
        b2 = sub_batch(draw, batch)
        x2 = flit(draw, cfg, tuple(b2) + (nn, D), -16, 16, scale_ok=False)
    # at least one argument must carry the full batch so that the operator has the requested batch shape
    pb = tuple(batch)
    r = {"op": opname, "kernel": kname, "x1": x1, "x2": x2, "params": {}}
    if kname in ("rbf", "multitask"):
        r["params"]["lengthscale"] = flit(draw, cfg, pb + (1, D), 4, 32, scale_ok=False)
    if kname == "rbf":
        r["params"]["outputscale"] = flit(draw, cfg, pb, 1, 16, scale_ok=False)
        if opname == "Kernel":
            r["nonbatch"] = {"outputscale": 0}
    if kname == "linear":
        r["params"]["variance"] = flit(draw, cfg, pb + (1, 1), 1, 16, scale_ok=False)
    if kname == "multitask":
        r["params"]["task_root"] = flit(draw, cfg, pb + (2, 2), -8, 8, scale_ok=False)
        r["nout"] = [2, 2]
        # (an operator-valued hyperparameter, r["op_param"] = "task_root", is only set by C14's `opkernel` mode: how such a
        #  keyword argument batches / indexes is not specified by KernelLinearOperator, only that copies and rebuilds keep it)
    return r


@maker("Kernel", lambda c, d, m, n, b, comp, sq, nb: d == "any" or (d == "psd" and sq))
def mk_kernel(draw, cfg, dom, m, n, batch, depth):
    return _kernel(draw, cfg, dom, m, n, batch, "Kernel")


@maker("KeOps", lambda c, d, m, n, b, comp, sq, nb: d == "any" or (d == "psd" and sq))
def mk_keops(draw, cfg, dom, m, n, batch, depth):
    # the deprecated wrapper is used as gpytorch used it: same-batch data, a parameter-free covar_func
    # accepting diag=...
    D = draw(st.integers(1, 2))
    x1 = flit(draw, cfg, tuple(batch) + (m, D), -16, 16, scale_ok=False)
    x2 = dict(x1) if dom == "psd" else flit(draw, cfg, tuple(batch) + (n, D), -16, 16, scale_ok=False)
    return {"op": "KeOps", "kernel": "rbf_fixed", "x1": x1, "x2": x2, "params": {}}


# ---- helpers for structured children -----------------------------------------------------------
def gen_diaglike(draw, cfg, n, batch, lo_dom, allow_kron=True):
    """A DiagLinearOperator instance recipe (Diag / ConstantDiag / Identity / KroneckerDiag)."""
    opts = ["Diag", "ConstantDiag"]
    if lo_dom != "any_nonid":
        opts.append("Identity")
    if allow_kron and len(divisors(n)) > 2 and cfg.ok("KroneckerDiag"):
        opts.append("KroneckerDiag")
    dom = {"pd": "pd", "psd": "psd"}.get(lo_dom, "any")
    name = draw(st.sampled_from(opts))
    if name == "KroneckerDiag":
        return mk_krondiag(draw, cfg, dom, n, n, batch, 2)
    return MAKERS[name](draw, cfg, dom, n, n, batch, 1)


def gen_tri_instance(draw, cfg, n, batch, upper, posdiag, depth, for_kron=False):
    """A _TriangularLinearOperatorBase instance with the given orientation."""
    dom = ("triu" if upper else "tril") + ("+" if posdiag else "")
    opts = ["TriT", "TriT", "Diag"]
    if depth > 1 and cfg.ok("TriBase"):
        opts.append("TriBase")
    if depth > 1 and not for_kron and len(divisors(n)) > 2 and cfg.ok("KroneckerTri"):
        opts.append("KroneckerTri")
    name = draw(st.sampled_from(opts))
    if name == "Diag":
        return mk_diag(draw, cfg, dom, n, n, batch, 1)
    if name == "TriT":
        return mk_trit(draw, cfg, dom, n, n, batch, 1)
    if name == "TriBase":
        return mk_tribase(draw, cfg, dom, n, n, batch, depth)
    return mk_krontri(draw, cfg, dom, n, n, batch, depth)


def factorizations(m, n, k):
    """All ways to write m = prod(ms), n = prod(ns) with k factors; excludes all-trivial factor lists."""

    def splits(x, k):
        if k == 1:
            return [[x]]
        out = []
        for d in divisors(x):
            for rest in splits(x // d, k - 1):
                out.append([d] + rest)
        return out

    res = []
    for ms in splits(m, k):
        for ns in splits(n, k):
            if sum(1 for a, b in zip(ms, ns) if (a, b) != (1, 1)) >= 2:
                res.append((ms, ns))
    return res


# ---- composites ------------------------------------------------------------------------------
def _can_kron(m, n):
    return len(factorizations(m, n, 2)) > 0


def _sq_factorizations(n, k):
    return [ms for ms, ns in factorizations(n, n, k) if ms == ns]


@maker("Kronecker", lambda c, d, m, n, b, comp, sq, nb: comp and (_can_kron(m, n) if d == "any" else len(_sq_factorizations(n, 2)) > 0))
def mk_kron(draw, cfg, dom, m, n, batch, depth):
    if dom == "any":
        k = 3 if (draw(st.integers(0, 4)) == 0 and factorizations(m, n, 3)) else 2
        ms, ns = draw(st.sampled_from(factorizations(m, n, k)))
    else:
        k = 3 if (draw(st.integers(0, 4)) == 0 and _sq_factorizations(n, 3)) else 2
        ms = draw(st.sampled_from(_sq_factorizations(n, k)))
        ns = ms
    args = []
    sbs = split_batches(draw, batch, len(ms))
    for i, (a, b_) in enumerate(zip(ms, ns)):
        args.append(gen(draw, cfg, dom, a, b_, sbs[i], depth - 1))
    return {"op": "Kronecker", "args": args}


@maker("KroneckerTri", lambda c, d, m, n, b, comp, sq, nb: comp and sq and d in ("any",) + TRI and len(_sq_factorizations(n, 2)) > 0)
def mk_krontri(draw, cfg, dom, m, n, batch, depth):
    upper = dom.startswith("triu") if dom in TRI else draw(st.booleans())
    pos = dom.endswith("+")
    ms = draw(st.sampled_from(_sq_factorizations(n, 2)))
    args = []
    for a in ms:
        tdom = ("triu" if upper else "tril") + ("+" if pos else "")
        which = draw(st.sampled_from(["TriT", "TriT", "Diag"]))
        if which == "Diag":
            args.append(mk_diag(draw, cfg, tdom, a, a, batch, 1))
        else:
            args.append(mk_trit(draw, cfg, tdom, a, a, batch, 1))
    return {"op": "KroneckerTri", "args": args, "upper": upper}


@maker("KroneckerDiag", lambda c, d, m, n, b, comp, sq, nb: comp and sq and d in ("any", "psd", "pd", "tril", "triu", "tril+", "triu+") and len(_sq_factorizations(n, 2)) > 0)
def mk_krondiag(draw, cfg, dom, m, n, batch, depth):
    ms = draw(st.sampled_from(_sq_factorizations(n, 2)))
    args = []
    for a in ms:
        which = draw(st.sampled_from(["Diag", "ConstantDiag"]))
        args.append(MAKERS[which](draw, cfg, dom, a, a, batch, 1))
    return {"op": "KroneckerDiag", "args": args}


def _kron_sym(draw, cfg, dom, n, batch, depth, ms=None):
    if ms is None:
        ms = draw(st.sampled_from(_sq_factorizations(n, 2)))
    return {"op": "Kronecker", "args": [gen(draw, cfg, dom, a, a, batch, max(1, depth - 1)) for a in ms]}, ms


@maker("KroneckerAddedDiag", lambda c, d, m, n, b, comp, sq, nb: comp and sq and d in ("any", "psd", "pd") and len(_sq_factorizations(n, 2)) > 0)
def mk_kpad(draw, cfg, dom, m, n, batch, depth):
    kdom = {"any": "any", "psd": "psd", "pd": "psd"}[dom]
    if kdom == "any" and draw(st.booleans()):
        kdom = "psd"
    kron, ms = _kron_sym(draw, cfg, kdom, n, batch, depth - 1)
    kind = draw(st.sampled_from(["Diag", "ConstantDiag", "KroneckerDiag", "KroneckerConstDiag"]))
    ddom = {"any": "any", "psd": "psd", "pd": "pd"}[dom]
    if kind == "KroneckerDiag":
        diag = {"op": "KroneckerDiag", "args": [mk_diag(draw, cfg, ddom, a, a, batch, 1) for a in ms]}
    elif kind == "KroneckerConstDiag":
        diag = {"op": "KroneckerDiag", "args": [mk_cdiag(draw, cfg, ddom, a, a, batch, 1) for a in ms]}
    else:
        diag = MAKERS[kind](draw, cfg, ddom, n, n, batch, 1)
    args = [kron, diag] if draw(st.integers(0, 3)) else [diag, kron]
    return {"op": "KroneckerAddedDiag", "args": args}


@maker("SumKronecker", lambda c, d, m, n, b, comp, sq, nb: comp and sq and d in ("psd", "pd") and len(_sq_factorizations(n, 2)) > 0)
def mk_sumkron(draw, cfg, dom, m, n, batch, depth):
    ms = draw(st.sampled_from(_sq_factorizations(n, 2)))
    # the class's solve / logdet need the second summand invertible factor by factor
    k1, _ = _kron_sym(draw, cfg, dom, n, batch, depth - 1, ms)
    k2, _ = _kron_sym(draw, cfg, "pd", n, batch, depth - 1, ms)
    return {"op": "SumKronecker", "args": [k1, k2]}


@maker("AddedDiag", lambda c, d, m, n, b, comp, sq, nb: comp and sq and d in ("any", "psd", "pd"))
def mk_addeddiag(draw, cfg, dom, m, n, batch, depth):
    bdom = {"any": "any", "psd": "psd", "pd": "psd"}[dom]
    base = gen(draw, cfg, bdom, n, n, batch, depth - 1)
    if is_diag_instance(base):
        # the constructor requires exactly one diagonal summand
        base = mk_dense(draw, cfg, bdom, n, n, batch, 1)
    diag = gen_diaglike(draw, cfg, n, batch, {"any": "any", "psd": "psd", "pd": "pd"}[dom], allow_kron=False)
    args = [base, diag] if draw(st.integers(0, 3)) else [diag, base]
    return {"op": "AddedDiag", "args": args}


@maker("LowRankRootAddedDiag", lambda c, d, m, n, b, comp, sq, nb: comp and sq and d in ("psd", "pd"))
def mk_lrrad(draw, cfg, dom, m, n, batch, depth):
    lrr = mk_lrroot(draw, cfg, "psd", n, n, batch, depth - 1)
    which = draw(st.sampled_from(["Diag", "ConstantDiag"]))
    diag = MAKERS[which](draw, cfg, dom, n, n, batch, 1)
    return {"op": "LowRankRootAddedDiag", "args": [lrr, diag]}


@maker("Sum", lambda c, d, m, n, b, comp, sq, nb: comp and d in ("any", "psd", "pd"))
def mk_sum(draw, cfg, dom, m, n, batch, depth):
    k = draw(st.integers(2, 3))
    args = []
    sbs = split_batches(draw, batch, k)
    for i in range(k):
        sdom = dom if (i == 0 or dom != "pd") else "psd"
        args.append(gen(draw, cfg, sdom, m, n, sbs[i], depth - 1))
    return {"op": "Sum", "args": args}


@maker("PsdSum", lambda c, d, m, n, b, comp, sq, nb: comp and d in ("psd", "pd"))
def mk_psdsum(draw, cfg, dom, m, n, batch, depth):
    r = mk_sum(draw, cfg, dom, m, n, batch, depth)
    r["op"] = "PsdSum"
    return r


@maker("Matmul", lambda c, d, m, n, b, comp, sq, nb: comp and d == "any")
def mk_matmul(draw, cfg, dom, m, n, batch, depth):
    k = draw(st.integers(1, 4))
    sbs = split_batches(draw, batch, 2)
    a = gen(draw, cfg, "any", m, k, sbs[0], depth - 1)
    b_ = gen(draw, cfg, "any", k, n, sbs[1], depth - 1)
    return {"op": "Matmul", "args": [a, b_]}


@maker("Mul", lambda c, d, m, n, b, comp, sq, nb: comp and d in ("psd", "pd"))
def mk_mul(draw, cfg, dom, m, n, batch, depth):
    a = gen(draw, cfg, dom, n, n, batch, depth - 1)
    b_ = gen(draw, cfg, dom, n, n, batch, depth - 1)
    return {"op": "Mul", "args": [a, b_]}


@maker("ConstantMul", lambda c, d, m, n, b, comp, sq, nb: comp)
def mk_constmul(draw, cfg, dom, m, n, batch, depth):
    base = gen(draw, cfg, dom, m, n, batch, depth - 1)
    shapes = [()]
    if batch:
        shapes += [tuple(batch), tuple(batch)]
    shp = draw(st.sampled_from(shapes))
    lo, hi = (1, 24) if dom != "any" else (-24, 24)
    return {"op": "ConstantMul", "base": base, "c": flit(draw, cfg, shp, lo, hi, scale_ok=False)}


def _insert(batch, pos, k):
    b = list(batch)
    b.insert(pos, k)
    return tuple(b)


def _block_args(draw, batch):
    """Position of the block dimension inside the base's batch, and the block_dim argument to pass."""
    nb = len(batch)
    pos = nb if draw(st.integers(0, 2)) else draw(st.integers(0, nb))
    if pos == nb and draw(st.booleans()):
        return pos, None
    base_ndim = nb + 1 + 2
    bd = pos - base_ndim if draw(st.booleans()) else pos
    return pos, bd


def _mk_block(opname):
    def f(draw, cfg, dom, m, n, batch, depth):
        ks = [k for k in divisors(n) if k > 1 or True]
        k = draw(st.sampled_from(ks))
        p = n // k
        pos, bd = _block_args(draw, batch)
        base = gen(draw, cfg, dom, p, p, _insert(batch, pos, k), depth - 1)
        r = {"op": opname, "base": base}
        if opname == "BlockDiag" and is_diag_instance(base) and bd not in (None, -3):
            # declared unsupported by the constructor (NotImplementedError): diagonal base needs block_dim=-3
            base = mk_dense(draw, cfg, dom, p, p, _insert(batch, pos, k), 1)
            r["base"] = base
        if bd is not None:
            r["block_dim"] = bd
        return r

    return f


maker("BlockDiag", lambda c, d, m, n, b, comp, sq, nb: comp and sq and nb * n * n <= 200)(_mk_block("BlockDiag"))
maker("BlockInterleaved", lambda c, d, m, n, b, comp, sq, nb: comp and sq and nb * n * n <= 200)(_mk_block("BlockInterleaved"))


@maker("SumBatch", lambda c, d, m, n, b, comp, sq, nb: comp and d in ("any", "psd", "pd") and nb * m * n <= 120)
def mk_sumbatch(draw, cfg, dom, m, n, batch, depth):
    k = draw(st.integers(1, 3))
    pos, bd = _block_args(draw, batch)
    base = gen(draw, cfg, dom, m, n, _insert(batch, pos, k), depth - 1)
    r = {"op": "SumBatch", "base": base}
    if bd is not None:
        r["block_dim"] = bd
    return r


@maker("BatchRepeat", lambda c, d, m, n, b, comp, sq, nb: comp and len(b) > 0)
def mk_batchrepeat(draw, cfg, dom, m, n, batch, depth):
    base_b = []
    rep = []
    for x in batch:
        proper = [d_ for d_ in divisors(x) if 1 < d_ < x]
        # (a proper divisor = base batch size > 1 AND repeat factor > 1 in the same dimension)
        dv = draw(st.sampled_from(proper)) if proper and draw(st.booleans()) else draw(st.sampled_from(divisors(x)))
        base_b.append(dv)
        rep.append(x // dv)
    # optionally drop leading size-1 dims of the base (the constructor unsqueezes)
    k = 0
    while k < len(base_b) and base_b[k] == 1 and draw(st.booleans()):
        k += 1
    base = gen(draw, cfg, dom, m, n, tuple(base_b[k:]), depth - 1)
    if base["op"] == "BatchRepeat":
        base = mk_dense(draw, cfg, dom, m, n, tuple(base_b[k:]), 1)
    return {"op": "BatchRepeat", "base": base, "repeat": rep}


@maker("Cat", lambda c, d, m, n, b, comp, sq, nb: comp and d == "any" and (m > 1 or n > 1 or any(x > 1 for x in b)))
def mk_cat(draw, cfg, dom, m, n, batch, depth):
    full = list(batch) + [m, n]
    nd = len(full)
    dims = [i for i in range(nd) if full[i] > 1]
    dim = draw(st.sampled_from(dims))
    size = full[dim]
    npieces = draw(st.integers(2, min(3, size)))
    cuts = sorted(draw(st.lists(st.integers(1, size - 1), min_size=npieces - 1, max_size=npieces - 1, unique=True)))
    bounds = [0] + cuts + [size]
    args = []
    for i in range(npieces):
        shp = list(full)
        shp[dim] = bounds[i + 1] - bounds[i]
        args.append(gen(draw, cfg, "any", shp[-2], shp[-1], tuple(shp[:-2]), depth - 1))
    if all(a["op"] == "Dense" for a in args) and False:
        pass
    dim_arg = dim - nd if draw(st.booleans()) else dim
    return {"op": "Cat", "args": args, "dim": dim_arg}


def _interp_side(draw, cfg, batch, rows, ncols, k):
    idx = _nest_fn(tuple(batch) + (rows,), lambda _: draw(st.lists(st.integers(0, ncols - 1), min_size=k, max_size=k)))
    vals = grid(draw, tuple(batch) + (rows, k), -16, 16)
    return lit(idx, "i64"), lit(vals, cfg.dt)


@maker("Interpolated", lambda c, d, m, n, b, comp, sq, nb: comp and d in ("any", "psd"))
def mk_interp(draw, cfg, dom, m, n, batch, depth):
    p = draw(st.integers(1, 4))
    q = p if dom == "psd" else draw(st.integers(1, 4))
    base = gen(draw, cfg, dom, p, q, sub_batch(draw, batch), depth - 1)
    k = draw(st.integers(1, 3))
    li, lv = _interp_side(draw, cfg, batch, m, p, k)
    if dom == "psd":
        ri, rv = dict(li), dict(lv)
    else:
        k2 = draw(st.integers(1, 3))
        ri, rv = _interp_side(draw, cfg, batch, n, q, k2)
    return {"op": "Interpolated", "base": base, "li": li, "lv": lv, "ri": ri, "rv": rv}


@maker("Masked", lambda c, d, m, n, b, comp, sq, nb: comp and d in ("any", "psd", "pd"))
def mk_masked(draw, cfg, dom, m, n, batch, depth):
    def mask(k):
        total = k + draw(st.integers(0, 2))
        pos = draw(st.permutations(list(range(total))))[:k]
        return [i in pos for i in range(total)]

    rm = mask(m)
    cm = list(rm) if dom in SYM else mask(n)
    base = gen(draw, cfg, dom, len(rm), len(cm), batch, depth - 1)
    return {"op": "Masked", "base": base, "row_mask": lit(rm, "b"), "col_mask": lit(cm, "b")}


@maker("TriBase", lambda c, d, m, n, b, comp, sq, nb: comp and sq and d in ("any",) + TRI)
def mk_tribase(draw, cfg, dom, m, n, batch, depth):
    if dom in TRI:
        upper, pos = dom.startswith("triu"), dom.endswith("+")
    else:
        upper, pos = draw(st.booleans()), False
    tdom = ("triu" if upper else "tril") + ("+" if pos else "")
    base = gen(draw, cfg, tdom, n, n, batch, depth - 1)
    if base["op"] in ("Tri", "BatchRepeat") or is_diag_instance(base):
        # Tri(Tri) is unwrapped by the constructor (and expects a wrapped tensor); keep the node meaningful
        base = mk_dense(draw, cfg, tdom, n, n, batch, 1)
    return {"op": "Tri", "base": base, "upper": upper}


@maker("Chol", lambda c, d, m, n, b, comp, sq, nb: comp and d in ("psd", "pd"))
def mk_chol(draw, cfg, dom, m, n, batch, depth):
    upper = draw(st.booleans()) if cfg.ok("Chol.upper") else False
    base = gen_tri_instance(draw, cfg, n, batch, upper, dom == "pd", depth - 1)
    return {"op": "Chol", "base": base, "upper": upper}


def _root_factor(draw, cfg, dom, n, batch, depth):
    if dom == "pd":
        if draw(st.booleans()):
            return gen_tri_instance(draw, cfg, n, batch, draw(st.booleans()), True, depth)
        g = draw(st.integers(0, 2))
        L = tri_values(draw, cfg, batch, n, False, True)
        if g:
            G = grid(draw, tuple(batch) + (n, g), -16, 16)
            L = _zipcat(L, G, len(batch))
        return {"op": "Dense", "t": lit(L, cfg.dt)}
    k = draw(st.integers(1, n + 1))
    return gen(draw, cfg, "any", n, k, batch, depth)


def _zipcat(A, B, nb):
    if nb == 0:
        return [ra + rb for ra, rb in zip(A, B)]
    return [_zipcat(a, b, nb - 1) for a, b in zip(A, B)]


@maker("Root", lambda c, d, m, n, b, comp, sq, nb: comp and d in ("psd", "pd"))
def mk_root(draw, cfg, dom, m, n, batch, depth):
    return {"op": "Root", "base": _root_factor(draw, cfg, dom, n, batch, depth - 1)}


@maker("LowRankRoot", lambda c, d, m, n, b, comp, sq, nb: comp and d == "psd")
def mk_lrroot(draw, cfg, dom, m, n, batch, depth):
    k = draw(st.integers(1, max(1, n - 1)))
    base = gen(draw, cfg, "any", n, k, batch, max(1, depth - 1))
    return {"op": "LowRankRoot", "base": base}


# tri domains may also use block / kron / constant-mul structure
def _tri_ok(name):
    return name in ("Dense", "Diag", "ConstantDiag", "Identity", "Zero", "TriT", "TriBase", "KroneckerTri", "KroneckerDiag", "BlockDiag", "BlockInterleaved", "ConstantMul", "Kronecker", "BatchRepeat")


_orig_applicable = _applicable


def _applicable(cfg, dom, m, n, batch, depth):  # noqa: F811
    out = _orig_applicable(cfg, dom, m, n, batch, depth)
    if dom in TRI:
        out = [o for o in out if _tri_ok(o)]
        if dom.endswith("+"):
            out = [o for o in out if o != "Zero"]
    if dom == "pd":
        out = [o for o in out if o not in ("Zero", "Kernel", "KeOps", "Interpolated", "LowRankRoot")]
    return out or ["Dense"]


# ------------------------------------------------------------------------------------------------
# top-level strategies
# ------------------------------------------------------------------------------------------------
@st.composite
def recipes(draw, dom="any", max_depth=3, max_dim=6, dts=("f64", "f64", "f32"), exclude=(), head=None, batches=None, layouts=False, classes=None, square=None):
    dt = draw(st.sampled_from(list(dts)))
    cfg = Cfg(dt=dt, max_dim=max_dim, exclude=exclude, layouts=layouts, classes=classes)
    batch = draw(st.sampled_from(batches or BATCHES))
    n = draw(st.integers(1, max_dim))
    if dom == "any" and not square:
        m = n if draw(st.integers(0, 2)) else draw(st.integers(1, max_dim))
    else:
        m = n
    depth = draw(st.integers(1, max_depth))
    if head is not None:
        hd = draw(st.sampled_from(head)) if isinstance(head, (list, tuple)) else head
        ok = _applicable(cfg, dom, m, n, batch, max(depth, 2))
        if hd in ok:
            return call_maker(hd, draw, cfg, dom, m, n, batch, max(depth, 2))
    return gen(draw, cfg, dom, m, n, batch, depth)


@st.composite
def head_first_recipes(draw, dom="any", **kw):
    """Pick the head class uniformly first (per-class quota), then a domain and size the class accepts."""
    dt = draw(st.sampled_from(list(kw.get("dts", ("f64", "f64", "f32")))))
    cfg = Cfg(dt=dt, max_dim=kw.get("max_dim", 6), exclude=kw.get("exclude", ()), layouts=kw.get("layouts", False))
    names = sorted(nm for nm in PREDS if cfg.ok(nm))
    name = draw(st.sampled_from(names))
    max_depth = kw.get("max_depth", 3)
    doms = [dom] if dom != "any" else draw(st.permutations(["any", "psd", "pd"]))
    for _ in range(4):
        batch = draw(st.sampled_from(kw.get("batches") or BATCHES))
        if name == "BatchRepeat" and draw(st.booleans()):
            # composite batch sizes: only these allow base batch size > 1 AND repeat factor > 1 in the same dimension
            batch = draw(st.sampled_from([(4,), (4,), (6,), (2, 4), (4, 1)]))
        n = draw(st.integers(1, cfg.max_dim))
        m = n if draw(st.integers(0, 2)) else draw(st.integers(1, cfg.max_dim))
        depth = draw(st.integers(2, max(2, max_depth)))
        for dm in doms:
            mm = m if dm == "any" else n
            if name in _applicable(cfg, dm, mm, n, batch, depth):
                return call_maker(name, draw, cfg, dm, mm, n, batch, depth)
    return gen(draw, cfg, doms[0], n, n, batch, depth)


@st.composite
def rhs_for(draw, shape, dt, allow_vector=True):
    """A right-hand side for an operator of the given shape: (kind, literal)."""
    *batch, m, n = shape
    batch = tuple(batch)
    kinds = ["matrix", "matrix", "batched", "broadcast_more", "broadcast_fewer", "size1"]
    if allow_vector:
        kinds.append("vector")
    kind = draw(st.sampled_from(kinds))
    cfg = Cfg(dt=dt)
    c = draw(st.integers(1, 3))
    if kind == "vector":
        return kind, flit(draw, cfg, (n,), -16, 16)
    if kind == "matrix":
        return kind, flit(draw, cfg, (n, c), -16, 16)
    if kind == "batched":
        return kind, flit(draw, cfg, batch + (n, c), -16, 16)
    if kind == "broadcast_more":
        extra = draw(st.sampled_from([(2,), (1,), (3, 1)]))
        return kind, flit(draw, cfg, extra + batch + (n, c), -16, 16)
    if kind == "broadcast_fewer":
        k = draw(st.integers(0, len(batch)))
        return kind, flit(draw, cfg, batch[k:] + (n, c), -16, 16)
    b = tuple(1 if draw(st.booleans()) else x for x in batch)
    return kind, flit(draw, cfg, b + (n, c), -16, 16)
