"""Shared exception types and hashing helpers (separate module so that `python -m lov.runner` and the
property modules see the same classes)."""
import hashlib
import json


class Violation(Exception):
    """An oracle failure.  sig = 'check|operation|class-path|symptom' (the bucket key)."""

    def __init__(self, sig, detail="", case=None):
        super().__init__(f"{sig} :: {detail}")
        self.sig = sig
        self.detail = detail
        self.case = case


class HarnessError(Exception):
    """The harness itself is wrong (reference model raised, internal assertion): exit 2, never a violation."""


def canon(obj):
    return json.dumps(obj, sort_keys=True, default=str)


def sha(obj):
    return hashlib.sha1(canon(obj).encode()).hexdigest()


