"""lov -- linear-operator verification: property-based testing / fuzzing machinery (see /verif/DESIGN.md)."""
