"""Dense reference semantics of every recipe node, in float64, with plain torch only.

This module never imports linear_operator: it is the independent oracle (DESIGN 1.1).
`dense(r)` returns the (batched) dense matrix the constructor arguments denote under the documented
meaning of the structure.  If `leafmap` (id(literal) -> tensor) is given, those tensors are used in place of
the literal values so that autograd reaches the very leaves the library object was built from (C07).
"""
import torch

from lov import lit as L

F64 = torch.float64


def _val(l, leafmap):
    if leafmap is not None and id(l) in leafmap:
        t = leafmap[id(l)]
        if t.dtype.is_floating_point:
            t = t.to(F64)
        if "exp" in l:
            t = t.expand(*l["exp"])
        return t
    return L.value(l, F64)


def kron(a, b):
    """Batched Kronecker product with broadcasting batch dims."""
    bs = torch.broadcast_shapes(a.shape[:-2], b.shape[:-2])
    a = a.expand(*bs, *a.shape[-2:])
    b = b.expand(*bs, *b.shape[-2:])
    res = a[..., :, None, :, None] * b[..., None, :, None, :]
    return res.reshape(*bs, a.shape[-2] * b.shape[-2], a.shape[-1] * b.shape[-1])


def toeplitz(c):
    n = c.shape[-1]
    idx = (torch.arange(n)[:, None] - torch.arange(n)[None, :]).abs()
    return c[..., idx]


def interp_matrix(idx, val, ncols):
    """W (..., m, ncols) with W[i, idx[i,t]] += val[i,t] (duplicates summed)."""
    *bs, m, k = idx.shape
    W = torch.zeros(*bs, m, ncols, dtype=val.dtype)
    W = W.scatter_add(-1, idx, val)
    return W


def block_diag(base):
    """base (..., k, n, m) -> (..., k*n, k*m) block diagonal."""
    *bs, k, n, m = base.shape
    out = torch.zeros(*bs, k * n, k * m, dtype=base.dtype)
    rows = []
    for a in range(k):
        row = [base[..., a, :, :] if c == a else torch.zeros(*bs, n, m, dtype=base.dtype) for c in range(k)]
        rows.append(torch.cat(row, dim=-1))
    out = torch.cat(rows, dim=-2)
    return out


def block_interleaved(base):
    """base (..., k, n, m) -> (..., n*k, m*k) with entry [(i*k+a),(j*k+c)] = delta(a,c) base[a,i,j]."""
    *bs, k, n, m = base.shape
    bd = block_diag(base)  # index (a*n+i, c*m+j)
    bd = bd.reshape(*bs, k, n, k, m)
    bd = bd.permute(*range(len(bs)), len(bs) + 1, len(bs) + 0, len(bs) + 3, len(bs) + 2)  # (i,a,j,c)
    return bd.reshape(*bs, n * k, m * k)


def move_block_dim(base, block_dim):
    """The documented meaning of block_dim: that batch dimension enumerates the blocks."""
    nd = base.dim()
    bd = block_dim if block_dim < 0 else block_dim - nd
    if bd == -3:
        return base
    pos = nd + bd
    perm = list(range(pos)) + list(range(pos + 1, nd - 2)) + [pos, nd - 2, nd - 1]
    return base.permute(*perm)


def kernel_dense(name, x1, x2, params):
    if name == "rbf":
        ls, osc = params["lengthscale"], params["outputscale"]
        a = x1 / ls
        b = x2 / ls
        d = (a[..., :, None, :] - b[..., None, :, :]).pow(2).sum(-1)
        return torch.exp(-0.5 * d) * osc[..., None, None].pow(2)
    if name == "rbf_fixed":
        d = (x1[..., :, None, :] - x2[..., None, :, :]).pow(2).sum(-1)
        return torch.exp(-0.5 * d)
    if name == "linear":
        return torch.matmul(x1, x2.transpose(-1, -2)) * params["variance"]
    if name == "multitask":
        ls, tr = params["lengthscale"], params["task_root"]
        a = x1 / ls
        b = x2 / ls
        d = (a[..., :, None, :] - b[..., None, :, :]).pow(2).sum(-1)
        k = torch.exp(-0.5 * d)
        B = torch.matmul(tr, tr.transpose(-1, -2))
        return kron(k, B)
    raise KeyError(name)


def dense(r, leafmap=None):
    op = r["op"]
    d = lambda x: dense(x, leafmap)  # noqa: E731
    v = lambda l: _val(l, leafmap)  # noqa: E731
    if op in ("Tensor", "Dense", "Minimal"):
        return v(r["t"])
    if op == "Diag":
        return torch.diag_embed(v(r["d"]))
    if op == "ConstantDiag":
        c = v(r["c"])
        return torch.diag_embed(c.expand(*c.shape[:-1], r["n"]))
    if op == "Identity":
        return torch.eye(r["n"], dtype=F64).expand(*r["batch"], r["n"], r["n"]).clone()
    if op == "Zero":
        return torch.zeros(*r["sizes"], dtype=F64)
    if op == "Toeplitz":
        return toeplitz(v(r["c"]))
    if op == "Tri":
        return v(r["t"]) if "t" in r else d(r["base"])
    if op == "Chol":
        f = d(r["base"])
        return f.transpose(-1, -2) @ f if r["upper"] else f @ f.transpose(-1, -2)
    if op in ("Root", "LowRankRoot"):
        f = d(r["base"])
        return f @ f.transpose(-1, -2)
    if op in ("Kronecker", "KroneckerTri", "KroneckerDiag"):
        mats = [d(a) for a in r["args"]]
        out = mats[0]
        for m in mats[1:]:
            out = kron(out, m)
        return out
    if op in ("KroneckerAddedDiag", "SumKronecker", "AddedDiag", "LowRankRootAddedDiag", "Sum", "PsdSum"):
        mats = [d(a) for a in r["args"]]
        out = mats[0]
        for m in mats[1:]:
            out = out + m
        return out
    if op == "Matmul":
        return torch.matmul(d(r["args"][0]), d(r["args"][1]))
    if op == "Mul":
        return d(r["args"][0]) * d(r["args"][1])
    if op == "ConstantMul":
        c = v(r["c"])
        return d(r["base"]) * c[..., None, None]
    if op == "BlockDiag":
        return block_diag(move_block_dim(d(r["base"]), r.get("block_dim", -3)))
    if op == "BlockInterleaved":
        return block_interleaved(move_block_dim(d(r["base"]), r.get("block_dim", -3)))
    if op == "SumBatch":
        return move_block_dim(d(r["base"]), r.get("block_dim", -3)).sum(-3)
    if op == "BatchRepeat":
        base = d(r["base"])
        rep = list(r["repeat"])
        while base.dim() < len(rep) + 2:
            base = base.unsqueeze(0)
        return base.repeat(*rep, 1, 1)
    if op == "Cat":
        return torch.cat([d(a) for a in r["args"]], dim=r["dim"])
    if op == "Interpolated":
        li, lv, ri, rv = v(r["li"]), v(r["lv"]), v(r["ri"]), v(r["rv"])
        base = d(r["base"])
        Wl = interp_matrix(li, lv, base.shape[-2])
        Wr = interp_matrix(ri, rv, base.shape[-1])
        return Wl @ base @ Wr.transpose(-1, -2)
    if op == "Masked":
        base = d(r["base"])
        rm, cm = v(r["row_mask"]), v(r["col_mask"])
        return base[..., rm, :][..., :, cm]
    if op == "Permutation":
        perm = v(r["perm"])
        n = perm.shape[-1]
        # (P x)[i] = x[perm[i]]  =>  P[i, perm[i]] = 1
        return torch.nn.functional.one_hot(perm, n).to(F64)
    if op == "TransposePermutation":
        m = r["m"]
        # maps vec(X) to vec(X^T) for X (m x m), row-major
        n = m * m
        P = torch.zeros(n, n, dtype=F64)
        for i in range(m):
            for j in range(m):
                P[i * m + j, j * m + i] = 1.0
        return P
    if op in ("Kernel", "KeOps"):
        params = {k: v(p) for k, p in r["params"].items()}
        return kernel_dense(r["kernel"], v(r["x1"]), v(r["x2"]), params)
    raise KeyError("unknown recipe node %r" % op)


def shape(r):
    return tuple(dense(r).shape)


def dense_abs(r):
    """Elementwise magnitude bound M >= |every intermediate| obtained by evaluating the same (monotone) semantics
    on the absolute values of the float leaves.  Used only to scale rounding-error tolerances."""
    return _dense_abs(r)


def _dense_abs(r):
    op = r["op"]
    d = _dense_abs
    v = lambda l: L.value(l, F64).abs() if L.value(l).dtype.is_floating_point else L.value(l)  # noqa: E731
    if op in ("Tensor", "Dense", "Minimal"):
        return v(r["t"])
    if op == "Diag":
        return torch.diag_embed(v(r["d"]))
    if op == "ConstantDiag":
        c = v(r["c"])
        return torch.diag_embed(c.expand(*c.shape[:-1], r["n"]))
    if op in ("Identity", "Zero", "Permutation", "TransposePermutation"):
        return dense(r).abs()
    if op == "Toeplitz":
        # Toeplitz products go through FFTs of the whole column: the rounding error of EVERY output entry is
        # proportional to ||c|| (normwise), not to the entries of T that contribute to it
        c = v(r["c"])
        return toeplitz(c) + 0.5 * c.sum(-1, keepdim=True).unsqueeze(-1).expand(*c.shape, c.shape[-1])
    if op == "Tri":
        return v(r["t"]) if "t" in r else d(r["base"])
    if op in ("Chol", "Root", "LowRankRoot"):
        f = d(r["base"])
        if op == "Chol" and r["upper"]:
            return f.transpose(-1, -2) @ f
        return f @ f.transpose(-1, -2)
    if op in ("Kronecker", "KroneckerTri", "KroneckerDiag"):
        mats = [d(a) for a in r["args"]]
        out = mats[0]
        for m in mats[1:]:
            out = kron(out, m)
        return out
    if op in ("KroneckerAddedDiag", "SumKronecker", "AddedDiag", "LowRankRootAddedDiag", "Sum", "PsdSum"):
        mats = [d(a) for a in r["args"]]
        out = mats[0]
        for m in mats[1:]:
            out = out + m
        return out
    if op == "Matmul":
        return torch.matmul(d(r["args"][0]), d(r["args"][1]))
    if op == "Mul":
        return d(r["args"][0]) * d(r["args"][1])
    if op == "ConstantMul":
        return d(r["base"]) * v(r["c"])[..., None, None]
    if op == "BlockDiag":
        return block_diag(move_block_dim(d(r["base"]), r.get("block_dim", -3)))
    if op == "BlockInterleaved":
        return block_interleaved(move_block_dim(d(r["base"]), r.get("block_dim", -3)))
    if op == "SumBatch":
        return move_block_dim(d(r["base"]), r.get("block_dim", -3)).sum(-3)
    if op == "BatchRepeat":
        base = d(r["base"])
        rep = list(r["repeat"])
        while base.dim() < len(rep) + 2:
            base = base.unsqueeze(0)
        return base.repeat(*rep, 1, 1)
    if op == "Cat":
        return torch.cat([d(a) for a in r["args"]], dim=r["dim"])
    if op == "Interpolated":
        base = d(r["base"])
        Wl = interp_matrix(L.value(r["li"]), v(r["lv"]), base.shape[-2])
        Wr = interp_matrix(L.value(r["ri"]), v(r["rv"]), base.shape[-1])
        return Wl @ base @ Wr.transpose(-1, -2)
    if op == "Masked":
        base = d(r["base"])
        rm, cm = L.value(r["row_mask"]), L.value(r["col_mask"])
        return base[..., rm, :][..., :, cm]
    if op in ("Kernel", "KeOps"):
        params = {k: L.value(p, F64) for k, p in r["params"].items()}
        x1, x2 = L.value(r["x1"], F64), L.value(r["x2"], F64)
        if r["kernel"] == "linear":
            return torch.matmul(x1.abs(), x2.abs().transpose(-1, -2)) * params["variance"].abs()
        if r["kernel"] == "multitask":
            params = dict(params, task_root=params["task_root"].abs())
        return kernel_dense(r["kernel"], x1, x2, params).abs() * 64.0 + 1e-30
    raise KeyError("unknown recipe node %r" % op)
