"""Operator grammar: JSON 'recipes' and build() into real library objects (DESIGN 1.1).

A recipe is {"op": <node>, ...}.  Sub-recipes live under "args" (list) or "base"; tensors are literals
(lov.lit).  build() calls exactly the public constructors; nothing here computes any matrix value.
"""
import re
import warnings

import torch

import linear_operator
from linear_operator import operators as O

from lov import lit as L
from lov import userops

TORCH_DT = {"f64": torch.float64, "f32": torch.float32}


class BuildCtx:
    def __init__(self):
        self.leaves = []  # (literal dict, leaf tensor) for literals with rg=True
        self.tensors = []  # every materialised caller tensor (literal, tensor) -- used by C13


def _mat(l, ctx):
    t = L.materialise(l, ctx.leaves if ctx is not None else None)
    if ctx is not None:
        ctx.tensors.append((l, t))
    return t


LAST_BUILD_JITTER = 0.0  # largest Cholesky jitter psd_safe_cholesky reported while the last recipe was built (0.0: none)
_JIT_RE = re.compile(r"added jitter of ([0-9.eE+-]+)")


def jitter_reported(ws):
    """largest 'added jitter of X' among recorded warnings (psd_safe_cholesky's first attempt is without jitter and silent)"""
    out = 0.0
    for w in ws:
        m = _JIT_RE.search(str(w.message))
        if m:
            try:
                out = max(out, float(m.group(1)))
            except ValueError:
                out = max(out, 1e-4)
    return out


def build(r, ctx=None):
    """Recipe -> library object (LinearOperator or Tensor for {"op": "Tensor"}).  Warnings are swallowed (recorded)."""
    global LAST_BUILD_JITTER
    with warnings.catch_warnings(record=True) as ws:
        warnings.simplefilter("always")
        out = _build(r, ctx)
    LAST_BUILD_JITTER = jitter_reported(ws)
    return out


def _build(r, ctx):
    op = r["op"]
    b = lambda x: _build(x, ctx)  # noqa: E731
    if op == "Tensor":
        return _mat(r["t"], ctx)
    if op == "Dense":
        return O.DenseLinearOperator(_mat(r["t"], ctx))
    if op == "Minimal":
        return userops.MinimalOp(_mat(r["t"], ctx))
    if op == "Diag":
        return O.DiagLinearOperator(_mat(r["d"], ctx))
    if op == "ConstantDiag":
        return O.ConstantDiagLinearOperator(_mat(r["c"], ctx), diag_shape=r["n"])
    if op == "Identity":
        # (device given explicitly: the default device=None makes `.device` None, which e.g. cat() compares)
        if r.get("nodt") and r["dt"] == "f32":
            # the dtype argument left to its documented default (torch.float): the same operator, another constructor call
            return O.IdentityLinearOperator(r["n"], batch_shape=torch.Size(r["batch"]), device=torch.device("cpu"))
        return O.IdentityLinearOperator(r["n"], batch_shape=torch.Size(r["batch"]), dtype=TORCH_DT[r["dt"]], device=torch.device("cpu"))
    if op == "Zero":
        return O.ZeroLinearOperator(*r["sizes"], dtype=TORCH_DT[r["dt"]])
    if op == "Toeplitz":
        return O.ToeplitzLinearOperator(_mat(r["c"], ctx))
    if op == "Tri":
        if "t" in r:
            return O.TriangularLinearOperator(_mat(r["t"], ctx), upper=r["upper"])
        return O.TriangularLinearOperator(b(r["base"]), upper=r["upper"])
    if op == "Chol":
        return O.CholLinearOperator(b(r["base"]), upper=r["upper"])
    if op == "Root":
        return O.RootLinearOperator(b(r["base"]))
    if op == "LowRankRoot":
        return O.LowRankRootLinearOperator(b(r["base"]))
    if op == "Kronecker":
        return O.KroneckerProductLinearOperator(*[b(a) for a in r["args"]])
    if op == "KroneckerTri":
        return O.KroneckerProductTriangularLinearOperator(*[b(a) for a in r["args"]], upper=r["upper"])
    if op == "KroneckerDiag":
        return O.KroneckerProductDiagLinearOperator(*[b(a) for a in r["args"]])
    if op == "KroneckerAddedDiag":
        return O.KroneckerProductAddedDiagLinearOperator(*[b(a) for a in r["args"]])
    if op == "SumKronecker":
        return O.SumKroneckerLinearOperator(*[b(a) for a in r["args"]])
    if op == "AddedDiag":
        return O.AddedDiagLinearOperator(*[b(a) for a in r["args"]])
    if op == "LowRankRootAddedDiag":
        return O.LowRankRootAddedDiagLinearOperator(*[b(a) for a in r["args"]])
    if op == "Sum":
        return O.SumLinearOperator(*[b(a) for a in r["args"]])
    if op == "PsdSum":
        return O.PsdSumLinearOperator(*[b(a) for a in r["args"]])
    if op == "Matmul":
        return O.MatmulLinearOperator(b(r["args"][0]), b(r["args"][1]))
    if op == "Mul":
        return O.MulLinearOperator(b(r["args"][0]), b(r["args"][1]))
    if op == "ConstantMul":
        return O.ConstantMulLinearOperator(b(r["base"]), _mat(r["c"], ctx))
    if op == "BlockDiag":
        return O.BlockDiagLinearOperator(b(r["base"]), block_dim=r.get("block_dim", -3))
    if op == "BlockInterleaved":
        return O.BlockInterleavedLinearOperator(b(r["base"]), block_dim=r.get("block_dim", -3))
    if op == "SumBatch":
        return O.SumBatchLinearOperator(b(r["base"]), block_dim=r.get("block_dim", -3))
    if op == "BatchRepeat":
        return O.BatchRepeatLinearOperator(b(r["base"]), batch_repeat=torch.Size(r["repeat"]))
    if op == "Cat":
        return O.CatLinearOperator(*[b(a) for a in r["args"]], dim=r["dim"], output_device=torch.device("cpu"))
    if op == "Interpolated":
        return O.InterpolatedLinearOperator(
            b(r["base"]), _mat(r["li"], ctx), _mat(r["lv"], ctx), _mat(r["ri"], ctx), _mat(r["rv"], ctx)
        )
    if op == "Masked":
        return O.MaskedLinearOperator(b(r["base"]), _mat(r["row_mask"], ctx), _mat(r["col_mask"], ctx))
    if op == "Permutation":
        return O.PermutationLinearOperator(_mat(r["perm"], ctx))
    if op == "TransposePermutation":
        return O.TransposePermutationLinearOperator(r["m"])
    if op in ("Kernel", "KeOps"):
        fn = userops.KERNELS[r["kernel"]]
        params = {k: _mat(v, ctx) for k, v in r["params"].items()}
        x1, x2 = _mat(r["x1"], ctx), _mat(r["x2"], ctx)
        if op == "KeOps":
            return O.KeOpsLinearOperator(x1, x2, fn, **params)
        kw = {}
        if r.get("nout"):
            kw["num_outputs_per_input"] = tuple(r["nout"])
        if r.get("nonbatch"):
            kw["num_nonbatch_dimensions"] = dict(r["nonbatch"])
        if r.get("op_param") == "task_root":
            # the same kernel with the task covariance passed as a keyword SUB-OPERATOR (a LinearOperator-valued hyperparameter)
            fn = userops.multitask_op
            params["task_covar"] = O.RootLinearOperator(params.pop("task_root"))
        return O.KernelLinearOperator(x1, x2, covar_func=fn, **kw, **params)
    raise KeyError("unknown recipe node %r" % op)


# ----------------------------------------------------------------------------------------------
# structural helpers (pure JSON)
# ----------------------------------------------------------------------------------------------
def children(r):
    out = []
    if "args" in r:
        out.extend(r["args"])
    if "base" in r:
        out.append(r["base"])
    return out


def walk(r):
    yield r
    for c in children(r):
        yield from walk(c)


def depth(r):
    cs = children(r)
    return 1 + (max(depth(c) for c in cs) if cs else 0)


def head(r):
    return r["op"]


def class_path(r, maxdepth=3):
    cs = children(r)
    if not cs or maxdepth <= 1:
        return r["op"]
    return "%s(%s)" % (r["op"], ",".join(class_path(c, maxdepth - 1) for c in cs))


def classes(r):
    return sorted({n["op"] for n in walk(r)})


def float_literals(r):
    """All floating literals of the recipe (dicts, mutable: callers may set 'rg' / 'lay')."""
    out = []
    for n in walk(r):
        for k, v in n.items():
            if L.is_lit(v) and v["dt"] in ("f64", "f32"):
                out.append(v)
            elif k == "params" and isinstance(v, dict):
                for pv in v.values():
                    if L.is_lit(pv) and pv["dt"] in ("f64", "f32"):
                        out.append(pv)
    return out


def dtype_of(r):
    for n in walk(r):
        if "dt" in n and n["op"] in ("Identity", "Zero"):
            return n["dt"]
        for k, v in n.items():
            if L.is_lit(v) and v["dt"] in ("f64", "f32"):
                return v["dt"]
            if k == "params" and isinstance(v, dict):
                for pv in v.values():
                    if L.is_lit(pv) and pv["dt"] in ("f64", "f32"):
                        return pv["dt"]
    return "f32"


def proper_subrecipes(r):
    """Bottom-up list of proper sub-recipes that are operators (for compositional blame)."""
    out = []
    for c in children(r):
        out.extend(proper_subrecipes(c))
        if c["op"] != "Tensor":
            out.append(c)
    return out


assert linear_operator  # keep import (asserted by the runner to come from /repo)


def built_has_class(r, clsname):
    """True iff an instance of the library class `clsname` occurs in the operator tree BUILT from the recipe: written in the
    recipe, or created by a constructor (e.g. the default _expand_batch of a user subclass / kernel turns a component that a
    Kronecker / Sum constructor batch-expands into a BatchRepeatLinearOperator)."""
    import linear_operator

    cls = getattr(linear_operator.operators, clsname)
    try:
        op = build(r)
    except Exception:
        return False
    todo, seen = [op], 0
    while todo and seen < 300:
        o = todo.pop()
        seen += 1
        if isinstance(o, cls):
            return True
        todo.extend(a for a in getattr(o, "_args", ()) if isinstance(a, linear_operator.LinearOperator))
    return False
