"""Global-state reset executed at the top of every example, and helpers to observe the library."""
import contextlib
import hashlib
import inspect
import json
import logging
import warnings

import torch

import linear_operator
from linear_operator import beta_features, settings

_FLAGS = []  # (cls)
_VALUES = []  # (cls, default)
_DTYPE_VALUES = []  # (cls, (f, d, h))


def _collect():
    seen = set()
    for mod in (settings, beta_features):
        for name, obj in vars(mod).items():
            if not inspect.isclass(obj) or obj in seen:
                continue
            seen.add(obj)
            if name in ("_feature_flag", "_value_context", "_dtype_value_context"):
                continue
            if issubclass(obj, settings._feature_flag):
                _FLAGS.append(obj)
            elif issubclass(obj, settings._value_context):
                _VALUES.append((obj, obj._global_value))
            elif issubclass(obj, settings._dtype_value_context):
                _DTYPE_VALUES.append(
                    (obj, (obj._global_float_value, obj._global_double_value, obj._global_half_value))
                )


_collect()

# silence the verbose logger's stdout handler; we attach our own capturing handler
_vlogger = settings.verbose_linalg.logger
for _h in list(_vlogger.handlers):
    _vlogger.removeHandler(_h)
_vlogger.propagate = False


class _Capture(logging.Handler):
    def __init__(self):
        super().__init__(level=logging.DEBUG)
        self.lines = []

    def emit(self, record):
        try:
            self.lines.append(record.getMessage())
        except Exception:  # pragma: no cover
            pass


_capture = _Capture()
_vlogger.addHandler(_capture)


def reset(default_dtype=torch.float32, seed_obj=None):
    """Restore every library global to its import-time default. Direct assignment, never the context managers."""
    for cls in _FLAGS:
        cls._state = None
    settings.deterministic_probes.probe_vectors = None
    for cls, val in _VALUES:
        cls._global_value = val
    for cls, (f, d, h) in _DTYPE_VALUES:
        cls._global_float_value = f
        cls._global_double_value = d
        cls._global_half_value = h
    torch.set_default_dtype(default_dtype)
    warnings.resetwarnings()
    warnings.simplefilter("ignore")
    _capture.lines.clear()
    torch.manual_seed(case_seed(seed_obj))


def case_seed(obj):
    if obj is None:
        return 0
    s = json.dumps(obj, sort_keys=True, default=str)
    return int(hashlib.sha1(s.encode()).hexdigest()[:8], 16)


@contextlib.contextmanager
def linalg_log():
    """Collect the messages of the library's verbose linear-algebra logger (which algorithm actually ran)."""
    prev = settings.verbose_linalg._state
    settings.verbose_linalg._state = True
    start = len(_capture.lines)
    out = []
    try:
        yield out
    finally:
        out.extend(_capture.lines[start:])
        settings.verbose_linalg._state = prev


def algorithms(lines):
    tags = set()
    for ln in lines:
        low = ln.lower()
        if "cg" in low and "running" in low:
            tags.add("cg")
        if "cholesky" in low and "pivoted" not in low:
            tags.add("cholesky")
        if "pivoted" in low:
            tags.add("pivchol")
        if "lanczos" in low:
            tags.add("lanczos")
        if "symeig" in low:
            tags.add("symeig")
        if "minres" in low:
            tags.add("minres")
        if "svd" in low:
            tags.add("svd")
        if "ciq" in low or "contour" in low:
            tags.add("ciq")
    return sorted(tags)


SETTING_CLASSES = {
    "flags": _FLAGS,
    "values": _VALUES,
    "dtype_values": _DTYPE_VALUES,
}


def apply_settings(cell):
    """Enter the real context managers for a {name: value} dict; returns an ExitStack (use as context manager)."""
    stack = contextlib.ExitStack()
    for name, val in sorted((cell or {}).items()):
        if name.startswith("fast."):
            part = name.split(".", 1)[1]
            stack.enter_context(settings.fast_computations(**{part: val}))
        elif name == "linalg_dtypes":
            dt = {"f32": torch.float32, "f64": torch.float64}[val]
            stack.enter_context(settings.linalg_dtypes(default=dt))
        elif name == "default_preconditioner":
            stack.enter_context(beta_features.default_preconditioner(val))
        else:
            cls = getattr(settings, name)
            if issubclass(cls, settings._dtype_value_context):
                stack.enter_context(cls(float_value=val, double_value=val))
            else:
                stack.enter_context(cls(val))
    return stack


def repo_file():
    return linear_operator.__file__
