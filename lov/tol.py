"""Tolerance policy (DESIGN section 3) -- one place."""
import torch

U = {torch.float32: 2.0**-24, torch.float64: 2.0**-53, "f32": 2.0**-24, "f64": 2.0**-53}
C_EXACT = 256.0  # constant of the exact-structure bound |lib - ref| <= C * (k + 4*depth) * u * S
C_DIRECT = 1024.0  # constant of the direct-method backward-error bounds
TINY = 1e-300


def u_of(dt):
    return U[dt]


def exact_bound(S, dt, inner, depth, extra=1.0):
    """Elementwise bound for results that are exact up to rounding: S is the magnitude bound (|A| |X|)."""
    return C_EXACT * (inner + 4 * depth) * extra * U[dt] * S + TINY


def worst_excess(lib, ref, bound):
    """max over entries of |lib-ref| / bound (nan-safe): > 1 means violation. Returns (ratio, index)."""
    diff = (lib.to(torch.float64) - ref).abs()
    bad = ~torch.isfinite(lib)
    ratio = diff / bound
    ratio = torch.where(bad, torch.full_like(ratio, float("inf")), ratio)
    if ratio.numel() == 0:
        return 0.0, None
    flat = ratio.reshape(-1)
    i = int(torch.argmax(flat))
    return float(flat[i]), i


JITTER_MAX = {"f32": 1e-6 * 100, "f64": 1e-8 * 100}  # psd_safe_cholesky: jitter * 10^(max_tries-1)


def root_slack(dt, n):
    """Extra factor for results defined through root decompositions (psd_safe_cholesky jitter included)."""
    return 8.0 * n + JITTER_MAX[dt] / U[dt] / 64.0
