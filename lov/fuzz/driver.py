"""Atheris / libFuzzer campaign driving the SAME Hypothesis test body as the property module (DESIGN section 5).

usage: python -m lov.fuzz.driver <ID> --runs N --seed S --out stats.json [--corpus DIR]

The fuzz target is `test.hypothesis.fuzz_one_input` of `given(mod.strategy(tier))(body)`; the oracle (mod.check) runs
inside the target.  Known findings are swallowed (counted); the first unknown violation is written as a JSON replay
case and the process exits with code 77 (libFuzzer would otherwise only keep raw bytes).  Stats are flushed
periodically because atexit handlers do not run under libFuzzer.
"""
import argparse
import json
import os
import sys
import time


def main():
    ap = argparse.ArgumentParser()
    ap.add_argument("prop")
    ap.add_argument("--runs", type=int, default=2000)
    ap.add_argument("--seed", type=int, default=1)
    ap.add_argument("--out", required=True)
    ap.add_argument("--corpus", default=None)
    ap.add_argument("--tier", default="thorough")
    ap.add_argument("--max-len", type=int, default=4096)
    args = ap.parse_args()

    import atheris

    with atheris.instrument_imports(include=["linear_operator"], enable_loader_override=False):
        import linear_operator  # noqa: F401

    import torch

    torch.set_num_threads(1)
    from hypothesis import HealthCheck, given, settings

    from lov import state
    from lov.core import HarnessError, Violation, sha
    from lov.findings import Findings
    from lov.runner import load_module, write_replay

    mod = load_module(args.prop.upper())
    findings = Findings(mod.ID, getattr(mod, "TRIGGERS", {}))
    stats = {"executions": 0, "evaluations": 0, "nontrivial": set(), "known": 0, "violation": None, "invalid": 0, "t0": time.time()}

    def flush():
        out = dict(stats)
        out["nontrivial"] = sorted(stats["nontrivial"])
        out["wall_s"] = round(time.time() - stats["t0"], 2)
        del out["t0"]
        tmp = args.out + ".tmp"
        with open(tmp, "w") as fh:
            json.dump(out, fh)
        os.replace(tmp, args.out)

    def body(case):
        stats["evaluations"] += 1
        state.reset(seed_obj=case)
        try:
            info = mod.check(case)
        except Violation as v:
            vcase = v.case if v.case is not None else case
            if findings.match(v.sig, vcase) is not None:
                stats["known"] += 1
                return
            path = write_replay(mod.ID, v.sig, vcase, v.detail, args.seed)
            stats["violation"] = {"sig": v.sig, "replay": path, "detail": v.detail[:1500]}
            flush()
            os._exit(77)
        except HarnessError as e:
            stats["violation"] = {"harness_error": repr(e)}
            flush()
            os._exit(78)
        finally:
            state.reset()
        if info and info.get("nontrivial"):
            stats["nontrivial"].add(sha(info.get("key", case)))

    test = settings(database=None, deadline=None, suppress_health_check=list(HealthCheck))(given(mod.strategy(args.tier))(body))
    fuzz_one = test.hypothesis.fuzz_one_input

    def target(data):
        stats["executions"] += 1
        try:
            fuzz_one(data)
        except (Violation, HarnessError):
            raise
        except Exception:
            # hypothesis-internal rejection of the byte string (invalid / too short): not an execution of the oracle
            stats["invalid"] += 1
        if stats["executions"] % 200 == 0:
            flush()

    argv = [sys.argv[0], "-runs=%d" % args.runs, "-seed=%d" % (args.seed % (2**31 - 1) or 1), "-max_len=%d" % args.max_len, "-print_final_stats=0", "-verbosity=0", "-len_control=0"]
    if args.corpus:
        os.makedirs(args.corpus, exist_ok=True)
        argv.append(args.corpus)
    atheris.Setup(argv, target)
    try:
        atheris.Fuzz()
    finally:
        flush()


if __name__ == "__main__":
    main()
